------------------------------ MODULE AgentSet ------------------------------
(***************************************************************************)
(* C20.  A derived agent set is a tree of fields; updating it is the       *)
(* in-order sequence of leaf updates on ONE environment and ONE generator. *)
(*  - ShapeSet: the struct shapes TLC enumerates; a generator writes one   *)
(*    #[derive(AgentSet)] and one #[derive(MarketAgentSet)] struct per      *)
(*    shape, compiled against the working tree's macro crate;               *)
(*  - Conforms: every recorded trace (probe agents: one draw from a         *)
(*    counting generator and one order tagged with the leaf id per update)  *)
(*    must equal Update(shape), for the derived impl and for the            *)
(*    hand-written sequence of calls alike.                                 *)
(***************************************************************************)
EXTENDS Integers, Sequences, FiniteSets, Json, IOUtils, TLC

Leaf(t) == [t |-> t]
Set(fs) == [t |-> "S", f |-> fs]
LeafT == {"A", "B"}

\* ---- shapes enumerated by TLC --------------------------------------------------
Leaves1 == {Leaf(t) : t \in LeafT}
Inner == {Set(fs) : fs \in UNION {[1..k -> Leaves1] : k \in 1..2}}
Deep == {Set(<<Leaf("A"), Set(<<Leaf("B"), Leaf("A")>>)>>)}
Field == Leaves1 \cup Inner \cup Deep
Wide == {Set([i \in 1..8 |-> Leaf(IF i % 2 = 1 THEN "A" ELSE "B")]),
         Set([i \in 1..8 |-> Leaf("A")]),
         Set(<<Leaf("A"), Set(<<Leaf("B"), Leaf("B")>>), Leaf("A"), Set(<<Leaf("A"), Set(<<Leaf("B"), Leaf("A")>>)>>), Leaf("B")>>),
         Set(<<Set(<<Set(<<Set(<<Leaf("A")>>)>>)>>)>>),
         Set(<<Leaf("B"), Leaf("B"), Leaf("A"), Leaf("B"), Leaf("B")>>)}
\* large sets (the number of members must not matter: 16, 17, 19, 32, 33 members, a large set nested in a small one)
Alt(n) == Set([i \in 1..n |-> Leaf(IF i % 2 = 1 THEN "A" ELSE "B")])
Large == {Alt(16), Alt(17), Alt(19), Alt(32), Alt(33), Set(<<Leaf("B"), Alt(21), Leaf("A")>>)}
ShapeSet == {Set(fs) : fs \in UNION {[1..k -> Field] : k \in 1..2}} \cup Wide \cup Large

RECURSIVE NLeaves(_)
NLeaves(s) == IF s.t # "S" THEN 1
              ELSE LET RECURSIVE Sum(_) Sum(k) == IF k = 0 THEN 0 ELSE NLeaves(s.f[k]) + Sum(k - 1) IN Sum(Len(s.f))

\* in-order leaf types
RECURSIVE Flat(_)
Flat(s) == IF s.t # "S" THEN <<s.t>>
           ELSE LET RECURSIVE Cat(_) Cat(k) == IF k = 0 THEN <<>> ELSE Cat(k - 1) \o Flat(s.f[k]) IN Cat(Len(s.f))

\* ---- the meaning of one update call --------------------------------------------
\* leaves are numbered 0.. in declaration order; call c (1-based) of a set with n leaves must produce,
\* in this order, <<leaf k, draw (c-1) n + k, order id (c-1) n + k>> for k = 0..n-1
Update(s, c) == LET n == NLeaves(s) IN [k \in 1..n |-> <<k - 1, (c - 1) * n + k - 1, (c - 1) * n + k - 1>>]

\* ---- generation ------------------------------------------------------------------
\* A struct is a shape plus how it is written down, which must not matter:
\*  naming: field names whose alphabetical order is the declaration order ("ordered"), its reverse
\*          ("reversed") or unrelated to it ("mixed") - "declaration order" is not "name order";
\*  attrs:  fields carrying attributes (doc comments, #[allow], a #[cfg] whose predicate is true) are
\*          members like any other; a field whose #[cfg] predicate is false does not exist.
\*  style:  how the declaration is laid out - "block" (one field per line, trailing comma, as rustfmt writes it),
\*          "compact" (one line, no comma after the last field) or "macro" (the struct is declared through a
\*          macro_rules! macro that captures the field types as `ty` fragments, again without trailing comma).
Namings == {"ordered", "reversed", "mixed"}
Styles == {"block", "compact", "macro"}
CONSTANT Full     \* TRUE: every (naming, attrs, style) combination for the small shapes too
Variants(s) == IF Full /\ NLeaves(s) <= 3 THEN [naming : Namings, attrs : BOOLEAN, style : Styles]
               ELSE {[naming |-> "ordered", attrs |-> FALSE, style |-> "block"], [naming |-> "reversed", attrs |-> TRUE, style |-> "block"],
                     [naming |-> "mixed", attrs |-> FALSE, style |-> "compact"], [naming |-> "ordered", attrs |-> TRUE, style |-> "macro"],
                     [naming |-> "mixed", attrs |-> FALSE, style |-> "macro"], [naming |-> "reversed", attrs |-> TRUE, style |-> "compact"]}
VARIABLES sh, var, done
GInit == sh \in ShapeSet /\ var \in Variants(sh) /\ done = FALSE
GNext == UNCHANGED <<sh, var, done>>
EmitShape == PrintT(<<"SHAPE", ToJson([shape |-> sh, leaves |-> Flat(sh), n |-> NLeaves(sh), naming |-> var.naming, attrs |-> var.attrs, style |-> var.style])>>)
SizeOK == NLeaves(sh) >= 1 /\ NLeaves(sh) <= 33

\* ---- validation of the recorded traces ---------------------------------------------
Rec == ndJsonDeserialize(IOEnv.TRACE)
\* {shape (as emitted), n, macro, calls: per update call the observed <<leaf, draw, order id>> list, hand: the same for the hand-written calls}
ExpectedCalls(n, ncalls) == [c \in 1..ncalls |-> [k \in 1..n |-> <<k - 1, (c - 1) * n + k - 1, (c - 1) * n + k - 1>>]]
RecOK(r) ==
  /\ r.calls = ExpectedCalls(r.n, Len(r.calls))       \* every member once, in order, shared generator and environment
  /\ r.hand = r.calls                                  \* interchangeable with the hand-written sequence
  /\ Len(r.calls) >= 2
Bad == {i \in 1..Len(Rec) : ~RecOK(Rec[i])}
VInit == done = FALSE /\ sh = Leaf("A") /\ var = [naming |-> "ordered", attrs |-> FALSE, style |-> "block"]
VNext == done = FALSE /\ done' = TRUE /\ UNCHANGED <<sh, var>>
Verdict ==
  done =>
    IF Bad = {} THEN PrintT(<<"ACCEPTED", Len(Rec)>>)
    ELSE PrintT(<<"TRACE-REJECT", ToJson([at |-> CHOOSE i \in Bad : \A j \in Bad : i <= j, why |-> "DERIVED-SET",
                                         event |-> Rec[CHOOSE i \in Bad : \A j \in Bad : i <= j], bad |-> Cardinality(Bad)])>>) /\ FALSE
=============================================================================
