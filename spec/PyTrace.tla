------------------------------ MODULE PyTrace ------------------------------
(***************************************************************************)
(* Validation of traces recorded from the Python environments              *)
(* (bourse.core.StepEnv / StepEnvNumpy, py/pyrecord.py) - C19, C18.        *)
(*                                                                         *)
(* Every event carries what the object shows after the call: get_orders(), *)
(* get_trades(), both observation arrays, the market-data dictionary       *)
(* (lengths and last entries; the complete dictionary at the end of a run),*)
(* both data frames and, for StepEnv, every scalar getter.                 *)
(* TLC decodes the order table and recomputes from it alone (BookOps!ViewsO*)
(* and the trade log) what every array cell, dictionary entry, data-frame  *)
(* column and cached getter must hold according to PyView.tla.  It also    *)
(* checks the schedule-independent part of the step semantics: between     *)
(* steps nothing changes except appended New orders (C10); a step leaves   *)
(* no New order behind, stamps the orders it processes with distinct times *)
(* inside the step window, stamps its trades inside the window and moves   *)
(* the clock to start + step size (C08); the dictionary grows by one       *)
(* aligned entry per step and never rewrites history (C11).                *)
(***************************************************************************)
EXTENDS PyView, Json, IOUtils

Rec == ndJsonDeserialize(IOEnv.TRACE)

VARIABLES l,       \* index of the next event
          cfg,     \* reset event of the current run
          nsteps,
          orders,  \* decoded order table after the previous event
          trades,
          recs,    \* per step: closing level-2 record
          tvs,     \* per step: traded volume
          tmark,   \* length of the trade log when the current / last step began
          sm,      \* simulations through bourse.step_sim.run: [on, ph (member expected next), pre (orders at
                   \* update_begin), calls (submit events of the member being updated), agents, n_steps]
          bad

tvars == <<l, cfg, nsteps, orders, trades, recs, tvs, tmark, sm, bad>>
NoSim == [on |-> FALSE, ph |-> 0, pre |-> <<>>, calls |-> <<>>, agents |-> <<>>, n_steps |-> 0, inupd |-> FALSE]

TInit ==
  /\ l = 1 /\ cfg = [op |-> "none"] /\ nsteps = 0 /\ orders = <<>> /\ trades = <<>>
  /\ recs = <<>> /\ tvs = <<>> /\ tmark = 0 /\ sm = NoSim /\ bad = ""

Decode(e) == [i \in 1..Len(e.orders) |-> FromPyOrder(e.orders[i])]
DecodeT(e) == [i \in 1..Len(e.trades) |-> FromPyTrade(e.trades[i])]

\* level-2 record recomputed from the order table alone
L2From(os, tick) == ViewsAll(ViewsO(os, tick, 10)).l2

\* traded volume of the current / last step: the trades appended since that step began (not read
\* off the timestamps: a batch larger than the step size runs into the next step's time window)
TvFrom(ts, mark) == SumSeq([i \in 1..(Len(ts) - mark) |-> ts[mark + i].vol])

FirstFalse(cl) ==
  LET F == {k \in 1..Len(cl) : ~cl[k][2]} IN
  IF F = {} THEN "" ELSE cl[CHOOSE k \in F : \A j \in F : k <= j][1]

\* ---- what Python must show for the decoded table (C19 / C18) ----------------
ViewClauses(e, c, os, ts, k, rs, vs, mark) ==
  LET l2 == L2From(os, c.tick)
      tv == TvFrom(ts, mark)
  IN
  << <<"ids_dense", \A i \in 1..Len(e.orders) : e.orders[i][9] = i - 1>>,
     <<"l1_array", e.l1 = L1Array(l2, tv)>>,
     <<"l2_array", e.l2 = L2Array(l2, tv)>>,
     <<"dict_keys", DOMAIN e.md_len = DictKeys /\ DOMAIN e.md_last = DictKeys>>,
     <<"dict_lengths", \A key \in DictKeys : e.md_len[key] = k>>,
     <<"dict_last_entries", k > 0 => \A key \in DictKeys : e.md_last[key] = DictEntry(key, l2, tv)>>,
     <<"dict_history", ("md_full" \in DOMAIN e) =>
                         /\ DOMAIN e.md_full = DictKeys
                         /\ \A key \in DictKeys : e.md_full[key] = MarketDataDict(rs, vs)[key]>>,
     <<"order_frame", e.order_frame = OrderFrameOf(os)>>,
     <<"trade_frame", e.trade_frame = TradeFrameOf(ts)>>,
     <<"env_getters", ("env" \in DOMAIN e) =>
          /\ e.env.time = c.t0 + k * c.step
          /\ e.env.bid_ask = <<l2[1], l2[2]>>
          /\ e.env.bid_vol = l2[3] /\ e.env.ask_vol = l2[4]
          /\ e.env.best_bid_vol = l2[5][1][1] /\ e.env.best_ask_vol = l2[6][1][1]
          /\ e.env.best_bid_vol_and_orders = l2[5][1] /\ e.env.best_ask_vol_and_orders = l2[6][1]
          /\ e.env.trade_vol = tv
          /\ e.env.statuses = [i \in 1..Len(os) |-> StatusCode(os[i].status)]
          /\ e.env.prices = <<[j \in 1..k |-> rs[j][1]], [j \in 1..k |-> rs[j][2]]>>
          /\ e.env.volumes = <<[j \in 1..k |-> rs[j][3]], [j \in 1..k |-> rs[j][4]]>>
          /\ e.env.touch_volumes = <<[j \in 1..k |-> rs[j][5][1][1]], [j \in 1..k |-> rs[j][6][1][1]]>>
          /\ e.env.touch_order_counts = <<[j \in 1..k |-> rs[j][5][1][2]], [j \in 1..k |-> rs[j][6][1][2]]>>
          /\ e.env.trade_volumes = vs>> >>

\* ---- submissions (C10) --------------------------------------------------------
\* the instruction rows of one submitting call, normalised: [k |-> "new", side, vol, tr, price] | [k |-> "cancel", id] |
\* [k |-> "modify", id, p, v] | [k |-> "noop"].  k = "mixed" is a StepEnvNumpy.submit_instructions call whose rows are of
\* several kinds (logged row by row in `ins`); a call that raised (off-grid price) is logged with the rows queued before it did.
InsOf(e) ==
  CASE e.k = "new"    -> [i \in 1..Len(e.rows) |-> [k |-> "new", side |-> e.rows[i].side, vol |-> e.rows[i].vol, tr |-> e.rows[i].tr, price |-> e.rows[i].price]]
    [] e.k = "cancel" -> [i \in 1..Len(e.ids) |-> [k |-> "cancel", id |-> e.ids[i]]]
    [] e.k = "modify" -> <<[k |-> "modify", id |-> e.id, p |-> e.p, v |-> e.v]>>
    [] e.k = "mixed"  -> e.ins
NewRows(e) == SelectSeq(InsOf(e), LAMBDA x : x.k = "new")
NewBefore(ins, i) == Cardinality({j \in 1..i : ins[j].k = "new"})
SubmitClauses(e, c, os, ts) ==
  LET no == Decode(e)  rows == NewRows(e)  ins == InsOf(e) IN
  << <<"trades_untouched", DecodeT(e) = ts>>,
     <<"existing_orders_untouched", IsPrefix(os, no)>>,
     <<"one_new_order_per_row", Len(no) = Len(os) + Len(rows)>>,
     <<"returned_ids", ("ret" \in DOMAIN e /\ e.k \in {"new", "mixed"}) =>
          /\ Len(e.ret) = Len(ins)
          /\ \A i \in 1..Len(ins) : e.ret[i] = (IF ins[i].k = "new" THEN Len(os) + NewBefore(ins, i) - 1 ELSE -1)>>,
     <<"new_orders_as_submitted", Len(no) = Len(os) + Len(rows) => \A i \in 1..Len(rows) :
          LET o == no[Len(os) + i]  r == rows[i] IN
          /\ o.status = "New" /\ o.side = r.side /\ o.vol = r.vol /\ o.start = r.vol /\ o.trader = r.tr
          /\ o.price = (IF r.price = -1 THEN (IF r.side = "B" THEN MaxPrice ELSE 0) ELSE r.price)
          /\ o.end = None>>,
     <<"no_order_ids_for_other_rows", (e.k = "cancel" /\ "ret" \in DOMAIN e) => \A i \in 1..Len(e.ret) : e.ret[i] = -1>> >>

\* a step may apply several instructions to one order: the transitive closure of the
\* single-call relation BookProps!AllowedTransition (a limit order placed and cancelled in one step)
ReachableInStep(o1, o2) ==
  \/ AllowedTransition(o1, o2)
  \/ o1.status = "New" /\ ~IsMkt(o1) /\ o2.status = "Cancelled"

\* ---- a step, as far as it can be read without knowing the schedule (C08, C04) ----
StepClauses(e, c, os, ts, k) ==
  LET no == Decode(e)  nt == DecodeT(e)
      start == c.t0 + k * c.step
      nnew == Cardinality({i \in 1..Len(os) : os[i].status = "New"})
      placed == {i \in 1..Len(os) : os[i].status = "New"}
  IN
  << <<"same_orders", Len(no) = Len(os)>>,
     <<"no_new_left", \A i \in 1..Len(no) : no[i].status # "New">>,
     <<"trades_append_only", IsPrefix(ts, nt)>>,
     <<"identity_kept", Len(no) = Len(os) => \A i \in 1..Len(os) : no[i].side = os[i].side /\ no[i].trader = os[i].trader /\ no[i].start = os[i].start>>,
     <<"terminal_frozen", Len(no) = Len(os) => \A i \in 1..Len(os) : os[i].status \in Terminal => no[i] = os[i]>>,
     <<"transitions", Len(no) = Len(os) => \A i \in 1..Len(os) : ReachableInStep(os[i], no[i])>>,
     <<"arrival_in_window", Len(no) = Len(os) => \A i \in placed : no[i].arr >= start>>,
     <<"arrivals_distinct", Len(no) = Len(os) => \A i, j \in placed : i # j => no[i].arr # no[j].arr>>,
     <<"trade_times_in_window", \A i \in (Len(ts) + 1)..Len(nt) : nt[i].t >= start>>,
     <<"trade_times_ordered", \A i \in (Len(ts) + 1)..(Len(nt) - 1) : nt[i].t <= nt[i + 1].t>>,
     <<"trades_well_formed", \A i \in (Len(ts) + 1)..Len(nt) :
          LET t == nt[i] IN
          /\ t.vol > 0 /\ t.agg # t.pas
          /\ t.agg + 1 \in 1..Len(no) /\ t.pas + 1 \in 1..Len(no)
          /\ no[t.agg + 1].side = Opp(no[t.pas + 1].side) /\ t.side = no[t.pas + 1].side>>,
     <<"ends_in_window", Len(no) = Len(os) => \A i \in 1..Len(os) : (os[i].status \notin Terminal /\ no[i].status \in Terminal) => no[i].end >= start>> >>

\* ---- bourse.step_sim.run with RandomAgent members (py/pyrecord.py --mode sim) -----------------------
\* The Python RandomAgent as a relation between what it could observe when update was called (the order
\* table `pre`) and the instructions it submitted (`calls`): at most one; none at activity rate 0, exactly
\* one at rate >= 1; a cancellation only of its own order that was active; otherwise one new limit order
\* with its own trader id, a price tick_size * k with k in the tick range and a volume in the volume
\* range, and only when it had no active order (never two live orders).
PyRandomRel(a, tick, pre, calls) ==
  LET own == {i \in 1..Len(pre) : pre[i].trader = a.i /\ pre[i].status = "Active"} IN
  /\ Len(calls) <= 1
  /\ a.rate_class = "zero" => calls = <<>>
  /\ a.rate_class = "one" => Len(calls) = 1
  /\ \A k \in 1..Len(calls) :
       LET x == calls[k] IN
       /\ x.k \in {"new", "cancel"}
       /\ x.k = "cancel" => Len(x.ids) = 1 /\ (x.ids[1] + 1) \in own
       /\ x.k = "new" =>
            /\ Len(x.rows) = 1 /\ own = {}
            /\ LET r == x.rows[1] IN
               /\ r.tr = a.i /\ r.price # -1
               /\ r.price % tick = 0
               /\ r.price \div tick >= a.tick_lo /\ r.price \div tick < a.tick_hi
               /\ r.vol >= a.vol_lo /\ r.vol < a.vol_hi

\* loop structure of the runner: every member once, in order, then one step; n_steps times
SimClause(e) ==
  IF ~sm.on THEN ""
  ELSE CASE e.op = "update_begin" -> IF e.agent = sm.ph /\ ~sm.inupd /\ sm.ph < Len(sm.agents) THEN "" ELSE "runner_updates_every_member_once_in_order"
         [] e.op = "update_end" -> IF e.agent # sm.ph \/ ~sm.inupd THEN "runner_updates_every_member_once_in_order"
                                   ELSE IF ~PyRandomRel(sm.agents[sm.ph + 1], cfg.tick, sm.pre, sm.calls) THEN "python_random_agent_relation"
                                   ELSE ""
         [] e.op = "submit" -> IF sm.inupd THEN "" ELSE "submission_outside_a_member_update"
         [] e.op = "step" -> IF sm.ph = Len(sm.agents) /\ ~sm.inupd THEN "" ELSE "runner_steps_after_every_member_has_updated"
         [] e.op = "sim_end" -> IF ~(sm.ph = 0 /\ nsteps = sm.n_steps /\ e.returned_market_data /\ e.rounds = sm.n_steps)
                                THEN "runner_takes_exactly_n_steps_and_returns_the_market_data"
                                ELSE IF ("repeat_identical" \in DOMAIN e) /\ ~e.repeat_identical
                                THEN "the_same_simulation_again_gives_the_same_orders_and_trades"
                                ELSE ""
         [] OTHER -> ""

SimNext(e) ==
  IF ~sm.on THEN sm
  ELSE CASE e.op = "update_begin" -> [sm EXCEPT !.pre = orders, !.calls = <<>>, !.inupd = TRUE]
         [] e.op = "update_end" -> [sm EXCEPT !.ph = @ + 1, !.inupd = FALSE]
         [] e.op = "submit" -> [sm EXCEPT !.calls = Append(@, e)]
         [] e.op = "step" -> [sm EXCEPT !.ph = 0]
         [] OTHER -> sm

SimEnd ==
  /\ l <= Len(Rec) /\ Rec[l].op = "sim_end" /\ bad = ""
  /\ bad' = (IF SimClause(Rec[l]) = "" THEN "" ELSE "CLAUSE:" \o SimClause(Rec[l]))
  /\ l' = IF bad' = "" THEN l + 1 ELSE l
  /\ UNCHANGED <<cfg, nsteps, orders, trades, recs, tvs, tmark, sm>>

Reset ==
  /\ l <= Len(Rec) /\ Rec[l].op = "reset"
  /\ LET e == Rec[l]  c == [tick |-> e.tick, step |-> e.step, mode |-> e.mode, t0 |-> IF "t0" \in DOMAIN e THEN e.t0 ELSE 0] IN
     /\ bad' = FirstFalse(ViewClauses(e, c, <<>>, <<>>, 0, <<>>, <<>>, 0))
     /\ cfg' = c
  /\ nsteps' = 0 /\ orders' = <<>> /\ trades' = <<>> /\ recs' = <<>> /\ tvs' = <<>> /\ tmark' = 0
  /\ sm' = IF "sim" \in DOMAIN Rec[l]
           THEN [on |-> TRUE, ph |-> 0, pre |-> <<>>, calls |-> <<>>, agents |-> Rec[l].agents, n_steps |-> Rec[l].n_steps, inupd |-> FALSE]
           ELSE NoSim
  /\ l' = IF bad' = "" THEN l + 1 ELSE l

\* verdict ("" = every clause holds) and successor values of one non-reset event, as operators, so that
\* PyEnvTrace.tla (the same trace with the specification's environment run alongside) reuses them
CallK2(e)  == IF e.op = "step" THEN nsteps + 1 ELSE nsteps
CallRs2(e) == IF e.op = "step" THEN Append(recs, L2From(Decode(e), cfg.tick)) ELSE recs
CallMk2(e) == IF e.op = "step" THEN Len(trades) ELSE tmark
CallVs2(e) == IF e.op = "step" THEN Append(tvs, TvFrom(DecodeT(e), CallMk2(e))) ELSE tvs
CallVerdict(e) ==
  LET no == Decode(e)  nt == DecodeT(e)
      c1 == CASE e.op = "submit" -> FirstFalse(SubmitClauses(e, cfg, orders, trades))
              [] e.op = "step"   -> FirstFalse(StepClauses(e, cfg, orders, trades, nsteps))
              [] OTHER -> (IF no = orders /\ nt = trades THEN "" ELSE "call_changes_nothing_observable")
      c2 == FirstFalse(ViewClauses(e, cfg, no, nt, CallK2(e), CallRs2(e), CallVs2(e), CallMk2(e)))
      c3 == SimClause(e)
  IN IF c3 # "" THEN "CLAUSE:" \o c3 ELSE IF c1 # "" THEN "CLAUSE:" \o c1 ELSE IF c2 # "" THEN "CLAUSE:" \o c2 ELSE ""

CallUpdate(e, verdict) ==
  /\ bad' = verdict
  /\ sm' = SimNext(e)
  /\ nsteps' = CallK2(e) /\ orders' = Decode(e) /\ trades' = DecodeT(e)
  /\ recs' = CallRs2(e) /\ tvs' = CallVs2(e) /\ tmark' = CallMk2(e)
  /\ l' = IF bad' = "" THEN l + 1 ELSE l
  /\ UNCHANGED cfg

Call ==
  /\ l <= Len(Rec) /\ Rec[l].op \notin {"reset", "sim_end"} /\ bad = ""
  /\ CallUpdate(Rec[l], CallVerdict(Rec[l]))

TNext == Reset \/ Call \/ SimEnd
TSpec == TInit /\ [][TNext]_tvars

ASSUME TLCSet(1, 0)
Track == TLCSet(1, MaxOf(TLCGet(1), l))
Accepted ==
  IF TLCGet(1) = Len(Rec) + 1
  THEN PrintT(<<"ACCEPTED", Len(Rec)>>)
  ELSE PrintT(<<"REJECTED", TLCGet(1)>>) /\ FALSE

Report ==
  bad # "" =>
    PrintT(<<"TRACE-REJECT", ToJson([at |-> l, why |-> bad, event |-> Rec[l],
             spec_l1 |-> IF "orders" \in DOMAIN Rec[l] THEN L1Array(L2From(Decode(Rec[l]), cfg.tick), TvFrom(DecodeT(Rec[l]), tmark)) ELSE <<>>,
             spec_l2 |-> IF "orders" \in DOMAIN Rec[l] THEN L2Array(L2From(Decode(Rec[l]), cfg.tick), TvFrom(DecodeT(Rec[l]), tmark)) ELSE <<>>,
             nsteps |-> nsteps, member_expected |-> sm.ph])>>)
=============================================================================
