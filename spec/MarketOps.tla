----------------------------- MODULE MarketOps -----------------------------
(***************************************************************************)
(* Pure operators on a multi-asset market / simulation environment record: *)
(* bourse_book::Market (N books sharing one clock) and bourse_de::Env /     *)
(* MarketEnv (a market plus an instruction queue, a cached level-2 view    *)
(* and recorded histories).  A single-asset Env is the case N = 1.         *)
(*                                                                         *)
(* The books are exactly the BookOps records: the market level adds        *)
(* nothing but routing by asset index and fan-out of the clock / flags.    *)
(* Asset indices are 0-based as in the code (asset a lives at index a+1).  *)
(***************************************************************************)
EXTENDS BookProps

NewEnv(t0, ticks, step, trading, nlev) ==
  LET bs == [a \in 1..Len(ticks) |-> NewBook(t0, ticks[a], trading, nlev)] IN
  [ books   |-> bs,
    step    |-> step,                \* step size in time units
    pending |-> <<>>,                \* queued instructions, submission order
    l2      |-> [a \in 1..Len(ticks) |-> ViewsAll(ViewsQ(bs[a])).l2],   \* level-2 data handed to agents
    rec     |-> [a \in 1..Len(ticks) |-> <<>>],   \* per asset: one level-2 record per step
    tvols   |-> [a \in 1..Len(ticks) |-> <<>>],   \* per asset: traded volume per step
    nsteps  |-> 0 ]

NAssets(m) == Len(m.books)
Bk(m, a) == m.books[a + 1]
MapBooks(m, F(_)) == [m EXCEPT !.books = [a \in 1..Len(m.books) |-> F(m.books[a])]]
L2Of(bk) == ViewsAll(ViewsQ(bk)).l2

\* ---- direct market operations (C14) ---------------------------------------
\* labels: a book label (BookProps) plus field a = asset for the per-asset calls;
\* settime / enable / disable / resettv fan out to every book; reload is the identity.
PerAsset == {"create", "cap", "place", "cancel", "modify", "event"}

ApplyMkt(m, l) ==
  IF l.op \in PerAsset THEN [m EXCEPT !.books[l.a + 1] = ApplyLbl(@, l)]
  ELSE IF l.op = "reload" THEN m
  ELSE MapBooks(m, LAMBDA bk : ApplyLbl(bk, l))

RetMkt(m, l) == IF l.op \in {"create", "cap"} THEN RetOf(Bk(m, l.a), l) ELSE None

\* ---- environment: submissions (C10) ----------------------------------------
\* [op |-> "submit", k |-> "new", a, side, vol, tr, price, ret]
\* [op |-> "submit", k |-> "cancel" | "modify", a, id, p, v]
SubmitF(m, l) ==
  IF l.k = "new"
  THEN LET bk == Bk(m, l.a) IN
       IF ~CreateOK(bk, l.price) THEN m
       ELSE [m EXCEPT !.books[l.a + 1] = CreateF(bk, l.side, l.vol, l.tr, l.price),
                      !.pending = Append(@, [k |-> "new", a |-> l.a, id |-> NextId(bk), p |-> None, v |-> None])]
  ELSE [m EXCEPT !.pending = Append(@, [k |-> l.k, a |-> l.a, id |-> l.id, p |-> l.p, v |-> l.v])]

RetSubmit(m, l) ==
  IF l.k = "new" THEN (IF CreateOK(Bk(m, l.a), l.price) THEN NextId(Bk(m, l.a)) ELSE None) ELSE None

\* ---- environment: one step (C08, C11) ---------------------------------------
\* perm[k] = index (in submission order) of the k-th processed instruction.
Perms(n) == {p \in [1..n -> 1..n] : \A i, j \in 1..n : i # j => p[i] # p[j]}

\* process instruction e at time t: the whole market's clock is set, the event goes to its book
ProcessF(books, e, t) ==
  LET bs == [a \in 1..Len(books) |-> SetTimeF(books[a], t)] IN
  [bs EXCEPT ![e.a + 1] = EventF(@, e)]

RECURSIVE ProcessAll(_, _, _, _, _)
ProcessAll(books, pending, perm, start, k) ==
  IF k > Len(pending) THEN books
  ELSE ProcessAll(ProcessF(books, pending[perm[k]], start + k - 1), pending, perm, start, k + 1)

StepF(m, perm) ==
  LET start == m.books[1].now
      b0 == [a \in 1..Len(m.books) |-> ResetTVolF(m.books[a])]
      b1 == ProcessAll(b0, m.pending, perm, start, 1)
      b2 == [a \in 1..Len(b1) |-> SetTimeF(b1[a], start + m.step)]
  IN [m EXCEPT !.books = b2,
               !.pending = <<>>,
               !.l2 = [a \in 1..Len(b2) |-> L2Of(b2[a])],
               !.rec = [a \in 1..Len(b2) |-> Append(m.rec[a], L2Of(b2[a]))],
               !.tvols = [a \in 1..Len(b2) |-> Append(m.tvols[a], b2[a].tvol)],
               !.nsteps = m.nsteps + 1]

ApplyEnv(m, l, perm) ==
  CASE l.op = "submit"  -> SubmitF(m, l)
    [] l.op = "step"    -> StepF(m, perm)
    [] l.op = "enable"  -> MapBooks(m, EnableF)
    [] l.op = "disable" -> MapBooks(m, DisableF)

\* ---- projections ------------------------------------------------------------
\* all-asset queries of Market, each derived from the per-asset views in asset order
MktViews(m) ==
  LET V(a) == ViewsAll(ViewsQ(m.books[a])) IN
  [ now        |-> m.books[1].now,
    bid_asks   |-> [a \in 1..Len(m.books) |-> <<V(a).bid, V(a).ask>>],
    bid_vols   |-> [a \in 1..Len(m.books) |-> V(a).bvol],
    ask_vols   |-> [a \in 1..Len(m.books) |-> V(a).avol],
    bid_best   |-> [a \in 1..Len(m.books) |-> V(a).bbest],
    ask_best   |-> [a \in 1..Len(m.books) |-> V(a).abest],
    bid_best_vols |-> [a \in 1..Len(m.books) |-> V(a).bbest[1]],
    ask_best_vols |-> [a \in 1..Len(m.books) |-> V(a).abest[1]],
    bid_levels |-> [a \in 1..Len(m.books) |-> V(a).blev],
    ask_levels |-> [a \in 1..Len(m.books) |-> V(a).alev],
    l2         |-> [a \in 1..Len(m.books) |-> V(a).l2],
    tvols      |-> [a \in 1..Len(m.books) |-> m.books[a].tvol] ]

ProjMkt(m) ==
  [ books |-> [a \in 1..Len(m.books) |-> Proj(m.books[a])], mkt |-> MktViews(m) ]

\* recorded series as the getters present them (per asset):
\* prices = <<bids, asks>>, volumes = <<bids, asks>>, touch volumes / order counts,
\* per level volumes and counts, traded volume per step
Series(recs, F(_)) == [j \in 1..Len(recs) |-> F(recs[j])]

RecViews(m, a) ==
  LET r == m.rec[a]  nl == m.books[a].nlev IN
  [ prices  |-> <<Series(r, LAMBDA x : x[1]), Series(r, LAMBDA x : x[2])>>,
    volumes |-> <<Series(r, LAMBDA x : x[3]), Series(r, LAMBDA x : x[4])>>,
    touch_vols   |-> <<Series(r, LAMBDA x : x[5][1][1]), Series(r, LAMBDA x : x[6][1][1])>>,
    touch_counts |-> <<Series(r, LAMBDA x : x[5][1][2]), Series(r, LAMBDA x : x[6][1][2])>>,
    bid_level_vols   |-> [i \in 1..nl |-> Series(r, LAMBDA x : x[5][i][1])],
    bid_level_counts |-> [i \in 1..nl |-> Series(r, LAMBDA x : x[5][i][2])],
    ask_level_vols   |-> [i \in 1..nl |-> Series(r, LAMBDA x : x[6][i][1])],
    ask_level_counts |-> [i \in 1..nl |-> Series(r, LAMBDA x : x[6][i][2])],
    rec_prices  |-> <<Series(r, LAMBDA x : x[1]), Series(r, LAMBDA x : x[2])>>,
    rec_volumes |-> <<Series(r, LAMBDA x : x[3]), Series(r, LAMBDA x : x[4])>>,
    trade_vols |-> m.tvols[a] ]

InstrTuple(e) == <<e.k, e.a, e.id, e.p, e.v>>

ProjEnv(m) ==
  [ books   |-> [a \in 1..Len(m.books) |-> Proj(m.books[a])],
    env_orders |-> [a \in 1..Len(m.books) |-> Proj(m.books[a]).orders],   \* the environment's own order / trade getters
    env_trades |-> [a \in 1..Len(m.books) |-> Proj(m.books[a]).trades],
    env_order_by_id |-> [a \in 1..Len(m.books) |-> Proj(m.books[a]).orders],            \* order(id) for every id
    env_statuses |-> [a \in 1..Len(m.books) |-> [i \in 1..Len(m.books[a].orders) |-> m.books[a].orders[i].status]],   \* order_status(id)
    now     |-> m.books[1].now,
    pending |-> [k \in 1..Len(m.pending) |-> InstrTuple(m.pending[k])],
    l2      |-> m.l2,
    rec     |-> [a \in 1..Len(m.books) |-> RecViews(m, a)],
    nsteps  |-> m.nsteps ]

---------------------------------------------------------------------------
(* Property clauses at the environment level *)

\* C10: the level-2 data handed to agents is the live book's as of the last step
C10_L2AsOfLastStep(m) ==
  \A a \in 1..Len(m.books) :
    m.l2[a] = (IF m.nsteps = 0 THEN m.l2[a] ELSE m.rec[a][Len(m.rec[a])])

\* C10: a submission changes nothing but the queue and (for a new order) one appended New order
C10_SubmitInvisible(old, new, l) ==
  l.op = "submit" =>
    /\ new.l2 = old.l2 /\ new.rec = old.rec /\ new.tvols = old.tvols
    /\ \A a \in 1..Len(old.books) :
         LET ob == old.books[a]  nb == new.books[a] IN
         /\ [Proj(nb) EXCEPT !.orders = <<>>] = [Proj(ob) EXCEPT !.orders = <<>>]
         /\ IsPrefix(ob.orders, nb.orders)
         /\ Len(nb.orders) <= Len(ob.orders) + 1
         /\ Len(nb.orders) = Len(ob.orders) + 1 =>
              /\ l.k = "new" /\ l.a = a - 1
              /\ nb.orders[Len(nb.orders)].status = "New"

\* C08: after a step the queue is empty, the clock is start + step size, per-step traded
\* volume is the sum of the trades stamped within the step
C08_StepShape(old, new, l) ==
  l.op = "step" =>
    /\ new.pending = <<>>
    /\ \A a \in 1..Len(new.books) :
         /\ new.books[a].now = old.books[1].now + old.step
         /\ Len(new.rec[a]) = Len(old.rec[a]) + 1
         /\ Len(new.tvols[a]) = Len(old.tvols[a]) + 1
         /\ new.tvols[a][Len(new.tvols[a])] =
              SumSeq([k \in 1..(Len(new.books[a].trades) - Len(old.books[a].trades)) |->
                        new.books[a].trades[Len(old.books[a].trades) + k].vol])

\* C11: k steps -> k entries in every series, entry = live value at the end of the step
C11_Records(m) ==
  \A a \in 1..Len(m.books) :
    /\ Len(m.rec[a]) = m.nsteps /\ Len(m.tvols[a]) = m.nsteps

\* C14: all books share one clock
C14_SharedClock(m) == \A a \in 1..Len(m.books) : m.books[a].now = m.books[1].now
=============================================================================
