------------------------------- MODULE EnvGen -------------------------------
(***************************************************************************)
(* Behaviour generator for the simulation environments (Env, MarketEnv).   *)
(* A step processes the queued instructions in SOME permutation; the       *)
(* specification does not say which.  The generator therefore carries the  *)
(* set of all (schedule, state) pairs a path can lead to (power-set        *)
(* construction) and prints, for every path, the complete set of outcomes  *)
(* the specification allows.  The replayer runs the real environment on    *)
(* the path under several seeds and requires each real outcome to be a     *)
(* member (hook-free), and equal to the outcome of the schedule the real   *)
(* step reports (verif_schedule hook).                                     *)
(***************************************************************************)
EXTENDS MarketOps, Json

CONSTANTS
  Ticks,       \* sequence: tick size per asset
  StepSize, NLevels, Trading0,
  T0,          \* start time of the environment (need not be a multiple of the step size)
  Ops,         \* subset of {"new", "cancel", "modify", "step", "enable", "disable"}
  Sides, Kinds, Prices, Vols, Traders,
  ModPrices,   \* new prices offered to modify (None = keep)
  ModVolsAbs,  \* new volumes offered to modify (None = keep)
  MaxSubmits,  \* bound on submissions over the whole path
  MaxBatch,    \* bound on instructions per step
  MaxSteps,
  MaxOrders    \* bound on orders per asset

VARIABLES S,      \* set of [m |-> environment, sched |-> instructions processed so far, per step, in order]
          hist,   \* labels so far (schedules erased)
          nsub, nstep

gvars == <<S, hist, nsub, nstep>>

Rep == CHOOSE x \in S : TRUE      \* submission-visible facts are the same in every element
Assets == 0..(Len(Ticks) - 1)

GInit ==
  /\ S = {[m |-> NewEnv(T0, Ticks, StepSize, Trading0, NLevels), sched |-> <<>>]}
  /\ hist = <<>>
  /\ nsub = 0
  /\ nstep = 0

Submit(l) ==
  /\ nsub < MaxSubmits
  /\ Len(Rep.m.pending) < MaxBatch
  /\ S' = {[x EXCEPT !.m = SubmitF(x.m, l)] : x \in S}
  /\ hist' = Append(hist, l)
  /\ nsub' = nsub + 1
  /\ nstep' = nstep

SubmitNew ==
  /\ "new" \in Ops
  /\ \E a \in Assets, s \in Sides, k \in Kinds, v \in Vols, tr \in Traders :
       \E p \in (IF k = "L" THEN Prices ELSE {None}) :
         /\ NOrders(Bk(Rep.m, a)) < MaxOrders
         /\ Submit([op |-> "submit", k |-> "new", a |-> a, side |-> s, vol |-> v, tr |-> tr, price |-> p,
                    ret |-> RetSubmit(Rep.m, [k |-> "new", a |-> a, price |-> p])])

SubmitCancel ==
  /\ "cancel" \in Ops
  /\ \E a \in Assets : \E id \in Ids(Bk(Rep.m, a)) :
       Submit([op |-> "submit", k |-> "cancel", a |-> a, id |-> id, p |-> None, v |-> None])

SubmitModify ==
  /\ "modify" \in Ops
  /\ \E a \in Assets : \E id \in Ids(Bk(Rep.m, a)) : \E np \in ModPrices, nv \in ModVolsAbs :
       /\ ~(np = None /\ nv = None)
       /\ Submit([op |-> "submit", k |-> "modify", a |-> a, id |-> id, p |-> np, v |-> nv])

SchedOf(m, perm) == [k \in 1..Len(m.pending) |-> InstrTuple(m.pending[perm[k]])]

Step ==
  /\ "step" \in Ops
  /\ nstep < MaxSteps
  /\ S' = UNION {{[m |-> StepF(x.m, perm), sched |-> Append(x.sched, SchedOf(x.m, perm))]
                    : perm \in Perms(Len(x.m.pending))} : x \in S}
  /\ hist' = Append(hist, [op |-> "step"])
  /\ nstep' = nstep + 1
  /\ nsub' = nsub

Toggle(o, F(_)) ==
  /\ o \in Ops
  /\ (IF Len(hist) = 0 THEN TRUE ELSE hist[Len(hist)].op \notin {"enable", "disable"})
  /\ Cardinality({i \in 1..Len(hist) : hist[i].op \in {"enable", "disable"}}) < 2   \* at most two toggles per path
  /\ S' = {[x EXCEPT !.m = MapBooks(x.m, F)] : x \in S}
  /\ hist' = Append(hist, [op |-> o])
  /\ UNCHANGED <<nsub, nstep>>

GNext == SubmitNew \/ SubmitCancel \/ SubmitModify \/ Step \/ Toggle("enable", EnableF) \/ Toggle("disable", DisableF)

\* one line per path: every outcome the specification allows
Emit ==
  PrintT(<<"GEN", ToJson([path |-> hist,
                          outs |-> SetToSeq({[sched |-> x.sched, exp |-> ProjEnv(x.m),
                                             f3 |-> \E a \in 1..Len(x.m.books) : ~C12_OnGrid(x.m.books[a])] : x \in S})])>>)

\* ---- the environment-level clauses on the model ---------------------------
Inv_C10_L2AsOfLastStep == \A x \in S : C10_L2AsOfLastStep(x.m)
Inv_C11_Records        == \A x \in S : C11_Records(x.m)
Inv_C14_SharedClock    == \A x \in S : C14_SharedClock(x.m)
Inv_BookStateOK        == \A x \in S : \A a \in 1..Len(x.m.books) : StateOK(x.m.books[a])
=============================================================================
