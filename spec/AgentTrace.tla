----------------------------- MODULE AgentTrace -----------------------------
(***************************************************************************)
(* Validation of traces recorded from the built-in agents (record_agents)  *)
(* against the relations of Agents.tla, plus                                *)
(*  - the momentum signal M recomputed exactly from the observed           *)
(*    mid-prices: U_k = 4 * 2^k * M_k is an integer for decay in {1, 1/2}; *)
(*  - mirrored run pairs (C17): the second run of a pair sees the          *)
(*    reflected price path and must produce the reflected order flow.      *)
(***************************************************************************)
EXTENDS Agents, Json, IOUtils, TLC

Rec == ndJsonDeserialize(IOEnv.TRACE)

VARIABLES l, c,        \* next event; configuration of the current run
          k, last, u,  \* momentum: updates seen, last observed mid2, scaled signal
          prev, cur,   \* mirrored pairs: instruction lists of the first run / of the current run
          bad
avars == <<l, c, k, last, u, prev, cur, bad>>

TInit == l = 1 /\ c = [kind |-> "none"] /\ k = 0 /\ last = <<0, 0>> /\ u = 0 /\ prev = <<>> /\ cur = <<>> /\ bad = ""

\* tracked exactly only where the integers stay small: runs whose mid-price path the harness imposes
Tracked(cc) == cc.kind = "momentum" /\ cc.controlled /\ cc.decay4 \in {2, 4}

Pow2(n) == IF n = 0 THEN 1 ELSE 2 ^ n

\* scaled momentum after observing mid2 value m (k = number of earlier updates); m and lst are digit pairs (Big.tla).
\* With decay 1 only the sign of P - p matters, which Big.tla's comparison gives for mid-prices of any size - in
\* particular for the mid-price of a one-sided book, where the empty side shows the sentinel 0 / maximum price.
NextU(cc, kk, lst, uu, m) ==
  IF kk = 0 THEN 0
  ELSE IF cc.decay4 = 4 THEN (IF m = lst THEN 0 ELSE IF BigLe(lst, m) THEN 1 ELSE -1)     \* decay 1: M = P - p (sign only)
  ELSE uu + (BigVal(m) - BigVal(lst)) * Pow2(kk)               \* decay 1/2: U_k = U_{k-1} + (mid2 - last) 2^k

Sgn(x) == IF x > 0 THEN 1 ELSE IF x < 0 THEN -1 ELSE 0

\* reflection of an instruction list about the level L (mid2 of the level is 2L)
MirrorOK(cc, A, B) ==
  /\ Len(A) = Len(B)
  /\ \A i \in 1..Len(A) :
       /\ A[i].k = B[i].k /\ A[i].id = B[i].id /\ A[i].tr = B[i].tr
       /\ A[i].k = "new" =>
            \* (C17 speaks of sides, sizes and steps; the limit PRICES of a mirrored pair are not compared: they are clamped to
            \*  the price range, 0 below and 2^32 - 1 above, which is not symmetric about the mirror level)
            /\ A[i].side # B[i].side /\ A[i].vol = B[i].vol /\ A[i].mkt = B[i].mkt

Rel(cc, e, sgn) ==
  CASE cc.kind = "random"   -> RandomRel(cc, e)
    [] cc.kind = "noise"    -> NoiseRel(cc, e)
    [] cc.kind = "momentum" -> MomentumRel(cc, e, sgn)

Step ==
  /\ l <= Len(Rec)
  /\ bad = ""
  /\ LET e == Rec[l] IN
     CASE e.op = "reset" ->
            /\ c' = e /\ k' = 0 /\ last' = <<0, 0>> /\ u' = 0 /\ cur' = <<>>
            /\ prev' = IF e.reflected THEN cur ELSE <<>>
            /\ bad' = "" /\ l' = l + 1
       [] e.op = "update" ->
            \* k < 0: the mid-price left the range in which the signal is tracked exactly (rest of the run untracked)
            \* (decay 1/2: the 2^k scaling must stay within 32 bits - at most 18 updates and mid-price moves of at most 500;
            \*  a one-sided step moves the mid-price by far more and ends the exact tracking of such a run)
            LET tr == Tracked(c) /\ k >= 0 /\
                      (c.decay4 = 4 \/ (BigSmall(e.mid2) /\ k <= 18 /\ (k = 0 \/ (BigVal(e.mid2) - BigVal(last) <= 1000 /\ BigVal(last) - BigVal(e.mid2) <= 1000))))
                m  == IF tr THEN e.mid2 ELSE <<0, 0>>
                nu == IF tr THEN NextU(c, k, last, u, m) ELSE 0
                sg == IF tr THEN Sgn(nu) ELSE 2
                ok == Rel(c, e, sg)
                mir == (c.mirror /\ c.reflected) =>
                          (Len(cur) + 1 <= Len(prev) /\ MirrorOK(c, prev[Len(cur) + 1], e.instrs))
            IN
            /\ bad' = IF ~ok THEN "RELATION" ELSE IF ~mir THEN "MIRROR" ELSE ""
            /\ l' = IF bad' = "" THEN l + 1 ELSE l
            /\ k' = (IF Tracked(c) /\ ~tr THEN -1 ELSE k + 1) /\ last' = m /\ u' = nu
            /\ cur' = Append(cur, e.instrs)
            /\ UNCHANGED <<c, prev>>
       [] e.op = "end" ->
            /\ bad' = IF (c.mirror /\ c.reflected /\ Len(cur) # Len(prev)) THEN "MIRROR" ELSE ""
            /\ l' = IF bad' = "" THEN l + 1 ELSE l
            /\ UNCHANGED <<c, k, last, u, prev, cur>>
       [] e.op = "abort" ->
            \* an aborted simulation is reported by the recorder itself; the trace simply ends the run here
            /\ l' = l + 1 /\ UNCHANGED <<c, k, last, u, prev, cur, bad>>

TNext == Step
TSpec == TInit /\ [][TNext]_avars

ASSUME TLCSet(1, 0)
Track == TLCSet(1, IF TLCGet(1) >= l THEN TLCGet(1) ELSE l)
Accepted ==
  IF TLCGet(1) = Len(Rec) + 1
  THEN PrintT(<<"ACCEPTED", Len(Rec)>>)
  ELSE PrintT(<<"REJECTED", TLCGet(1)>>) /\ FALSE

\* which clause of the relation fails (for the report)
Report ==
  bad # "" =>
    PrintT(<<"TRACE-REJECT", ToJson([at |-> l, why |-> bad, event |-> Rec[l],
              run |-> [kind |-> c.kind, multi |-> c.multi, tick |-> c.tick, n |-> c.n, id0 |-> c.id0, saturated |-> c.saturated,
                       reflected |-> c.reflected, p_limit |-> c.p_limit, p_market |-> c.p_market, p_cancel |-> c.p_cancel,
                       rate |-> c.rate, cfg |-> c.cfg],
              momentum_sign |-> IF Tracked(c) THEN Sgn(u) ELSE 2, updates_seen |-> k])>>)
=============================================================================
