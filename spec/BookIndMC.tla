----------------------------- MODULE BookIndMC -----------------------------
(***************************************************************************)
(* BookInd.tla (the typed engine whose invariant Apalache proves           *)
(* inductive) driven in lock-step with BookOps.tla (the reference engine   *)
(* that every conformance check binds to the code).  TLC checks after      *)
(* every call that both hold the same orders, queues and flags - so the    *)
(* inductive invariant is a statement about the operators the code is      *)
(* compared with, not about a look-alike.                                  *)
(***************************************************************************)
EXTENDS BookInd, TLC

CONSTANTS MaxPrice, Prices, Vols, MaxOps

VARIABLES b, k

BO == INSTANCE BookOps

mvars == <<ord, n, qb, qa, nq, trading, everOff, b, k>>

MInit ==
  /\ Init
  /\ b = BO!NewBook(0, Tick, trading, 1)
  /\ k = 0

Bid0(id) == id - 1     \* BookOps ids are 0-based

MNext ==
  /\ k < MaxOps
  /\ k' = k + 1
  /\ \/ \E s \in {"B", "A"}, p \in Prices, v \in Vols :
          /\ PlaceLimit(s, p, v)
          /\ b' = BO!PlaceF(BO!CreateF(b, s, v, 0, p), BO!NextId(b))
     \/ \E s \in {"B", "A"}, v \in Vols :
          /\ PlaceMarket(s, v)
          /\ b' = BO!PlaceF(BO!CreateF(b, s, v, 0, BO!None), BO!NextId(b))
     \/ \E id \in 1..n :
          /\ Cancel(id)
          /\ b' = BO!CancelF(b, Bid0(id))
     \/ \E id \in 1..n, v \in Vols :
          /\ Reduce(id, v)
          /\ b' = BO!ModifyF(b, Bid0(id), BO!None, v)
     \/ \E id \in 1..n, p \in Prices, v \in Vols :
          /\ Replace(id, p, v)
          /\ b' = BO!ModifyF(b, Bid0(id), p, v)
     \* a volume that is not smaller, without a price: replaced at the current price
     \/ \E id \in 1..n, v \in Vols :
          /\ ord[id].status = "Active" /\ v >= ord[id].vol
          /\ Replace(id, ord[id].price, v)
          /\ b' = BO!ModifyF(b, Bid0(id), BO!None, v)
     \/ Disable /\ b' = BO!DisableF(b)
     \/ Enable /\ b' = BO!EnableF(b)

Agree ==
  /\ n = BO!NOrders(b)
  /\ \A id \in 1..n :
       LET o == BO!O(b, Bid0(id)) IN
       /\ ord[id].status = o.status
       /\ ord[id].side = o.side
       /\ ord[id].vol = o.vol
       /\ ord[id].mkt = BO!IsMkt(o)
       /\ ~ord[id].mkt => ord[id].price = o.price
  /\ qb = [i \in 1..Len(b.qb) |-> b.qb[i] + 1]
  /\ qa = [i \in 1..Len(b.qa) |-> b.qa[i] + 1]
  /\ trading = b.trading
  /\ everOff = b.everOff
  /\ nq = b.nq
  /\ \A id \in 1..n : ord[id].status = "Active" => ord[id].seq = b.qn[id]

\* the inductive invariant also holds on every reachable state of the bounded model
Inv_IndInv == IndInv
Inv_Agree == Agree
=============================================================================
