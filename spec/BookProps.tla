----------------------------- MODULE BookProps -----------------------------
(***************************************************************************)
(* Labels (one public call with its arguments), their meaning as a         *)
(* function from book to book, and the property clauses C01..C13 as named  *)
(* predicates over a book (state clauses) or over (old, new, label) (step  *)
(* clauses).  No variables: used by Book.tla (model checking, generation), *)
(* BookTrace.tla (validation of recorded traces), Market.tla and Env.tla.  *)
(***************************************************************************)
EXTENDS BookOps, TLC

\* ---- labels ---------------------------------------------------------------
\* [op |-> "create"|"cap", dt, side, vol, tr, price (None = market), ret]
\* [op |-> "place"|"cancel", dt, id]      [op |-> "modify", dt, id, p, v]
\* [op |-> "event", dt, k, id, p, v]      [op |-> "settime", t]
\* [op |-> "enable"|"disable"|"resettv"]  [op |-> "reload", mode]

HasDt(l) == "dt" \in DOMAIN l
PreOf(bk, l) == IF HasDt(l) THEN SetTimeF(bk, bk.now + l.dt) ELSE bk

ApplyLbl(bk, l) ==
  LET b0 == PreOf(bk, l) IN
  CASE l.op = "create"  -> CreateF(b0, l.side, l.vol, l.tr, l.price)
    [] l.op = "cap"     -> IF CreateOK(b0, l.price)
                           THEN PlaceF(CreateF(b0, l.side, l.vol, l.tr, l.price), NextId(b0))
                           ELSE b0
    [] l.op = "place"   -> PlaceF(b0, l.id)
    [] l.op = "cancel"  -> CancelF(b0, l.id)
    [] l.op = "modify"  -> ModifyF(b0, l.id, l.p, l.v)
    [] l.op = "event"   -> EventF(b0, [k |-> l.k, id |-> l.id, p |-> l.p, v |-> l.v])
    [] l.op = "settime" -> SetTimeF(b0, l.t)
    [] l.op = "enable"  -> EnableF(b0)
    [] l.op = "disable" -> DisableF(b0)
    [] l.op = "resettv" -> ResetTVolF(b0)
    [] l.op = "reload"  -> b0
    [] l.op = "bad"     -> b0     \* a call that raises before reaching the book (PyView)

\* the value a creation returns: the new id, or None when rejected
RetOf(bk, l) ==
  IF l.op \in {"create", "cap"}
  THEN (IF CreateOK(PreOf(bk, l), l.price) THEN NextId(bk) ELSE None)
  ELSE None

---------------------------------------------------------------------------
(* Clock discipline: no two orders currently queued on one side at one     *)
(* price carry the same enqueue time.  Used as a state CONSTRAINT.         *)

DisciplineOK(bk) ==
  \A s \in {"B", "A"} :
    \A i, j \in 1..Len(Q(bk, s)) :
      i < j =>
        LET x == Q(bk, s)[i]  y == Q(bk, s)[j] IN
        ~(O(bk, x).price = O(bk, y).price /\ bk.qt[x + 1] = bk.qt[y + 1])


---------------------------------------------------------------------------
(* Properties.  Each clause is a named definition so that a counterexample *)
(* names the clause.  State clauses take a book; step clauses take         *)
(* (old book, new book, label).                                            *)

StatusSet == {"New", "Active", "Filled", "Cancelled", "Rejected"}
Terminal  == {"Filled", "Cancelled", "Rejected"}

\* ---- C01 price-time priority ------------------------------------------
QueueMembers(bk, s) ==
  /\ SeqToSet(Q(bk, s)) = {i - 1 : i \in ActiveIds(bk.orders, s)}
  /\ Len(Q(bk, s)) = Cardinality(SeqToSet(Q(bk, s)))

C01_QueueSorted(bk) ==
  \A s \in {"B", "A"} :
    /\ QueueMembers(bk, s)
    /\ \A i \in 1..(Len(Q(bk, s)) - 1) :
         LET x == Q(bk, s)[i]  y == Q(bk, s)[i + 1] IN
         \/ Better(s, O(bk, x).price, O(bk, y).price)
         \/ O(bk, x).price = O(bk, y).price /\ bk.qn[x + 1] < bk.qn[y + 1]

\* the aggressor of a step, or None
Aggressor(old, lbl) ==
  CASE lbl.op = "place"  -> IF O(old, lbl.id).status = "New" THEN lbl.id ELSE None
    [] lbl.op = "cap"    -> lbl.ret
    [] lbl.op = "modify" -> IF ModKind(old, lbl.id, lbl.p, lbl.v) = "replace" THEN lbl.id ELSE None
    [] lbl.op = "event"  ->
         (CASE lbl.k = "new"    -> IF O(old, lbl.id).status = "New" THEN lbl.id ELSE None
            [] lbl.k = "modify" -> IF ModKind(old, lbl.id, lbl.p, lbl.v) = "replace" THEN lbl.id ELSE None
            [] OTHER -> None)
    [] OTHER -> None

NewTrades(old, new) == SubSeq(new.trades, Len(old.trades) + 1, Len(new.trades))

\* volume of passive order i consumed by the first k new trades
Consumed(T, i, k) == SumSeq([j \in 1..k |-> IF T[j].pas = i THEN T[j].vol ELSE 0])
TotalTraded(T, k) == SumSeq([j \in 1..k |-> T[j].vol])

\* Declarative restatement, from the pre-state and the appended trades only:
\* trade k takes the best-priced, earliest-queued opposite order that still
\* has volume, at its price, for min(remaining aggressor, remaining passive).
C01_TradesTakeHead(old, new, lbl) ==
  LET T   == NewTrades(old, new)
      a   == Aggressor(old, lbl)
  IN
  IF T = <<>> THEN TRUE
  ELSE
    /\ a # None
    /\ LET side  == O(new, a).side
           avol0 == TotalTraded(T, Len(T)) + O(new, a).vol    \* aggressor volume when matching began
           cand  == {i \in Ids(old) : /\ i # a
                                      /\ O(old, i).status = "Active"
                                      /\ O(old, i).side = Opp(side)}
       IN \A k \in 1..Len(T) :
            LET live == {i \in cand : O(old, i).vol - Consumed(T, i, k - 1) > 0}
                h    == T[k].pas
            IN
            /\ T[k].agg = a
            /\ h \in live
            /\ \A i \in live \ {h} :
                 \/ Better(Opp(side), O(old, h).price, O(old, i).price)
                 \/ O(old, h).price = O(old, i).price /\ old.qn[h + 1] < old.qn[i + 1]
            /\ T[k].price = O(old, h).price
            /\ T[k].side = Opp(side)
            /\ T[k].vol = MinOf(avol0 - TotalTraded(T, k - 1),
                                O(old, h).vol - Consumed(T, h, k - 1))
            /\ T[k].t = new.now

C01_Exhaustive(old, new, lbl) ==
  LET a == Aggressor(old, lbl) IN
  (a # None /\ old.trading) =>
    \/ O(new, a).vol = 0
    \/ \A i \in Ids(new) :
         (i # a /\ O(new, i).status = "Active" /\ O(new, i).side = Opp(O(new, a).side))
           => ~Admits(O(new, a).side, O(new, a).price, O(new, i).price)

C01_RestsLast(old, new, lbl) ==
  LET a == Aggressor(old, lbl) IN
  a # None =>
    LET o == O(new, a) IN
    /\ IsMkt(o) => o.status \in Terminal
    /\ o.status = "Active" =>
         \A i \in Ids(new) :
           (i # a /\ O(new, i).status = "Active" /\ O(new, i).side = o.side /\ O(new, i).price = o.price)
             => new.qn[i + 1] < new.qn[a + 1]

\* ---- C02 views ----------------------------------------------------------
C02_ViewsAgree(bk) == ViewsQ(bk) = ViewsO(bk.orders, bk.tick, bk.nlev)

C02_ViewsConsistent(bk) ==
  LET v == ViewsQ(bk) IN
  /\ v.blev[1] = v.bbest /\ v.alev[1] = v.abest
  /\ (v.bvol = 0) = (v.bid = 0 /\ v.bbest = <<0, 0>>)
  /\ (v.avol = 0) = (v.ask = MaxPrice /\ v.abest = <<0, 0>>)
  /\ v.bbest[1] <= v.bvol /\ v.abest[1] <= v.avol
  /\ v.mid2 = v.bid + v.ask

C02_NotCrossed(bk) ==
  (~bk.everOff /\ bk.qb # <<>> /\ bk.qa # <<>>) => BestBid(bk) < BestAsk(bk)

\* ---- C03 ledger ---------------------------------------------------------
C03_AppendOnly(old, new) == IsPrefix(old.trades, new.trades)

C03_WellFormed(bk) ==
  \A k \in 1..Len(bk.trades) :
    LET t == bk.trades[k]  ag == O(bk, t.agg)  pa == O(bk, t.pas) IN
    /\ t.vol > 0
    /\ t.agg # t.pas
    /\ ag.side = Opp(pa.side)
    /\ t.side = pa.side

\* execution order is time order as long as the clock is never moved backwards (the valid-history
\* assumption of C03; an environment whose batch exceeds its step size moves it back itself, C05)
C03_TimeOrdered(bk) ==
  \A k \in 2..Len(bk.trades) : bk.trades[k - 1].t <= bk.trades[k].t

\* both limits admit the trade price at the time of the trade: checked on the step
C03_NewTradesAdmitted(old, new) ==
  \A k \in (Len(old.trades) + 1)..Len(new.trades) :
    LET t == new.trades[k] IN
    /\ t.t = new.now
    /\ t.price = O(new, t.pas).price
    /\ Admits(O(new, t.agg).side, O(new, t.agg).price, t.price)

TradedOf(bk, i) ==
  SumSeq([k \in 1..Len(bk.trades) |->
            IF bk.trades[k].agg = i \/ bk.trades[k].pas = i THEN bk.trades[k].vol ELSE 0])

C03_Conservation(bk) ==
  \A i \in Ids(bk) : bk.given[i + 1] - O(bk, i).vol = TradedOf(bk, i)

C03_Counter(bk) ==
  bk.tvol = SumSeq([k \in 1..(Len(bk.trades) - bk.resetAt) |-> bk.trades[bk.resetAt + k].vol])

\* ---- C04 lifecycle -------------------------------------------------------
AllowedTransition(o1, o2) ==
  \/ o1.status = o2.status
  \/ o1.status = "New" /\ ~IsMkt(o1) /\ o2.status \in {"Active", "Filled"}
  \/ o1.status = "New" /\ IsMkt(o1) /\ o2.status \in {"Filled", "Cancelled", "Rejected"}
  \/ o1.status = "Active" /\ o2.status \in {"Filled", "Cancelled"}

C04_Transitions(old, new) ==
  /\ IsPrefix([i \in 1..Len(old.orders) |-> <<old.orders[i].side, old.orders[i].trader>>],
              [i \in 1..Len(new.orders) |-> <<new.orders[i].side, new.orders[i].trader>>])
  /\ \A i \in Ids(old) :
       LET o1 == O(old, i)  o2 == O(new, i) IN
       /\ AllowedTransition(o1, o2)
       /\ o1.status \in Terminal => o2 = o1
       /\ o1.status = "New" /\ o2.status # "New" => o2.arr = new.now
       /\ o1.status = "New" /\ o2.status = "New" => o2 = o1
       /\ o1.status # "New" => o2.arr = o1.arr
       /\ o2.start = o1.start
       /\ (o1.status \notin Terminal /\ o2.status \in Terminal) => o2.end = new.now
       /\ o2.status \notin Terminal => o2.end = None

C04_State(bk) ==
  \A i \in Ids(bk) :
    LET o == O(bk, i) IN
    /\ o.status \in StatusSet
    /\ (o.status \in Terminal) = (o.end # None)
    /\ o.status = "Filled" => o.vol = 0
    /\ o.status = "Active" => o.vol > 0
    /\ o.status = "Rejected" => IsMkt(o) /\ o.vol = o.start

\* projection with the clock removed
NoClock(bk) == [Proj(bk) EXCEPT !.now = 0]

Redundant(old, lbl) ==
  CASE lbl.op = "place"   -> O(old, lbl.id).status # "New"
    [] lbl.op = "cancel"  -> O(old, lbl.id).status # "Active"
    [] lbl.op = "modify"  -> ModKind(old, lbl.id, lbl.p, lbl.v) = "noop"
    [] lbl.op = "event"   ->
         (CASE lbl.k = "new"    -> O(old, lbl.id).status # "New"
            [] lbl.k = "cancel" -> O(old, lbl.id).status # "Active"
            [] lbl.k = "modify" -> ModKind(old, lbl.id, lbl.p, lbl.v) = "noop")
    [] lbl.op = "settime" -> TRUE
    [] lbl.op = "reload"  -> TRUE
    [] lbl.op = "bad"     -> TRUE
    [] OTHER -> FALSE

C04_NoOps(old, new, lbl) == Redundant(old, lbl) => NoClock(new) = NoClock(old)

\* ---- C06 modification ----------------------------------------------------
IsModify(lbl) == lbl.op = "modify" \/ (lbl.op = "event" /\ lbl.k = "modify")

C06_Modify(old, new, lbl) ==
  IsModify(lbl) =>
    LET id == lbl.id
        old1 == SetTimeF(old, new.now)
        k  == ModKind(old1, id, lbl.p, lbl.v)
        o1 == O(old, id)  o2 == O(new, id)
    IN
    /\ k = "reduce" =>
         /\ o2 = [o1 EXCEPT !.vol = lbl.v]
         /\ new.qb = old.qb /\ new.qa = old.qa
         /\ new.trades = old.trades
         /\ \A i \in Ids(old) \ {id} : O(new, i) = O(old, i)
    /\ k = "replace" =>
         /\ o2.side = o1.side /\ o2.trader = o1.trader /\ o2.arr = o1.arr /\ o2.start = o1.start
         /\ o2.price = (IF lbl.p = None THEN o1.price ELSE lbl.p)
         /\ o2.status \in {"Active", "Filled"}
         /\ o2.status = "Active" => new.qt[id + 1] = new.now /\ new.qn[id + 1] = new.nq
         /\ LET v == IF lbl.v = None THEN o1.vol ELSE lbl.v IN
            o2.vol = v - TotalTraded(NewTrades(old, new), Len(NewTrades(old, new)))

\* ---- C12 tick grid -------------------------------------------------------
C12_OnGrid(bk) ==
  \A i \in Ids(bk) : ~IsMkt(O(bk, i)) => OnGrid(bk, O(bk, i).price)

C12_RejectedCreate(old, new, lbl) ==
  (lbl.op \in {"create", "cap"} /\ lbl.ret = None) => NoClock(new) = NoClock(old)

C12_LevelsAccount(bk) ==
  \A s \in {"B", "A"} :
    LET lev == LevelsQ(bk, s)
        inrange == {i \in ActiveIds(bk.orders, s) :
                      \E k \in 0..(bk.nlev - 1) :
                        bk.orders[i].price = (IF s = "B" THEN BestBid(bk) - k * bk.tick
                                                          ELSE BestAsk(bk) + k * bk.tick)}
    IN /\ SumSeq([k \in 1..bk.nlev |-> lev[k][1]]) = SumOver(inrange, VolsO(bk.orders))
       /\ SumSeq([k \in 1..bk.nlev |-> lev[k][2]]) = Cardinality(inrange)

\* ---- C13 trading disabled -------------------------------------------------
C13_NoTradesWhileOff(old, new, lbl) ==
  (~old.trading /\ lbl.op # "enable") => new.trades = old.trades

C13_MarketRejected(old, new, lbl) ==
  LET a == Aggressor(old, lbl) IN
  (a # None /\ ~old.trading /\ IsMkt(O(new, a)) /\ ~IsModify(lbl)) =>
     /\ O(new, a).status = "Rejected"
     /\ new.qb = old.qb /\ new.qa = old.qa /\ new.trades = old.trades

C13_ToggleStutters(old, new, lbl) ==
  lbl.op \in {"enable", "disable"} =>
     [Proj(new) EXCEPT !.trading = TRUE] = [Proj(old) EXCEPT !.trading = TRUE]

---------------------------------------------------------------------------
StateOK(bk) ==
  /\ C01_QueueSorted(bk)
  /\ C02_ViewsAgree(bk) /\ C02_ViewsConsistent(bk) /\ C02_NotCrossed(bk)
  /\ C03_WellFormed(bk) /\ C03_Conservation(bk) /\ C03_Counter(bk)
  /\ C04_State(bk)
  /\ C12_OnGrid(bk) /\ C12_LevelsAccount(bk)

StepOK(old, new, lbl) ==
  /\ C01_TradesTakeHead(old, new, lbl) /\ C01_Exhaustive(old, new, lbl) /\ C01_RestsLast(old, new, lbl)
  /\ C03_AppendOnly(old, new) /\ C03_NewTradesAdmitted(old, new)
  /\ C04_Transitions(old, new) /\ C04_NoOps(old, new, lbl)
  /\ C06_Modify(old, new, lbl)
  /\ C12_RejectedCreate(old, new, lbl)
  /\ C13_NoTradesWhileOff(old, new, lbl) /\ C13_MarketRejected(old, new, lbl)
  /\ C13_ToggleStutters(old, new, lbl)

=============================================================================
