------------------------------- MODULE PyView -------------------------------
(***************************************************************************)
(* What the Python layer (bourse.core.OrderBook, StepEnv, StepEnvNumpy and *)
(* bourse.data_processing) must show for a given abstract state: C18, C19. *)
(* Pure definitions over the BookOps / MarketOps records; the documented   *)
(* encodings (True = bid, status codes 0..4), the documented index tables  *)
(* of the observation arrays, the documented key set of the market-data    *)
(* dictionary and the documented data-frame columns are written down here  *)
(* once, and TLC evaluates them both when it generates expected values     *)
(* (PyBookGen / PyEnvGen) and when it validates recorded traces (PyTrace). *)
(***************************************************************************)
EXTENDS MarketOps

\* ---- encodings ------------------------------------------------------------
IsBid(s) == s = "B"
StatusCode(s) ==
  CASE s = "New" -> 0 [] s = "Active" -> 1 [] s = "Filled" -> 2
    [] s = "Cancelled" -> 3 [] s = "Rejected" -> 4
StatusName(s) ==
  CASE s = "New" -> "new" [] s = "Active" -> "active" [] s = "Filled" -> "filled"
    [] s = "Cancelled" -> "cancelled" [] s = "Rejected" -> "rejected"
SideName(s) == IF s = "B" THEN "bid" ELSE "ask"

\* (side, status, arr_time, end_time, vol, start_vol, price, trader_id, order_id)
PyOrder(o, id) == <<IsBid(o.side), StatusCode(o.status), o.arr, o.end, o.vol, o.start, o.price, o.trader, id>>
\* (time, side, price, vol, active_id, passive_id)
PyTrade(t) == <<t.t, IsBid(t.side), t.price, t.vol, t.agg, t.pas>>

PyOrders(bk) == [i \in 1..Len(bk.orders) |-> PyOrder(bk.orders[i], i - 1)]
PyTrades(bk) == [i \in 1..Len(bk.trades) |-> PyTrade(bk.trades[i])]
PyStatuses(bk) == [i \in 1..Len(bk.orders) |-> StatusCode(bk.orders[i].status)]

\* ---- data-frame helpers (bourse.data_processing) ----------------------------
OrderColumns == <<"side", "status", "arr_time", "end_time", "vol", "start_vol", "price", "trader_id", "order_id">>
TradeColumns == <<"time", "side", "price", "vol", "active_id", "passive_id">>

OrderFrameOf(orders) ==
  LET n == Len(orders)
      col(F(_, _)) == [i \in 1..n |-> F(orders[i], i - 1)]
  IN [ columns |-> OrderColumns,
       data |-> [ side      |-> col(LAMBDA o, id : SideName(o.side)),
                  status    |-> col(LAMBDA o, id : StatusName(o.status)),
                  arr_time  |-> col(LAMBDA o, id : o.arr),
                  end_time  |-> col(LAMBDA o, id : o.end),
                  vol       |-> col(LAMBDA o, id : o.vol),
                  start_vol |-> col(LAMBDA o, id : o.start),
                  price     |-> col(LAMBDA o, id : o.price),
                  trader_id |-> col(LAMBDA o, id : o.trader),
                  order_id  |-> col(LAMBDA o, id : id) ] ]

OrderFrame(bk) == OrderFrameOf(bk.orders)

TradeFrameOf(trades) ==
  LET n == Len(trades)
      col(F(_)) == [i \in 1..n |-> F(trades[i])]
  IN [ columns |-> TradeColumns,
       data |-> [ time       |-> col(LAMBDA t : t.t),
                  side       |-> col(LAMBDA t : SideName(t.side)),
                  price      |-> col(LAMBDA t : t.price),
                  vol        |-> col(LAMBDA t : t.vol),
                  active_id  |-> col(LAMBDA t : t.agg),
                  passive_id |-> col(LAMBDA t : t.pas) ] ]

TradeFrame(bk) == TradeFrameOf(bk.trades)

\* decoding of the Python tuples (trace validation reads what Python reported)
StatusOfCode(c) ==
  CASE c = 0 -> "New" [] c = 1 -> "Active" [] c = 2 -> "Filled" [] c = 3 -> "Cancelled" [] c = 4 -> "Rejected"
FromPyOrder(t) ==
  [side |-> IF t[1] THEN "B" ELSE "A", status |-> StatusOfCode(t[2]), arr |-> t[3], end |-> t[4],
   vol |-> t[5], start |-> t[6], price |-> t[7], trader |-> t[8]]
FromPyTrade(t) == [t |-> t[1], side |-> IF t[2] THEN "B" ELSE "A", price |-> t[3], vol |-> t[4], agg |-> t[5], pas |-> t[6]]

\* ---- bourse.core.OrderBook --------------------------------------------------
\* the scalar getters (all read the live book)
PyBookScalars(bk) ==
  [ bid_ask |-> <<BestBid(bk), BestAsk(bk)>>,
    bid_vol |-> SideVol(bk, "B"), ask_vol |-> SideVol(bk, "A"),
    best_bid_vol |-> BestVolOrders(bk, "B")[1], best_ask_vol |-> BestVolOrders(bk, "A")[1],
    best_bid_vol_and_orders |-> BestVolOrders(bk, "B"),
    best_ask_vol_and_orders |-> BestVolOrders(bk, "A") ]

PyBook(bk) ==
  [ scalars |-> PyBookScalars(bk),
    statuses |-> PyStatuses(bk),           \* order_status(id) for every id
    orders |-> PyOrders(bk), trades |-> PyTrades(bk),
    order_frame |-> OrderFrame(bk), trade_frame |-> TradeFrame(bk) ]

\* exception a call must raise ("none" = returns normally); the state is unchanged in both cases
PyExc(bk, lbl) ==
  IF lbl.op = "bad" THEN "OverflowError"
  ELSE IF lbl.op \in {"create", "cap"} /\ RetOf(bk, lbl) = None THEN "ValueError"
  ELSE "none"

\* the same from a label that already carries its return value (generator paths)
PyExcOfLabel(l) ==
  IF l.op = "bad" THEN "OverflowError"
  ELSE IF l.op \in {"create", "cap", "submit"} /\ "ret" \in DOMAIN l /\ l.ret = None THEN "ValueError"
  ELSE "none"

\* ---- observation arrays (StepEnv.level_1_data_array / level_2_data_array,    *)
\*      StepEnvNumpy.level_1_data / level_2_data): the documented index tables  *)
\* l2 = <<bid, ask, bid vol, ask vol, bid levels, ask levels>> (the level-2 record the
\* environment hands out), tv = traded volume of the current / last step
L1Array(l2, tv) ==
  << tv,            \* 0  trade volume
     l2[1],         \* 1  bid touch price
     l2[2],         \* 2  ask touch price
     l2[3],         \* 3  bid total volume
     l2[4],         \* 4  ask total volume
     l2[5][1][1],   \* 5  bid touch volume
     l2[5][1][2],   \* 6  number of bid touch orders
     l2[6][1][1],   \* 7  ask touch volume
     l2[6][1][2] >> \* 8  number of ask touch orders

RECURSIVE LevelBlocks(_, _, _)
LevelBlocks(l2, i, n) ==
  IF i > n THEN <<>>
  ELSE << l2[5][i][1],    \* bid volume at level i - 1
          l2[5][i][2],    \* number of bid orders at level i - 1
          l2[6][i][1],    \* ask volume at level i - 1
          l2[6][i][2] >>  \* number of ask orders at level i - 1
       \o LevelBlocks(l2, i + 1, n)

L2Array(l2, tv) == <<tv, l2[1], l2[2], l2[3], l2[4]>> \o LevelBlocks(l2, 1, 10)

\* ---- market-data dictionary ----------------------------------------------------
LevelKeys(prefix) == {prefix \o ToString(i) : i \in 0..9}
DictKeys == {"bid_price", "ask_price", "bid_vol", "ask_vol", "trade_vol"}
            \cup LevelKeys("bid_vol_") \cup LevelKeys("ask_vol_") \cup LevelKeys("n_bid_") \cup LevelKeys("n_ask_")

\* the value the series named k holds for one step whose closing level-2 record is l2 and
\* whose traded volume is tv
DictEntry(k, l2, tv) ==
  CASE k = "bid_price" -> l2[1]
    [] k = "ask_price" -> l2[2]
    [] k = "bid_vol"   -> l2[3]
    [] k = "ask_vol"   -> l2[4]
    [] k = "trade_vol" -> tv
    [] OTHER ->
       LET i == CHOOSE j \in 0..9 : k \in {"bid_vol_" \o ToString(j), "ask_vol_" \o ToString(j),
                                           "n_bid_" \o ToString(j), "n_ask_" \o ToString(j)}
       IN CASE k = "bid_vol_" \o ToString(i) -> l2[5][i + 1][1]
            [] k = "ask_vol_" \o ToString(i) -> l2[6][i + 1][1]
            [] k = "n_bid_" \o ToString(i)   -> l2[5][i + 1][2]
            [] k = "n_ask_" \o ToString(i)   -> l2[6][i + 1][2]

\* recs: one closing level-2 record per step; tvs: traded volume per step
MarketDataDict(recs, tvs) ==
  [k \in DictKeys |-> [j \in 1..Len(recs) |-> DictEntry(k, recs[j], tvs[j])]]

\* ---- bourse.core.StepEnv (single asset, 10 published levels) -------------------
\* Getters that read the level-2 record cached at the end of the last step vs. the live book
PyEnv(m) ==
  LET bk == m.books[1]  l2 == m.l2[1]  r == RecViews(m, 1) IN
  [ time |-> bk.now,
    bid_ask |-> <<l2[1], l2[2]>>,
    bid_vol |-> l2[3], ask_vol |-> l2[4],
    best_bid_vol |-> l2[5][1][1], best_ask_vol |-> l2[6][1][1],
    best_bid_vol_and_orders |-> l2[5][1], best_ask_vol_and_orders |-> l2[6][1],
    trade_vol |-> bk.tvol,
    statuses |-> PyStatuses(bk),
    orders |-> PyOrders(bk), trades |-> PyTrades(bk),
    prices |-> r.prices, volumes |-> r.volumes,
    touch_volumes |-> r.touch_vols, touch_order_counts |-> r.touch_counts,
    trade_volumes |-> m.tvols[1],
    l1_array |-> L1Array(l2, bk.tvol),
    l2_array |-> L2Array(l2, bk.tvol),
    market_data |-> MarketDataDict(m.rec[1], m.tvols[1]),
    order_frame |-> OrderFrame(bk), trade_frame |-> TradeFrame(bk) ]

=============================================================================
