----------------------------- MODULE BookImplMC -----------------------------
(***************************************************************************)
(* Refinement check: the implementation-shaped model (BookImpl.tla) and    *)
(* the reference engine (BookOps.tla) are driven in lock-step by the same  *)
(* calls; after every call the implementation state must stand for the     *)
(* reference state (same orders, trades, queue order, every view computed  *)
(* from the incremental structures) and its three structures must agree.   *)
(*  FixTies = TRUE,  Discipline = FALSE : holds (ties allowed)             *)
(*  FixTies = FALSE, Discipline = TRUE  : holds (the documented usage)     *)
(*  FixTies = FALSE, Discipline = FALSE : TLC finds finding F1 as a design *)
(*                                        counterexample (used as a        *)
(*                                        self-test of this check)         *)
(***************************************************************************)
EXTENDS BookImpl

CONSTANTS Tick, NLevels, Trading0, Ops, Dts, Sides, Kinds, Prices, Vols, Traders, ModPrices, ModVols, VolCap,
          MaxOrders, MaxOps, Discipline

VARIABLES ib, ab, last, n
vars == <<ib, ab, last, n>>

Init ==
  /\ ib = NewImpl(0, Tick, Trading0, NLevels)
  /\ ab = NewBook(0, Tick, Trading0, NLevels)
  /\ last = [op |-> "init"]
  /\ n = 0

ModVolOf(o, mv) ==
  CASE mv = "none" -> None [] mv = "smaller" -> o.vol - 1 [] mv = "equal" -> o.vol [] mv = "larger" -> o.vol + 1

Do(lbl) ==
  /\ lbl.op \in Ops
  /\ n < MaxOps
  /\ ib' = IApply(ib, lbl)
  /\ ab' = ApplyLbl(ab, lbl)
  /\ last' = lbl
  /\ n' = n + 1

NewOrder(op) ==
  \E dt \in Dts, s \in Sides, k \in Kinds, v \in Vols, tr \in Traders :
    \E p \in (IF k = "L" THEN Prices ELSE {None}) :
      /\ NOrders(ab) < MaxOrders
      /\ Do([op |-> op, dt |-> dt, side |-> s, vol |-> v, tr |-> tr, price |-> p,
             ret |-> RetOf(ab, [op |-> op, dt |-> dt, price |-> p])])

OnId(op) == \E dt \in Dts, id \in Ids(ab) : Do([op |-> op, dt |-> dt, id |-> id])

Modify ==
  \E dt \in Dts, id \in Ids(ab), np \in ModPrices, mv \in ModVols :
    LET nv == ModVolOf(O(ab, id), mv) IN
    /\ nv = None \/ nv >= 1
    /\ Do([op |-> "modify", dt |-> dt, id |-> id, p |-> np, v |-> nv])

Next ==
  \/ NewOrder("create") \/ NewOrder("cap") \/ OnId("place") \/ OnId("cancel") \/ Modify
  \/ Do([op |-> "enable"]) \/ Do([op |-> "disable"]) \/ Do([op |-> "resettv"])
  \/ Do([op |-> "settime", t |-> ab.now + 1])
  \/ Do([op |-> "reload", mode |-> "sc"])

Spec == Init /\ [][Next]_vars

Constr == Discipline => DisciplineOK(ab)

Inv_Refines == Constr => Matches(ib, ab)
Inv_ImplConsistent == Constr => ImplConsistent(ib)
\* the key time is never before the order's last enqueue and (repaired code) keys at one price are distinct
Inv_Keys ==
  Constr => \A id \in IIds(ib) :
              E(ib, id).order.status = "Active" => E(ib, id).key[2] >= ab.qt[id + 1] /\ E(ib, id).key[1] = Pk(E(ib, id).order.side, E(ib, id).order.price)
=============================================================================
