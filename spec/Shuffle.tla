------------------------------- MODULE Shuffle -------------------------------
(***************************************************************************)
(* C15.  (i) Design half: a draw-driven Fisher-Yates shuffle maps draw     *)
(* vectors to permutations bijectively, so with uniform independent draws  *)
(* every permutation has probability exactly 1/n!, every item is at every  *)
(* position with probability 1/n and every pair is in either order with    *)
(* probability 1/2.  TLC establishes the bijection for n <= NMax by         *)
(* enumeration.                                                             *)
(* (ii) Acceptance predicate for histograms recorded from the real         *)
(* environment step (harness/src/bin/shuffle_stats.rs): every cell must    *)
(* lie within the Bernstein bound around its exact expectation, with a     *)
(* union bound over all K cells of the run:                                *)
(*   P(|c - N/m| >= d) <= 2 exp(-d^2 / (2 (N (m-1)/m^2 + d/3)))            *)
(* so a deviation d is rejected iff  3 m d^2 > 2 L (3 E (m-1) + m d)       *)
(* with E = N/m (N is chosen divisible by m) and L >= ln(2K / delta).       *)
(* (iii) Deterministic clauses: same generator state and batch size give   *)
(* the same index permutation whatever the instructions are.               *)
(***************************************************************************)
EXTENDS Integers, Sequences, FiniteSets, Json, IOUtils, TLC

CONSTANTS NMax,   \* bijection checked for n = 1..NMax
          L       \* integer >= ln(2K/delta), supplied by the orchestrator from the cell count K

\* ---- (i) Fisher-Yates ---------------------------------------------------------
\* draws[i] \in 0..i  for i = n-1 down to 1 (the last position swaps with a uniformly chosen earlier-or-equal one)
Swap(s, i, j) == [s EXCEPT ![i] = s[j], ![j] = s[i]]

RECURSIVE FY(_, _, _)
FY(s, d, i) == IF i < 2 THEN s ELSE FY(Swap(s, i, d[i] + 1), d, i - 1)

DrawVectors(n) == {d \in [1..n -> 0..(n - 1)] : \A i \in 1..n : d[i] < i}
Identity(n) == [i \in 1..n |-> i]
Outcomes(n) == {FY(Identity(n), d, n) : d \in DrawVectors(n)}
Fact(n) == IF n <= 1 THEN 1 ELSE LET RECURSIVE F(_) F(k) == IF k <= 1 THEN 1 ELSE k * F(k - 1) IN F(n)

IsPerm(p, n) == Len(p) = n /\ {p[i] : i \in 1..n} = 1..n

Bijection ==
  \A n \in 1..NMax :
    /\ Cardinality(DrawVectors(n)) = Fact(n)
    /\ Cardinality(Outcomes(n)) = Fact(n)                 \* injective: n! draw vectors give n! distinct results
    /\ \A p \in Outcomes(n) : IsPerm(p, n)

\* ---- (ii) histograms ------------------------------------------------------------
Tables == ndJsonDeserialize(IOEnv.TRACE)

Abs(x) == IF x < 0 THEN -x ELSE x
\* cell count c, N trials, m equally likely alternatives
\* (TLC integers are 32-bit: a grossly biased cell would overflow the products below, so a deviation that
\* violates the bound by a wide margin - 3 d^2 > 2 L (3 E + d), which implies the exact inequality fails - is
\* rejected first, by a comparison that needs no large product.)
Within(c, N, m) ==
  LET E == N \div m  d == Abs(c - E) IN
  /\ N % m = 0
  /\ \/ d = 0
     \/ /\ 3 * d <= ((2 * L * (3 * E + d)) \div d) + 1
        /\ 3 * m * d * d <= 2 * L * (3 * E * (m - 1) + m * d)

\* the same bound when N / m need not be an integer: the deviation is measured from the nearer of the two integers around
\* the expectation (so it is under-estimated) and the right-hand side uses the larger expectation and d + 1 (so it is
\* over-estimated) - the cell is rejected only if the exact inequality certainly fails
WithinQ(c, N, m) ==
  LET Elo == N \div m  Ehi == (N + m - 1) \div m
      d == IF c > Ehi THEN c - Ehi ELSE IF c < Elo THEN Elo - c ELSE 0
  IN \/ d = 0
     \/ /\ 3 * d <= ((2 * L * (3 * Ehi + d + 1)) \div d) + 1
        /\ 3 * m * d * d <= 2 * L * (3 * Ehi * (m - 1) + m * (d + 1))

SumSeq(s) == LET RECURSIVE S(_) S(k) == IF k = 0 THEN 0 ELSE s[k] + S(k - 1) IN S(Len(s))

PermTableOK(t) ==
  LET n == t.n  C == t.counts IN
  /\ \A i \in 1..Len(C) : IsPerm([k \in 1..n |-> C[i][1][k] + 1], n)
  /\ \A i, j \in 1..Len(C) : i # j => C[i][1] # C[j][1]
  /\ SumSeq([i \in 1..Len(C) |-> C[i][2]]) = t.N
  /\ Len(C) <= Fact(n)
  \* every permutation within the bound (absent permutations have count 0)
  /\ \A i \in 1..Len(C) : Within(C[i][2], t.N, Fact(n))
  /\ Len(C) < Fact(n) => Within(0, t.N, Fact(n))

PosTableOK(t) ==
  LET n == t.n  C == t.counts IN      \* C[item][position]
  /\ Len(C) = n
  /\ \A i \in 1..n : Len(C[i]) = n /\ SumSeq(C[i]) = t.N
  /\ \A j \in 1..n : SumSeq([i \in 1..n |-> C[i][j]]) = t.N
  /\ \A i, j \in 1..n : Within(C[i][j], t.N, n)

PairTableOK(t) ==
  LET n == t.n  C == t.counts IN      \* C[i][j] = number of runs in which item i was processed before item j
  /\ \A i, j \in 1..n : i < j => (C[i][j] + C[j][i] = t.N /\ Within(C[i][j], t.N, 2))
  \* a uniformly distributed permutation of n >= 2 items is even with probability exactly 1/2 (the alternating group has
  \* index 2), whatever algorithm drew it: a statistic of the permutation as a whole, not of its one- or two-item marginals
  /\ ("even" \in DOMAIN t /\ n >= 2) => Within(t.even, t.N, 2)

\* every digit of three standard bijective codes of the permutation (Fisher-Yates swap indices running down, running up,
\* Lehmer code) is uniform on its range 0..i under a uniformly distributed permutation, whatever algorithm drew it
CodeTableOK(t) ==
  LET n == t.n  H == t.counts IN      \* H[code][digit index i + 1][value + 1], i = 0..n-1
  /\ Len(H) = 3
  /\ \A k \in 1..3 : Len(H[k]) = n /\ \A i \in 2..n : Len(H[k][i]) = i /\ SumSeq(H[k][i]) = t.N
  /\ \A k \in 1..3 : \A i \in 2..n : \A v \in 1..i : WithinQ(H[k][i][v], t.N, i)

\* ---- (iii) determinism in the generator state only --------------------------------
DetOK(t) ==
  /\ IsPerm([k \in 1..t.n |-> t.perm_a[k] + 1], t.n)
  /\ t.perm_a = t.perm_a2          \* same state twice
  /\ t.perm_a = t.perm_b           \* other instructions, other submission order, same size

\* the same with batches that refer to orders created in the same step and with environments that
\* have a history (earlier steps of the same / another batch size): all index permutations equal
Det2OK(t) ==
  /\ \A k \in 1..Len(t.perms) : IsPerm([i \in 1..t.n |-> t.perms[k][i] + 1], t.n)
  /\ \A k \in 1..Len(t.perms) : t.perms[k] = t.perms[1]

TableOK(t) ==
  CASE t.kind = "perm" -> PermTableOK(t)
    [] t.kind = "det2" -> Det2OK(t)
    [] t.kind = "pos"  -> PosTableOK(t)
    [] t.kind = "pair" -> PairTableOK(t)
    [] t.kind = "code" -> CodeTableOK(t)
    [] t.kind = "det"  -> DetOK(t)

BadTables == {i \in 1..Len(Tables) : ~TableOK(Tables[i])}

VARIABLE done
Init == done = FALSE
Next == done = FALSE /\ done' = TRUE
Spec == Init /\ [][Next]_done

StatOK ==
  done =>
    IF BadTables = {} THEN PrintT(<<"ACCEPTED", Len(Tables)>>)
    ELSE PrintT(<<"TRACE-REJECT", ToJson([at |-> CHOOSE i \in BadTables : \A j \in BadTables : i <= j,
                                         why |-> "HISTOGRAM",
                                         event |-> [kind |-> Tables[CHOOSE i \in BadTables : \A j \in BadTables : i <= j].kind,
                                                    n |-> Tables[CHOOSE i \in BadTables : \A j \in BadTables : i <= j].n,
                                                    env |-> Tables[CHOOSE i \in BadTables : \A j \in BadTables : i <= j].env,
                                                    detail |-> LET t == Tables[CHOOSE i \in BadTables : \A j \in BadTables : i <= j] IN
                                                               IF t.kind = "det2"
                                                               THEN [seed |-> t.seed, differs |-> {t.labels[k] : k \in {k \in 1..Len(t.perms) : t.perms[k] # t.perms[1]}}]
                                                               ELSE IF t.kind = "det" THEN [seed |-> t.seed, differs |-> {}] ELSE [seed |-> "-", differs |-> {}]],
                                         bad_tables |-> Cardinality(BadTables)])>>) /\ FALSE
BijectionOK == Bijection
=============================================================================
