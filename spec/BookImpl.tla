------------------------------ MODULE BookImpl ------------------------------
(***************************************************************************)
(* An implementation-shaped model of bourse_book::OrderBook, structured    *)
(* like the code (crates/order_book/src/{orderbook,side}.rs) rather than   *)
(* like the reference engine of BookOps.tla:                               *)
(*  - every order entry carries the KEY (side, price key, key time) under   *)
(*    which it was inserted into its side;                                  *)
(*  - each side keeps the three incrementally maintained structures of      *)
(*    OrderBookSide: the priority map (price key, key time) -> order id,    *)
(*    the per-price (volume, order count) map and the total volume;         *)
(*  - bids are keyed by MaxPrice - price so that the smallest key is best;  *)
(*  - matching is the loop of match_bid / match_ask over best_order_idx;    *)
(*  - a panic of the code (unwrap on a missing price level, unsigned        *)
(*    underflow) is the flag `panic`.                                       *)
(* Deliberate deviations of the CODE from the reference are modelled as     *)
(* the code has them (and named): modify_order accepts any price           *)
(* (finding F3); with FixTies = FALSE the key time is the clock time, as    *)
(* before the repair of finding F1.                                        *)
(*                                                                         *)
(* BookImplMC.tla checks with TLC that this model refines BookOps.tla      *)
(* (same orders, trades, queue order and every view after every call);     *)
(* ImplTrace.tla binds it to the real code through the keys the JSON       *)
(* snapshot exposes.                                                       *)
(***************************************************************************)
EXTENDS BookProps

CONSTANT FixTies    \* TRUE: key time = max(clock, last key time at that price + 1) (repaired code)

\* ---- one side -----------------------------------------------------------------
EmptySide == [vol |-> 0, volumes |-> <<>>, omap |-> <<>>]    \* <<>> = the empty function

Pk(side, price) == IF side = "B" THEN MaxPrice - price ELSE price
PriceOfPk(side, pk) == IF side = "B" THEN MaxPrice - pk ELSE pk

KeyLe(k, j) == k[1] < j[1] \/ (k[1] = j[1] /\ k[2] <= j[2])
MinKey(D) == CHOOSE k \in D : \A j \in D : KeyLe(k, j)
MinNat(D) == CHOOSE k \in D : \A j \in D : k <= j

Drop(f, k) == [x \in DOMAIN f \ {k} |-> f[x]]
Put(f, k, v) == [x \in DOMAIN f \cup {k} |-> IF x = k THEN v ELSE f[x]]

\* insert_order: BTreeMap::insert OVERWRITES an existing key
SideInsert(sd, key, id, vol) ==
  [ vol |-> sd.vol + vol,
    volumes |-> IF key[1] \in DOMAIN sd.volumes
                THEN Put(sd.volumes, key[1], <<sd.volumes[key[1]][1] + vol, sd.volumes[key[1]][2] + 1>>)
                ELSE Put(sd.volumes, key[1], <<vol, 1>>),
    omap |-> Put(sd.omap, key, id) ]

\* remove_order: [side', panicked]
SideRemove(sd, key, vol) ==
  IF key[1] \notin DOMAIN sd.volumes \/ sd.volumes[key[1]][1] < vol \/ sd.vol < vol
  THEN <<sd, TRUE>>                                  \* unwrap on None / unsigned underflow
  ELSE LET v == sd.volumes[key[1]]
           nv == <<v[1] - vol, v[2] - 1>>
       IN << [ vol |-> sd.vol - vol,
               volumes |-> IF nv[2] = 0 THEN Drop(sd.volumes, key[1]) ELSE Put(sd.volumes, key[1], nv),
               omap |-> Drop(sd.omap, key) ], FALSE >>

\* remove_vol
SideRemoveVol(sd, pk, vol) ==
  IF pk \notin DOMAIN sd.volumes \/ sd.volumes[pk][1] < vol \/ sd.vol < vol
  THEN <<sd, TRUE>>
  ELSE << [sd EXCEPT !.vol = @ - vol, !.volumes = Put(@, pk, <<sd.volumes[pk][1] - vol, sd.volumes[pk][2]>>)], FALSE >>

SideBestPk(sd) == IF DOMAIN sd.omap = {} THEN MaxPrice ELSE MinKey(DOMAIN sd.omap)[1]
SideBestIdx(sd) == IF DOMAIN sd.omap = {} THEN None ELSE sd.omap[MinKey(DOMAIN sd.omap)]
SideBestVolOrders(sd) == IF DOMAIN sd.volumes = {} THEN <<0, 0>> ELSE sd.volumes[MinNat(DOMAIN sd.volumes)]
SideAtPk(sd, pk) == IF pk \in DOMAIN sd.volumes THEN sd.volumes[pk] ELSE <<0, 0>>

\* next_key_time
NextKeyTime(sd, pk, t) ==
  IF ~FixTies THEN t
  ELSE LET T == {k[2] : k \in {k \in DOMAIN sd.omap : k[1] = pk}} IN
       IF T = {} THEN t
       ELSE LET last == CHOOSE x \in T : \A y \in T : y <= x IN
            IF last >= t THEN last + 1 ELSE t

\* ---- the book -------------------------------------------------------------------
NewImpl(t0, tick, trading, nlev) ==
  [ now |-> t0, nlev |-> nlev, tick |-> tick, trading |-> trading, tvol |-> 0,
    entries |-> <<>>,          \* [order |-> BookOps order record, key |-> <<price key, key time>>]
    trades |-> <<>>, bid |-> EmptySide, ask |-> EmptySide, panic |-> FALSE ]

ISide(ib, s) == IF s = "B" THEN ib.bid ELSE ib.ask
ISetSide(ib, s, sd) == IF s = "B" THEN [ib EXCEPT !.bid = sd] ELSE [ib EXCEPT !.ask = sd]
E(ib, id) == ib.entries[id + 1]
IIds(ib) == 0..(Len(ib.entries) - 1)

\* touch prices as the getters compute them
IBestBid(ib) == MaxPrice - SideBestPk(ib.bid)
IBestAsk(ib) == SideBestPk(ib.ask)

ICreate(ib, side, vol, trader, price) ==
  IF price # None /\ ~OnGrid(ib, price) THEN ib
  ELSE
    LET p == IF price # None THEN price ELSE IF side = "B" THEN MaxPrice ELSE 0
        o == [side |-> side, status |-> "New", arr |-> ib.now, end |-> None, vol |-> vol, start |-> vol,
              price |-> p, trader |-> trader]
    IN [ib EXCEPT !.entries = Append(@, [order |-> o, key |-> <<Pk(side, p), 0>>])]

\* match_bid / match_ask: en = the aggressor's entry (a local copy, as in the code)
RECURSIVE IMatch(_, _)
IMatch(ib, en) ==
  LET o == en.order
      opp == Opp(o.side)
      osd == ISide(ib, opp)
      crosses == IF o.side = "B" THEN o.price >= SideBestPk(ib.ask) ELSE o.price <= IBestBid(ib)
  IN
  IF ib.panic \/ o.vol = 0 \/ ~crosses \/ SideBestIdx(osd) = None THEN <<ib, en>>
  ELSE
    LET h  == SideBestIdx(osd)
        me == E(ib, h)
        p  == me.order
        v  == MinOf(o.vol, p.vol)
        tr == [t |-> ib.now, side |-> p.side, price |-> p.price, vol |-> v, agg |-> en.id, pas |-> h]
        p2 == IF p.vol = v THEN [p EXCEPT !.vol = 0, !.status = "Filled", !.end = ib.now] ELSE [p EXCEPT !.vol = p.vol - v]
        o2 == IF o.vol = v THEN [o EXCEPT !.vol = 0, !.status = "Filled", !.end = ib.now] ELSE [o EXCEPT !.vol = o.vol - v]
        r  == IF p2.status = "Filled" THEN SideRemove(osd, me.key, v) ELSE SideRemoveVol(osd, me.key[1], v)
        ib2 == [ISetSide(ib, opp, r[1]) EXCEPT !.entries[h + 1].order = p2,
                                               !.trades = Append(ib.trades, tr),
                                               !.tvol = ib.tvol + v,
                                               !.panic = r[2]]
    IN IMatch(ib2, [en EXCEPT !.order = o2])

\* place_order
IPlace(ib, id) ==
  LET en0 == E(ib, id) IN
  IF en0.order.status # "New" THEN ib
  ELSE
    LET en1 == [order |-> [en0.order EXCEPT !.status = "Active", !.arr = ib.now], key |-> en0.key, id |-> id]
        o1 == en1.order
        mkt == IF o1.side = "B" THEN o1.price = MaxPrice ELSE o1.price = 0
    IN
    IF mkt
    THEN IF ib.trading
         THEN LET r == IMatch(ib, en1)  o == r[2].order IN
              [r[1] EXCEPT !.entries[id + 1] =
                 [order |-> IF o.status # "Filled" THEN [o EXCEPT !.status = "Cancelled", !.end = ib.now] ELSE o, key |-> en0.key]]
         ELSE [ib EXCEPT !.entries[id + 1] = [order |-> [o1 EXCEPT !.status = "Rejected", !.end = ib.now], key |-> en0.key]]
    ELSE LET r == IF ib.trading THEN IMatch(ib, en1) ELSE <<ib, en1>>
             o == r[2].order
             b2 == r[1]
         IN IF o.status = "Filled" THEN [b2 EXCEPT !.entries[id + 1] = [order |-> o, key |-> en0.key]]
            ELSE LET sd == ISide(b2, o.side)
                     key == <<en0.key[1], NextKeyTime(sd, en0.key[1], b2.now)>>
                 IN [ISetSide(b2, o.side, SideInsert(sd, key, id, o.vol)) EXCEPT !.entries[id + 1] = [order |-> o, key |-> key]]

\* cancel_order
ICancel(ib, id) ==
  LET en == E(ib, id) IN
  IF en.order.status # "Active" THEN ib
  ELSE LET r == SideRemove(ISide(ib, en.order.side), en.key, en.order.vol) IN
       [ISetSide(ib, en.order.side, r[1]) EXCEPT !.entries[id + 1].order.status = "Cancelled",
                                                 !.entries[id + 1].order.end = ib.now,
                                                 !.panic = ib.panic \/ r[2]]

\* modify_order.  NOTE (finding F3): no tick-grid check on the new price, as in the code.
IModify(ib, id, np, nv) ==
  LET en == E(ib, id)  o == en.order IN
  IF o.status # "Active" \/ (np = None /\ nv = None) THEN ib
  ELSE IF np = None /\ nv < o.vol
  THEN \* reduce_order_vol
       LET r == SideRemoveVol(ISide(ib, o.side), en.key[1], o.vol - nv) IN
       [ISetSide(ib, o.side, r[1]) EXCEPT !.entries[id + 1].order.vol = nv, !.panic = ib.panic \/ r[2]]
  ELSE \* replace_order
       LET p == IF np = None THEN o.price ELSE np
           v == IF nv = None THEN o.vol ELSE nv
           r0 == SideRemove(ISide(ib, o.side), en.key, o.vol)
           b1 == [ISetSide(ib, o.side, r0[1]) EXCEPT !.panic = ib.panic \/ r0[2]]
           en1 == [order |-> [o EXCEPT !.vol = v, !.price = p], key |-> en.key, id |-> id]
           r == IF b1.trading THEN IMatch(b1, en1) ELSE <<b1, en1>>
           o2 == r[2].order
           b2 == r[1]
       IN IF o2.status = "Filled" THEN [b2 EXCEPT !.entries[id + 1] = [order |-> o2, key |-> en.key]]
          ELSE LET sd == ISide(b2, o.side)
                   key == <<Pk(o.side, p), NextKeyTime(sd, Pk(o.side, p), b2.now)>>
               IN [ISetSide(b2, o.side, SideInsert(sd, key, id, o2.vol)) EXCEPT !.entries[id + 1] = [order |-> o2, key |-> key]]

\* serde round trip: TryFrom<OrderBookState> rebuilds both sides from the Active entries' stored keys
IReload(ib) ==
  LET RECURSIVE Build(_, _)
      Build(k, sides) ==
        IF k > Len(ib.entries) THEN sides
        ELSE LET en == ib.entries[k] IN
             IF en.order.status = "Active"
             THEN Build(k + 1, IF en.order.side = "B"
                               THEN <<SideInsert(sides[1], en.key, k - 1, en.order.vol), sides[2]>>
                               ELSE <<sides[1], SideInsert(sides[2], en.key, k - 1, en.order.vol)>>)
             ELSE Build(k + 1, sides)
      s == Build(1, <<EmptySide, EmptySide>>)
  IN [ib EXCEPT !.bid = s[1], !.ask = s[2]]

IPre(ib, l) == IF HasDt(l) THEN [ib EXCEPT !.now = ib.now + l.dt] ELSE ib

IApply(ib, l) ==
  LET b0 == IPre(ib, l) IN
  CASE l.op = "create"  -> ICreate(b0, l.side, l.vol, l.tr, l.price)
    [] l.op = "cap"     -> LET b1 == ICreate(b0, l.side, l.vol, l.tr, l.price) IN
                           IF Len(b1.entries) = Len(b0.entries) THEN b0 ELSE IPlace(b1, Len(b0.entries))
    [] l.op = "place"   -> IPlace(b0, l.id)
    [] l.op = "cancel"  -> ICancel(b0, l.id)
    [] l.op = "modify"  -> IModify(b0, l.id, l.p, l.v)
    [] l.op = "event"   -> (CASE l.k = "new" -> IPlace(b0, l.id)
                              [] l.k = "cancel" -> ICancel(b0, l.id)
                              [] l.k = "modify" -> IModify(b0, l.id, l.p, l.v))
    [] l.op = "settime" -> [b0 EXCEPT !.now = l.t]
    [] l.op = "enable"  -> [b0 EXCEPT !.trading = TRUE]
    [] l.op = "disable" -> [b0 EXCEPT !.trading = FALSE]
    [] l.op = "resettv" -> [b0 EXCEPT !.tvol = 0]
    [] l.op = "reload"  -> IReload(b0)
    [] l.op = "bad"     -> b0

\* ---- what the getters compute from the incremental structures ----------------------------
ILevels(ib, s) ==
  LET sd == ISide(ib, s)
      start == IF s = "B" THEN IBestBid(ib) ELSE IBestAsk(ib)
  IN [i \in 1..ib.nlev |->
        LET p == IF s = "B" THEN start - (i - 1) * ib.tick ELSE start + (i - 1) * ib.tick IN
        \* the code's wrapping arithmetic can only leave the price range when the side is empty
        IF p < 0 \/ p > MaxPrice THEN <<0, 0>> ELSE SideAtPk(sd, Pk(s, p))]

IViews(ib) ==
  ViewsAll([ bid |-> IBestBid(ib), ask |-> IBestAsk(ib),
             bvol |-> ib.bid.vol, avol |-> ib.ask.vol,
             bbest |-> SideBestVolOrders(ib.bid), abest |-> SideBestVolOrders(ib.ask),
             blev |-> ILevels(ib, "B"), alev |-> ILevels(ib, "A"),
             mid2 |-> IBestBid(ib) + IBestAsk(ib) ])

\* ---- refinement mapping: the reference book this implementation state stands for -----------
\* queue of a side: the ids in key order
RECURSIVE KeysInOrder(_)
KeysInOrder(D) == IF D = {} THEN <<>> ELSE LET k == MinKey(D) IN <<k>> \o KeysInOrder(D \ {k})
IQueue(ib, s) == LET sd == ISide(ib, s)  ks == KeysInOrder(DOMAIN sd.omap) IN [i \in 1..Len(ks) |-> sd.omap[ks[i]]]
IOrders(ib) == [i \in 1..Len(ib.entries) |-> ib.entries[i].order]

\* observable equality with a reference book (ghost fields of the reference are not compared)
Matches(ib, ab) ==
  /\ ~ib.panic
  /\ ib.now = ab.now /\ ib.trading = ab.trading /\ ib.tvol = ab.tvol
  /\ IOrders(ib) = ab.orders
  /\ ib.trades = ab.trades
  /\ IQueue(ib, "B") = ab.qb /\ IQueue(ib, "A") = ab.qa
  /\ IViews(ib) = ViewsAll(ViewsQ(ab))

\* the incremental structures agree with one another
SideConsistent(ib, s) ==
  LET sd == ISide(ib, s)
      ids == {sd.omap[k] : k \in DOMAIN sd.omap}
  IN /\ Cardinality(ids) = Cardinality(DOMAIN sd.omap)
     /\ \A k \in DOMAIN sd.omap : E(ib, sd.omap[k]).key = k /\ E(ib, sd.omap[k]).order.status = "Active"
                                  /\ E(ib, sd.omap[k]).order.side = s
     /\ sd.vol = SumSeq([i \in 1..Len(ib.entries) |-> IF i - 1 \in ids THEN ib.entries[i].order.vol ELSE 0])
     /\ DOMAIN sd.volumes = {k[1] : k \in DOMAIN sd.omap}
     /\ \A pk \in DOMAIN sd.volumes :
          sd.volumes[pk] = << SumSeq([i \in 1..Len(ib.entries) |->
                                        IF i - 1 \in ids /\ ib.entries[i].key[1] = pk THEN ib.entries[i].order.vol ELSE 0]),
                              Cardinality({k \in DOMAIN sd.omap : k[1] = pk}) >>
ImplConsistent(ib) == SideConsistent(ib, "B") /\ SideConsistent(ib, "A")
=============================================================================
