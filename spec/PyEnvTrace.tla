----------------------------- MODULE PyEnvTrace -----------------------------
(***************************************************************************)
(* PyTrace.tla with the specification's environment run alongside (C18).   *)
(*                                                                         *)
(* PyTrace.tla judges a Python trace by what each event shows on its own   *)
(* (arrays, dictionary, frames, getters recomputed from the reported order *)
(* table) and by the schedule-independent part of the step semantics.      *)
(* Here the very same events additionally drive MarketOps.tla (one asset): *)
(* every submission is applied with SubmitF, every toggle fans out, and a  *)
(* step is taken in small silent steps (StepBegin, Process(i), StepEnd) as *)
(* in EnvTrace.tla's inference mode - TLC searches for a processing order  *)
(* of the queued instructions under which the specification's step ends in *)
(* exactly the order table and trade log that Python reported.  After      *)
(* every event the specification's order table and trade log must equal    *)
(* the reported ones: "the Python classes are transparent views of the     *)
(* Rust core", with the core's behaviour given by the specification that   *)
(* the Rust-level checks bind to the Rust code.                            *)
(***************************************************************************)
EXTENDS PyTrace

VARIABLES m,    \* the specification's environment (MarketOps, one asset)
          st    \* step in progress: [on, left, k, start, books]

evars == <<tvars, m, st>>
Idle == [on |-> FALSE, left |-> {}, k |-> 0, start |-> 0, books |-> <<>>]

EInit == TInit /\ m = NewEnv(0, <<1>>, 1, TRUE, 10) /\ st = Idle

\* the instructions one Python call queues, in the order it queues them
Instrs(e) ==
  LET ins == SelectSeq(InsOf(e), LAMBDA x : x.k # "noop") IN
  [i \in 1..Len(ins) |->
     CASE ins[i].k = "new"    -> [op |-> "submit", k |-> "new", a |-> 0, side |-> ins[i].side, vol |-> ins[i].vol, tr |-> ins[i].tr, price |-> ins[i].price]
       [] ins[i].k = "cancel" -> [op |-> "submit", k |-> "cancel", a |-> 0, id |-> ins[i].id, p |-> None, v |-> None]
       [] ins[i].k = "modify" -> [op |-> "submit", k |-> "modify", a |-> 0, id |-> ins[i].id, p |-> ins[i].p, v |-> ins[i].v]]

RECURSIVE SubmitAll(_, _, _)
SubmitAll(x, ins, i) == IF i > Len(ins) THEN x ELSE SubmitAll(SubmitF(x, ins[i]), ins, i + 1)

\* the specification's book shows what Python reported
Agrees(x, e) == x.books[1].orders = Decode(e) /\ x.books[1].trades = DecodeT(e)

EReset ==
  /\ Reset /\ ~st.on
  /\ m' = NewEnv(IF "t0" \in DOMAIN Rec[l] THEN Rec[l].t0 ELSE 0, <<Rec[l].tick>>, Rec[l].step, Rec[l].trading, 10)
  /\ st' = Idle

\* every event but reset / step / sim_end
ECall ==
  /\ l <= Len(Rec) /\ Rec[l].op \notin {"reset", "sim_end", "step"} /\ bad = "" /\ ~st.on
  /\ LET e == Rec[l]
         new == CASE e.op = "submit"  -> SubmitAll(m, Instrs(e), 1)
                  [] e.op = "enable"  -> MapBooks(m, EnableF)
                  [] e.op = "disable" -> MapBooks(m, DisableF)
                  [] OTHER -> m
         v == CallVerdict(e)
     IN /\ m' = new
        /\ CallUpdate(e, IF v # "" THEN v
                         ELSE IF ~Agrees(new, e) THEN "ENGINE:order_table_and_trade_log_are_those_of_the_specification_after_this_call"
                         ELSE "")
  /\ st' = Idle

ESimEnd == SimEnd /\ ~st.on /\ UNCHANGED <<m, st>>

\* ---- a step, by schedule inference ---------------------------------------------------------
\* (a step event whose reported table has another length than the specification's is left to PyTrace's own clauses)
EStepBegin ==
  /\ l <= Len(Rec) /\ Rec[l].op = "step" /\ bad = "" /\ ~st.on
  /\ Len(Rec[l].orders) = Len(m.books[1].orders) /\ Len(Rec[l].trades) >= Len(trades)
  /\ st' = [on |-> TRUE, left |-> 1..Len(m.pending), k |-> 0, start |-> m.books[1].now,
            books |-> <<ResetTVolF(m.books[1])>>]
  /\ UNCHANGED <<tvars, m>>

FinalO(e, id) == Decode(e)[id + 1]
NewTr(e) == SubSeq(DecodeT(e), Len(trades) + 1, Len(e.trades))

\* facts that can no longer change during the rest of the step must already agree with the report
EConsistent(books, e) ==
  LET nb == books[1]  T == NewTrades(m.books[1], nb) IN
  /\ Len(nb.orders) = Len(e.orders)
  /\ Len(T) <= Len(NewTr(e))
  /\ \A k \in 1..Len(T) : T[k] = NewTr(e)[k]
  /\ \A id \in Ids(nb) :
       LET o == O(nb, id)  f == FinalO(e, id) IN
       /\ o.status # "New" => f.arr = o.arr
       /\ o.status \in Terminal => o = f

\* sound pruning, as in EnvTrace.tla: arrival times own their slot, trades stamped with a slot's time are
\* made by the instruction processed there, an effective cancel is dated by the end time, instructions for
\* orders that are already terminal are interchangeable no-ops and fill free slots in queue order
EEnabled ==
  IF ~st.on THEN {}
  ELSE
    LET e == Rec[l]
        t == st.start + st.k
        P == m.pending
        nb == st.books[1]
        NewAt == {i \in st.left : P[i].k = "new" /\ FinalO(e, P[i].id).arr = t /\ FinalO(e, P[i].id).status # "New"}
        Aggr == {NewTr(e)[j].agg : j \in {j \in 1..Len(NewTr(e)) : NewTr(e)[j].t = t}}
        TradeAt == {i \in st.left : P[i].k # "cancel" /\ P[i].id \in Aggr}
        CancelAt == {i \in st.left : /\ P[i].k = "cancel"
                                      /\ P[i].id \in Ids(nb)
                                      /\ O(nb, P[i].id).status = "Active"
                                      /\ FinalO(e, P[i].id).status = "Cancelled"
                                      /\ FinalO(e, P[i].id).end = t}
        Free == {i \in st.left : P[i].k # "new"}
        Dead == {i \in Free : P[i].id \in Ids(nb) /\ O(nb, P[i].id).status \in Terminal}
    IN IF NewAt # {} THEN NewAt
       ELSE IF TradeAt # {} THEN TradeAt
       ELSE IF CancelAt # {} THEN CancelAt
       ELSE (Free \ Dead) \cup (IF Dead = {} THEN {} ELSE {CHOOSE i \in Dead : \A j \in Dead : i <= j})

InstrLabel(x) == [op |-> "event", dt |-> 0, k |-> x.k, id |-> x.id, p |-> x.p, v |-> x.v]

EProcess(i) ==
  /\ st.on /\ i \in st.left /\ bad = ""
  /\ LET x  == m.pending[i]
         t  == st.start + st.k
         ob == SetTimeF(st.books[1], t)
         nb == ProcessF(st.books, x, t)
     IN /\ x.id \in Ids(ob)
        /\ EConsistent(nb, Rec[l])
        /\ StepOK(ob, EventF(ob, x), InstrLabel(x))      \* every book-level step clause at the processed instruction
        /\ st' = [st EXCEPT !.left = @ \ {i}, !.k = @ + 1, !.books = nb]
  /\ UNCHANGED <<tvars, m>>

EStepEnd ==
  /\ st.on /\ st.left = {} /\ bad = ""
  /\ LET e  == Rec[l]
         b2 == <<SetTimeF(st.books[1], st.start + m.step)>>
         new == [m EXCEPT !.books = b2, !.pending = <<>>,
                          !.l2 = <<L2Of(b2[1])>>,
                          !.rec = <<Append(m.rec[1], L2Of(b2[1]))>>,
                          !.tvols = <<Append(m.tvols[1], b2[1].tvol)>>,
                          !.nsteps = m.nsteps + 1]
     IN /\ Agrees(new, e)                      \* otherwise this schedule does not explain the report
        /\ m' = new
        /\ CallUpdate(e, LET v == CallVerdict(e) IN
                         IF v # "" THEN v
                         ELSE IF ~C08_StepShape(m, new, [op |-> "step"]) THEN "ENGINE:C08_StepShape"
                         ELSE IF ("env" \in DOMAIN e) /\ e.env.time # b2[1].now THEN "ENGINE:clock_after_step"
                         ELSE "")
  /\ st' = Idle

EStepMalformed ==
  /\ l <= Len(Rec) /\ Rec[l].op = "step" /\ bad = "" /\ ~st.on
  /\ ~(Len(Rec[l].orders) = Len(m.books[1].orders) /\ Len(Rec[l].trades) >= Len(trades))
  /\ CallUpdate(Rec[l], LET v == CallVerdict(Rec[l]) IN IF v # "" THEN v ELSE "ENGINE:a_step_neither_creates_orders_nor_removes_trades")
  /\ UNCHANGED <<m, st>>

ENext == EStepMalformed \/ EReset \/ ECall \/ ESimEnd \/ EStepBegin \/ (\E i \in EEnabled : EProcess(i)) \/ EStepEnd
ESpec == EInit /\ [][ENext]_evars

\* schedules that differ only in the ghost enqueue counters lead to the same later behaviour
StripG(b) == [b EXCEPT !.qn = <<>>, !.qt = <<>>, !.nq = 0]
EView == <<tvars, [st EXCEPT !.books = IF st.on THEN <<StripG(@[1])>> ELSE @], [m EXCEPT !.books = <<StripG(@[1])>>]>>

EAccepted ==
  IF TLCGet(1) = Len(Rec) + 1
  THEN PrintT(<<"ACCEPTED", Len(Rec)>>)
  ELSE /\ PrintT(<<"REJECTED", TLCGet(1)>>)
       /\ (Rec[TLCGet(1)].op # "step" \/
           PrintT(<<"TRACE-REJECT", ToJson([at |-> TLCGet(1),
                why |-> "ENGINE:no processing order of the queued instructions makes the specification's step end in the order table and trade log Python reported",
                event |-> [op |-> Rec[TLCGet(1)].op]])>>))
       /\ FALSE
=============================================================================
