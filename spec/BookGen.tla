------------------------------ MODULE BookGen ------------------------------
(* Generator: Book.tla plus the history of labels; every reachable state    *)
(* prints one JSON line {path, exp} that the replayers run against the code. *)
EXTENDS Book, Json

VARIABLE hist

GInit == Init /\ hist = <<>>
GNext == Next /\ hist' = Append(hist, last')
GSpec == GInit /\ [][GNext]_<<vars, hist>>

\* f3: the specification's own state breaks C12_OnGrid (only possible with FollowF3 = TRUE: known finding F3)
Emit == Constr => PrintT(<<"GEN", ToJson([path |-> hist, exp |-> Proj(b), f3 |-> ~C12_OnGrid(b)])>>)

\* the same, plus what the drain probe must produce when run after the path
EmitDrain ==
  Constr => PrintT(<<"GEN", ToJson([path |-> hist, exp |-> Proj(b), f3 |-> ~C12_OnGrid(b),
                          drain |-> [bvol |-> SideVol(b, "B"), avol |-> SideVol(b, "A"),
                                     exp |-> Proj(DrainF(b))]])>>)
=============================================================================
