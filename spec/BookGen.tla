------------------------------ MODULE BookGen ------------------------------
(* Generator: Book.tla plus the history of labels; every reachable state    *)
(* prints one JSON line {path, exp} that the replayers run against the code. *)
EXTENDS Book, Json

VARIABLE hist

GInit == Init /\ hist = <<>>
GNext == Next /\ hist' = Append(hist, last')
GSpec == GInit /\ [][GNext]_<<vars, hist>>

Emit == PrintT(<<"GEN", ToJson([path |-> hist, exp |-> Proj(b)])>>)
=============================================================================
