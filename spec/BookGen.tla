------------------------------ MODULE BookGen ------------------------------
(* Generator: Book.tla plus the history of labels; every reachable state    *)
(* prints one JSON line {path, exp} that the replayers run against the code. *)
EXTENDS Book, Json

VARIABLE hist

GInit == Init /\ hist = <<>>
GNext == Next /\ hist' = Append(hist, last')
GSpec == GInit /\ [][GNext]_<<vars, hist>>

Emit == Constr => PrintT(<<"GEN", ToJson([path |-> hist, exp |-> Proj(b)])>>)

\* the same, plus what the drain probe must produce when run after the path
EmitDrain ==
  Constr => PrintT(<<"GEN", ToJson([path |-> hist, exp |-> Proj(b),
                          drain |-> [bvol |-> SideVol(b, "B"), avol |-> SideVol(b, "A"),
                                     exp |-> Proj(DrainF(b))]])>>)
=============================================================================
