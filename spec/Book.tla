-------------------------------- MODULE Book --------------------------------
(***************************************************************************)
(* One order book as a state machine: one action per public method of      *)
(* bourse_book::OrderBook.  `last` is the label (method, arguments, return *)
(* value) of the most recent call; it is what the generator prints and     *)
(* what the trace specification binds to a recorded event.                 *)
(***************************************************************************)
EXTENDS BookProps

CONSTANTS
  Tick,        \* tick size of the book
  NLevels,     \* number of published price levels
  Trading0,    \* initial trading flag
  Ops,         \* subset of the action names enabled in this configuration
  Dts,         \* clock advances applied before a call (subset of Nat)
  Sides, Kinds,\* subsets of {"B","A"} and {"L","M"}
  Prices,      \* limit prices offered to create (on or off the grid)
  Vols,        \* volumes offered to create
  Traders,     \* trader ids offered to create
  ModPrices,   \* new prices offered to modify (None = keep)
  ModVols,     \* subset of {"none","smaller","equal","larger","min","max"}
  MaxOrders,   \* bound on created orders
  MaxOps,      \* bound on number of calls (depth)
  VolCap,      \* 0, or a bound on every order volume, on the resting volume per side and on the total traded volume (large-volume regime)
  Discipline   \* TRUE: histories obey the documented clock discipline (C01..C04, C06, C07, C13); FALSE: ties allowed (C05)

VARIABLES b, last, n

vars == <<b, last, n>>

Init ==
  /\ b = NewBook(0, Tick, Trading0, NLevels)
  /\ last = [op |-> "init"]
  /\ n = 0

\* numeric volume for a relative modify volume
ModVolOf(o, mv) ==
  CASE mv = "none"    -> None
    [] mv = "smaller" -> o.vol - 1
    [] mv = "equal"   -> o.vol
    [] mv = "larger"  -> o.vol + 1
    [] mv = "min"     -> 1                                          \* down to one unit, whatever the volume is
    [] mv = "max"     -> IF VolCap > 0 THEN VolCap ELSE o.vol + 2   \* up to the largest volume of the configuration

\* One call: the successor is the label's meaning (BookProps!ApplyLbl).
Step(lbl) ==
  /\ lbl.op \in Ops
  /\ n < MaxOps
  /\ b' = ApplyLbl(b, lbl)
  /\ last' = lbl
  /\ n' = n + 1

WithRet(l) == [l EXCEPT !.ret = RetOf(b, l)]

Create ==
  \E dt \in Dts, s \in Sides, k \in Kinds, v \in Vols, tr \in Traders :
    \E p \in (IF k = "L" THEN Prices ELSE {None}) :
      /\ NOrders(b) < MaxOrders
      /\ Step(WithRet([op |-> "create", dt |-> dt, side |-> s, vol |-> v, tr |-> tr,
                       price |-> p, ret |-> None]))

\* create_and_place_order
Cap ==
  \E dt \in Dts, s \in Sides, k \in Kinds, v \in Vols, tr \in Traders :
    \E p \in (IF k = "L" THEN Prices ELSE {None}) :
      /\ NOrders(b) < MaxOrders
      /\ Step(WithRet([op |-> "cap", dt |-> dt, side |-> s, vol |-> v, tr |-> tr,
                       price |-> p, ret |-> None]))

Place ==
  \E dt \in Dts, id \in Ids(b) : Step([op |-> "place", dt |-> dt, id |-> id])

Cancel ==
  \E dt \in Dts, id \in Ids(b) : Step([op |-> "cancel", dt |-> dt, id |-> id])

Modify ==
  \E dt \in Dts, id \in Ids(b), np \in ModPrices, mv \in ModVols :
    LET nv == ModVolOf(O(b, id), mv) IN
    /\ nv = None \/ (nv >= 1 /\ (VolCap = 0 \/ nv <= VolCap))
    /\ Step([op |-> "modify", dt |-> dt, id |-> id, p |-> np, v |-> nv])

\* process_event with each of the three instruction kinds
Event ==
  \E dt \in Dts, id \in Ids(b) :
    \/ Step([op |-> "event", dt |-> dt, k |-> "new", id |-> id, p |-> None, v |-> None])
    \/ Step([op |-> "event", dt |-> dt, k |-> "cancel", id |-> id, p |-> None, v |-> None])
    \/ \E np \in ModPrices, mv \in ModVols :
         LET nv == ModVolOf(O(b, id), mv) IN
         /\ nv = None \/ (nv >= 1 /\ (VolCap = 0 \/ nv <= VolCap))
         /\ Step([op |-> "event", dt |-> dt, k |-> "modify", id |-> id, p |-> np, v |-> nv])

SetTime == \E d \in {1, 3} : Step([op |-> "settime", t |-> b.now + d])

Enable    == Step([op |-> "enable"])
Disable   == Step([op |-> "disable"])
ResetTVol == Step([op |-> "resettv"])

\* save + load (string/file, compact/pretty): identity on the abstract state
Reload == \E m \in {"sc", "sp", "fc", "fp"} : Step([op |-> "reload", mode |-> m])

Next == \/ Create \/ Cap \/ Place \/ Cancel \/ Modify \/ Event
        \/ SetTime \/ Enable \/ Disable \/ ResetTVol \/ Reload

Spec == Init /\ [][Next]_vars

---------------------------------------------------------------------------
\* valid histories keep per-side resting volume and cumulative traded volume below 2^32: in the large-volume regime
\* (one specification unit of volume = 1.3 * 10^9 in the real book, DESIGN.md 3.6) that is a bound of 3 units
VolCapOK(bk) ==
  VolCap = 0 \/ /\ SideVol(bk, "B") <= VolCap /\ SideVol(bk, "A") <= VolCap
                /\ SumSeq([i \in 1..Len(bk.trades) |-> bk.trades[i].vol]) <= VolCap
                /\ \A i \in 1..Len(bk.orders) : bk.orders[i].vol <= VolCap
Constr == (Discipline => DisciplineOK(b)) /\ VolCapOK(b)
ConstrNext == (Discipline => DisciplineOK(b')) /\ VolCapOK(b')
\* TLC evaluates invariants also on states that fail the CONSTRAINT (it only does not
\* explore them further), so every clause is explicitly restricted to states of the model.

\* individually named invariants / action properties for TLC
Inv_C01_QueueSorted     == Constr => C01_QueueSorted(b)
Inv_C02_ViewsAgree      == Constr => C02_ViewsAgree(b)
Inv_C02_ViewsConsistent == Constr => C02_ViewsConsistent(b)
Inv_C02_NotCrossed      == Constr => C02_NotCrossed(b)
Inv_C03_WellFormed      == Constr => C03_WellFormed(b) /\ C03_TimeOrdered(b)
Inv_C03_Conservation    == Constr => C03_Conservation(b)
Inv_C03_Counter         == Constr => C03_Counter(b)
Inv_C04_State           == Constr => C04_State(b)
Inv_C12_OnGrid          == Constr => C12_OnGrid(b)
Inv_C12_LevelsAccount   == Constr => C12_LevelsAccount(b)

\* old book with the clock already advanced, as the operation saw it
Pre(lbl) == PreOf(b, lbl)

Act_C01_TradesTakeHead  == [][ConstrNext => C01_TradesTakeHead(Pre(last'), b', last')]_vars
Act_C01_Exhaustive      == [][ConstrNext => C01_Exhaustive(Pre(last'), b', last')]_vars
Act_C01_RestsLast       == [][ConstrNext => C01_RestsLast(Pre(last'), b', last')]_vars
Act_C03_AppendOnly      == [][ConstrNext => C03_AppendOnly(b, b')]_vars
Act_C03_Admitted        == [][ConstrNext => C03_NewTradesAdmitted(b, b')]_vars
Act_C04_Transitions     == [][ConstrNext => C04_Transitions(b, b')]_vars
Act_C04_NoOps           == [][ConstrNext => C04_NoOps(Pre(last'), b', last')]_vars
Act_C06_Modify          == [][ConstrNext => C06_Modify(Pre(last'), b', last')]_vars
Act_C12_RejectedCreate  == [][ConstrNext => C12_RejectedCreate(Pre(last'), b', last')]_vars
Act_C13_NoTradesOff     == [][ConstrNext => C13_NoTradesWhileOff(Pre(last'), b', last')]_vars
Act_C13_MarketRejected  == [][ConstrNext => C13_MarketRejected(Pre(last'), b', last')]_vars
Act_C13_ToggleStutters  == [][ConstrNext => C13_ToggleStutters(b, b', last')]_vars

=============================================================================
