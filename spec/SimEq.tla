-------------------------------- MODULE SimEq --------------------------------
(***************************************************************************)
(* C09.  Four complete simulation outputs recorded by separate OS          *)
(* processes (harness/src/bin/sim_run.rs):                                 *)
(*   A, B : same seeds and parameters, progress bar off                     *)
(*   C    : same seeds and parameters, progress bar on                      *)
(*   D    : every seed + 1 (adjacent seeds, including 0 -> 1)               *)
(*   E    : every seed + 2^32 (seeds that differ only in the high word)     *)
(*   F    : same seeds and parameters, but the configurations were run in   *)
(*          reverse order and each twice in a row in that process, the      *)
(*          second run being the one written (a simulation must not depend  *)
(*          on what the process did before)                                 *)
(* Each file is the concatenation of the runs of all configurations, every  *)
(* run introduced by a "config" line.  A simulation is a function of seed   *)
(* and parameters iff A = B = C line for line; and the seed matters iff     *)
(* each configuration's run in D differs from the one in A.                 *)
(***************************************************************************)
EXTENDS Integers, Sequences, FiniteSets, Json, IOUtils, TLC

A == ndJsonDeserialize(IOEnv.TRACE)
B == ndJsonDeserialize(IOEnv.TRACE2)
C == ndJsonDeserialize(IOEnv.TRACE3)
D == ndJsonDeserialize(IOEnv.TRACE4)
E == ndJsonDeserialize(IOEnv.TRACE5)
F == ndJsonDeserialize(IOEnv.TRACE6)

FirstDiff(X, Y) ==
  LET n == IF Len(X) <= Len(Y) THEN Len(X) ELSE Len(Y)
      S == {i \in 1..n : X[i] # Y[i]}
  IN IF S # {} THEN CHOOSE i \in S : \A j \in S : i <= j
     ELSE IF Len(X) # Len(Y) THEN n + 1 ELSE 0

Marks(X) == {i \in 1..Len(X) : X[i].op = "config"}
\* the k-th run of X (k-th smallest marker up to the line before the next one)
Seg(X, k) ==
  LET M == Marks(X)
      Nth(j) == CHOOSE i \in M : Cardinality({x \in M : x < i}) = j - 1
      lo == Nth(k)
      hi == IF k < Cardinality(M) THEN Nth(k + 1) - 1 ELSE Len(X)
  IN SubSeq(X, lo, hi)

NRuns == Cardinality(Marks(A))

SameSeedSame == FirstDiff(A, B) = 0 /\ FirstDiff(A, C) = 0 /\ FirstDiff(A, F) = 0
\* a run with at least 20 orders cannot plausibly coincide under two seeds (tiny runs can: they are not judged)
Orders(X) == Len(SelectSeq(X, LAMBDA e : e.op = "order"))
Substantial(k) == Orders(Seg(A, k)) >= 20
SameAs(X) == {k \in 1..NRuns : Cardinality(Marks(X)) = NRuns /\ Substantial(k) /\ Seg(A, k) = Seg(X, k)}
SeedMatters  == /\ Cardinality(Marks(D)) = NRuns /\ Cardinality(Marks(E)) = NRuns
                /\ SameAs(D) = {} /\ SameAs(E) = {}

VARIABLE done
Init == done = FALSE
Next == done = FALSE /\ done' = TRUE
Spec == Init /\ [][Next]_done

Verdict ==
  done =>
    IF SameSeedSame /\ SeedMatters
    THEN PrintT(<<"ACCEPTED", Len(A)>>) /\ PrintT(<<"SUBSTANTIAL", Cardinality({k \in 1..NRuns : Substantial(k)})>>)
    ELSE PrintT(<<"TRACE-REJECT", ToJson([why |-> IF ~SameSeedSame THEN "same seed, different outcome"
                                                 ELSE "a different seed gave the same outcome",
                                         at_AB |-> FirstDiff(A, B), at_AC |-> FirstDiff(A, C), at_AF |-> FirstDiff(A, F),
                                         line_A |-> IF FirstDiff(A, B) # 0 /\ FirstDiff(A, B) <= Len(A) THEN A[FirstDiff(A, B)]
                                                    ELSE IF FirstDiff(A, C) # 0 /\ FirstDiff(A, C) <= Len(A) THEN A[FirstDiff(A, C)]
                                                    ELSE IF FirstDiff(A, F) # 0 /\ FirstDiff(A, F) <= Len(A) THEN A[FirstDiff(A, F)] ELSE [op |-> "none"],
                                         same_as_A_with_seed_plus_1 |-> SameAs(D), same_as_A_with_seed_plus_2_32 |-> SameAs(E)])>>) /\ FALSE
=============================================================================
