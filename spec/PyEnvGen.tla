------------------------------ MODULE PyEnvGen ------------------------------
(* Generator for the Python environments (StepEnv, StepEnvNumpy): EnvGen's    *)
(* outcome sets with, per outcome, what PyView says Python must show, plus    *)
(* submissions with out-of-range integer arguments (OverflowError, unchanged).*)
EXTENDS EnvGen, PyView

BadSubmits ==
  { [call |-> "place_order", arg |-> "vol"], [call |-> "place_order", arg |-> "trader_id"],
    [call |-> "place_order", arg |-> "price"], [call |-> "cancel_order", arg |-> "order_id"],
    [call |-> "modify_order", arg |-> "new_price"], [call |-> "modify_order", arg |-> "new_vol"] }

SubmitBad ==
  /\ "bad" \in Ops
  /\ nsub < MaxSubmits
  /\ \A i \in 1..Len(hist) : hist[i].op # "bad"          \* one such call per path
  /\ \E c \in BadSubmits, v \in {"NEG", "OVER"} :
       hist' = Append(hist, [op |-> "bad", call |-> c.call, arg |-> c.arg, val |-> v])
  /\ nsub' = nsub + 1
  /\ UNCHANGED <<S, nstep>>

PNext == GNext \/ SubmitBad

EmitPy ==
  PrintT(<<"GEN", ToJson([path |-> hist,
                          excs |-> [i \in 1..Len(hist) |-> PyExcOfLabel(hist[i])],
                          outs |-> SetToSeq({[sched |-> x.sched, exp |-> ProjEnv(x.m), py |-> PyEnv(x.m)] : x \in S})])>>)
=============================================================================
