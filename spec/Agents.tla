------------------------------- MODULE Agents -------------------------------
(***************************************************************************)
(* The built-in agents of bourse_de as RELATIONS between what an agent     *)
(* could observe when `update` was called and the instructions it queued   *)
(* (C16, C17).  TLA+ has no floating point and the specification does not  *)
(* re-implement log-normal sampling: it says which instruction sequences   *)
(* are possible, and what is mandatory at probabilities 0 and >= 1 and at  *)
(* saturated momentum demand.                                              *)
(*                                                                         *)
(* c : configuration record of the run (reset event of the recorder)       *)
(* e : one update event: mid2 (twice the mid-price, digit pair),           *)
(*     own_active (ids of the agent's orders that were Active),            *)
(*     active_traders, own_live_by_trader, instrs, created                 *)
(***************************************************************************)
EXTENDS Big, Sequences, FiniteSets

SeqSet(s) == {s[i] : i \in 1..Len(s)}
Sel(s, P(_)) == SelectSeq(s, P)
IsNew(x) == x.k = "new"
IsCancel(x) == x.k = "cancel"

\* ---- clauses common to all agents ----------------------------------------
WellFormedInstrs(c, e) ==
  /\ \A i \in 1..Len(e.instrs) : e.instrs[i].k \in {"new", "cancel"}          \* built-in agents never modify
  /\ \A i \in 1..Len(e.instrs) : e.instrs[i].a = c.asset                      \* only their own asset
  /\ e.created = Len(Sel(e.instrs, IsNew))                                     \* every created order is queued, once
  /\ \A i \in 1..Len(e.instrs) : IsNew(e.instrs[i]) =>
       /\ e.instrs[i].fresh /\ e.instrs[i].status = "New"
       /\ BigWellFormed(e.instrs[i].price)
  /\ \A i, j \in 1..Len(e.instrs) : (i # j /\ IsNew(e.instrs[i]) /\ IsNew(e.instrs[j])) => e.instrs[i].id # e.instrs[j].id

OwnTrader(c, t) == t >= c.id0 /\ t < c.id0 + c.n

\* a cancellation is only ever of an own order that was active when the agent looked
ValidCancel(c, e, x) == x.own /\ x.was_active /\ x.id \in SeqSet(e.own_active) /\ OwnTrader(c, x.tr)

OnGridBig(p, tick) == BigMod(p, tick) = 0

\* limit order quoted on the right side of the observed mid-price, on the grid
ValidQuote(c, e, x) ==
  /\ ~x.mkt
  /\ OnGridBig(x.price, c.tick)
  /\ x.side = "B" => BigLe(x.price2, e.mid2)
  /\ x.side = "A" => BigGe(x.price2, e.mid2)

\* ---- random agents ----------------------------------------------------------
RandomRel(c, e) ==
  LET I == e.instrs IN
  /\ WellFormedInstrs(c, e)
  /\ \A i \in 1..(Len(I) - 1) : I[i].tr < I[i + 1].tr             \* slot order, at most one action per slot
  /\ \A i \in 1..Len(I) :
       LET x == I[i] IN
       /\ x.tr >= 0 /\ x.tr < c.n
       /\ IsCancel(x) => ValidCancel(c, e, x)
       /\ IsNew(x) =>
            /\ x.tr \notin SeqSet(e.active_traders)                \* a slot with a live order cancels, it never adds
            \* (a limit sell at price 0 - possible when the tick range starts at 0 - carries the same price as a market sell)
            /\ x.mkt => (x.side = "A" /\ c.tick_lo = 0)
            /\ OnGridBig(x.price, c.tick) /\ BigSmall(x.price)
            /\ BigVal(x.price) >= c.tick_lo * c.tick /\ BigVal(x.price) < c.tick_hi * c.tick
            /\ x.vol >= c.vol_lo /\ x.vol < c.vol_hi
  /\ \A k \in 1..Len(e.own_live_by_trader) : e.own_live_by_trader[k][2] <= 1      \* never two live orders per agent
  /\ c.rate = "zero" => I = <<>>
  /\ c.rate = "one" =>
       /\ Len(I) = c.n
       /\ \A i \in 1..Len(I) : I[i].tr = i - 1
       /\ \A i \in 1..Len(I) : IsCancel(I[i]) = (I[i].tr \in SeqSet(e.active_traders))

\* ---- noise and momentum agents: cancels first, then per trader [limit] [market] ---
CancelsThenNews(I) ==
  \E k \in 0..Len(I) : (\A i \in 1..k : IsCancel(I[i])) /\ (\A i \in (k + 1)..Len(I) : IsNew(I[i]))

CancelClauses(c, e) ==
  LET C == Sel(e.instrs, IsCancel) IN
  /\ \A i \in 1..Len(C) : ValidCancel(c, e, C[i])
  /\ \A i, j \in 1..Len(C) : i # j => C[i].id # C[j].id
  /\ c.p_cancel = "zero" => C = <<>>
  /\ c.p_cancel = "one" => {C[i].id : i \in 1..Len(C)} = SeqSet(e.own_active)

\* news of trader t, in order
Of(N, t) == Sel(N, LAMBDA x : x.tr = t)

PerTraderShape(c, e, N) ==
  /\ \A i \in 1..Len(N) : OwnTrader(c, N[i].tr) /\ N[i].vol = c.vol
  /\ \A i \in 1..(Len(N) - 1) : N[i].tr <= N[i + 1].tr                     \* traders in order
  /\ \A t \in c.id0..(c.id0 + c.n - 1) :
       LET T == Of(N, t) IN
       /\ Len(T) <= 2
       /\ Len(Sel(T, LAMBDA x : x.mkt)) <= 1 /\ Len(Sel(T, LAMBDA x : ~x.mkt)) <= 1
       /\ Len(T) = 2 => ~T[1].mkt /\ T[2].mkt                             \* limit before market
  /\ \A i \in 1..Len(N) : ~N[i].mkt => ValidQuote(c, e, N[i])

NoiseRel(c, e) ==
  LET N == Sel(e.instrs, IsNew) IN
  /\ WellFormedInstrs(c, e)
  /\ CancelsThenNews(e.instrs)
  /\ CancelClauses(c, e)
  /\ PerTraderShape(c, e, N)
  /\ c.p_limit = "zero" => \A i \in 1..Len(N) : N[i].mkt
  /\ c.p_limit = "one" => \A t \in c.id0..(c.id0 + c.n - 1) : Len(Sel(Of(N, t), LAMBDA x : ~x.mkt)) = 1
  /\ c.p_market = "zero" => \A i \in 1..Len(N) : ~N[i].mkt
  /\ c.p_market = "one" => \A t \in c.id0..(c.id0 + c.n - 1) : Len(Sel(Of(N, t), LAMBDA x : x.mkt)) = 1

\* sgn: sign of the momentum signal M as recomputed by TLC from the observed mid-prices
\* (exact dyadic arithmetic, AgentTrace.tla); "any" when it is not tracked
MomentumRel(c, e, sgn) ==
  LET N == Sel(e.instrs, IsNew) IN
  /\ WellFormedInstrs(c, e)
  /\ CancelsThenNews(e.instrs)
  /\ CancelClauses(c, e)
  /\ PerTraderShape(c, e, N)
  /\ \A i, j \in 1..Len(N) : N[i].side = N[j].side                        \* one direction per update
  /\ c.order_ratio_zero => \A i \in 1..Len(N) : N[i].mkt
  \* C17: the direction is the sign of M, and nothing happens at M = 0
  /\ sgn = 0 => N = <<>>
  /\ (sgn = 1 /\ N # <<>>) => N[1].side = "B"
  /\ (sgn = -1 /\ N # <<>>) => N[1].side = "A"
  \* saturated demand: |demand * tanh(scale * M)| / n >= 1, so every trader trades, whatever the sign of M
  /\ (c.saturated /\ sgn \in {1, -1}) =>
       \A t \in c.id0..(c.id0 + c.n - 1) :
         /\ Len(Sel(Of(N, t), LAMBDA x : x.mkt)) = 1
         \* the limit-order probability is the order ratio times the market-order probability: certain when that product is >= 1
         /\ c.limit_certain => Len(Sel(Of(N, t), LAMBDA x : ~x.mkt)) = 1
=============================================================================
