------------------------------ MODULE BookLive ------------------------------
(***************************************************************************)
(* Liveness-style sanity of the reference engine under fairness (no state  *)
(* constraint, so no non-progress cycle can hide behind a bound): orders    *)
(* keep arriving up to MaxOrders, cancel requests for active orders keep    *)
(* being issued (weak fairness per order id).  Then                         *)
(*   Progress:  every order that is ever active eventually reaches a        *)
(*              terminal status (filled or cancelled) and stays there;      *)
(*   Quiesce:   eventually no order is active or unplaced.                  *)
(* Without the fairness assumption both fail (an active order can rest      *)
(* forever) - checked as a negative control by the selftest.                *)
(***************************************************************************)
EXTENDS BookProps

CONSTANTS Tick, MaxOrders, Prices, Vols, Sides, Kinds

VARIABLE b

Init == b = NewBook(0, Tick, TRUE, 1)

Arrive ==
  /\ NOrders(b) < MaxOrders
  /\ \E s \in Sides, k \in Kinds, v \in Vols :
       \E p \in (IF k = "L" THEN Prices ELSE {None}) :
         b' = ApplyLbl(b, [op |-> "cap", dt |-> 1, side |-> s, vol |-> v, tr |-> 1, price |-> p, ret |-> NOrders(b)])

Cancel(id) ==
  /\ id \in Ids(b) /\ O(b, id).status = "Active"
  /\ b' = ApplyLbl(b, [op |-> "cancel", dt |-> 1, id |-> id])

Next == Arrive \/ \E id \in 0..(MaxOrders - 1) : Cancel(id)

Fairness == WF_b(Arrive) /\ \A id \in 0..(MaxOrders - 1) : WF_b(Cancel(id))
Spec == Init /\ [][Next]_b /\ Fairness
SpecUnfair == Init /\ [][Next]_b

IsActive(id) == id \in Ids(b) /\ O(b, id).status = "Active"
IsDone(id) == id \in Ids(b) /\ O(b, id).status \in Terminal

Progress == \A id \in 0..(MaxOrders - 1) : IsActive(id) ~> IsDone(id)
Final == \A id \in 0..(MaxOrders - 1) : [](IsDone(id) => []IsDone(id))
Quiesce == <>[](NOrders(b) = MaxOrders /\ \A id \in Ids(b) : O(b, id).status \in Terminal)
=============================================================================
