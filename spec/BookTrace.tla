----------------------------- MODULE BookTrace -----------------------------
(***************************************************************************)
(* Validation of traces recorded from the real bourse_book::OrderBook      *)
(* against BookOps / BookProps.                                            *)
(*                                                                         *)
(* The recorder (harness/src/bin/record_book.rs) logs one ndjson event per *)
(* public call: the label (method + arguments + return value) and the      *)
(* DELTA of the complete public projection, obtained by diffing two full   *)
(* get_orders()/get_trades() snapshots:                                    *)
(*   no, nt   number of orders / trades after the call                     *)
(*   do       <<id, order tuple>> for every order that is new or differs   *)
(*   newtr    the trades appended                                          *)
(*   now, trading, tvol, views   (complete, every call)                    *)
(* A "reset" event starts a new run on a fresh book.                       *)
(*                                                                         *)
(* Each event must be explained by the specification: the successor of the *)
(* current specification state under the logged label must show exactly    *)
(* the logged delta.  On top of that every property clause of BookProps is *)
(* evaluated at every event (step clauses, cheap state clauses) or at the  *)
(* audit events (complete state clauses).                                  *)
(***************************************************************************)
EXTENDS PyView, BookImpl, Json, IOUtils

Rec == ndJsonDeserialize(IOEnv.TRACE)

VARIABLES b,    \* specification book (reference engine, BookOps.tla)
          ib,   \* implementation-shaped book (BookImpl.tla) driven in lock-step
          istale, \* the implementation-shaped model no longer describes the code's internals (see ImplClauses)
          l,    \* index of the next event
          bad   \* "" or the name of the first failed clause (kept so that it can be reported)

tvars == <<b, ib, istale, l, bad>>

TInit ==
  /\ b = NewBook(0, 1, TRUE, 1)
  /\ ib = NewImpl(0, 1, TRUE, 1)
  /\ istale = FALSE
  /\ l = 1
  /\ bad = ""

\* ---- label of an event -------------------------------------------------
LabelOf(e) ==
  CASE e.op \in {"create", "cap"} ->
         [op |-> e.op, dt |-> e.dt, side |-> e.side, vol |-> e.vol, tr |-> e.tr,
          price |-> e.price, ret |-> e.ret]
    [] e.op \in {"place", "cancel"} -> [op |-> e.op, dt |-> e.dt, id |-> e.id]
    [] e.op = "modify" -> [op |-> "modify", dt |-> e.dt, id |-> e.id, p |-> e.p, v |-> e.v]
    [] e.op = "event"  -> [op |-> "event", dt |-> e.dt, k |-> e.k, id |-> e.id, p |-> e.p, v |-> e.v]
    [] e.op = "settime" -> [op |-> "settime", t |-> e.t]
    [] e.op = "reload"  -> [op |-> "reload", mode |-> e.mode]
    [] e.op = "bad"     -> [op |-> "bad", call |-> e.call, arg |-> e.arg, val |-> e.val]
    [] OTHER -> [op |-> e.op]

\* ---- does the specification successor show the logged delta? ------------
ChangedIds(old, new) ==
  {i \in Ids(new) : i >= NOrders(old) \/ O(new, i) # O(old, i)}

\* events recorded through the Python extension (py/pyrecord.py) carry what the Python OrderBook
\* shows, in Python's encoding; TLC compares with PyView's rendering of the successor state
IsPy(e) == "py" \in DOMAIN e

RustDelta(old, new, e) ==
  << <<"now",     new.now = e.now>>,
     <<"trading", new.trading = e.trading>>,
     <<"tvol",    new.tvol = e.tvol>>,
     <<"n_orders", NOrders(new) = e.no>>,
     <<"n_trades", Len(new.trades) = e.nt>>,
     <<"changed_orders", ChangedIds(old, new) = {e.do[k][1] : k \in 1..Len(e.do)}>>,
     <<"order_records", \A k \in 1..Len(e.do) :
                           /\ e.do[k][1] \in Ids(new)
                           /\ OrderTuple(O(new, e.do[k][1])) = e.do[k][2]>>,
     <<"new_trades", [k \in 1..Len(NewTrades(old, new)) |-> TradeTuple(NewTrades(old, new)[k])] = e.newtr>>,
     <<"views", ViewsAll(ViewsQ(new)) = e.views>>,
     <<"ret", ("ret" \in DOMAIN e) => RetOf(old, LabelOf(e)) = e.ret>> >>

PyDelta(old, new, e) ==
  << <<"py_n_orders", NOrders(new) = e.no>>,
     <<"py_n_trades", Len(new.trades) = e.nt>>,
     <<"py_changed_orders", ChangedIds(old, new) = {e.do[k][1] : k \in 1..Len(e.do)}>>,
     <<"py_order_tuples", \A k \in 1..Len(e.do) :
                           /\ e.do[k][1] \in Ids(new)
                           /\ PyOrder(O(new, e.do[k][1]), e.do[k][1]) = e.do[k][2]>>,
     <<"py_new_trades", [k \in 1..Len(NewTrades(old, new)) |-> PyTrade(NewTrades(old, new)[k])] = e.newtr>>,
     <<"py_scalars", PyBookScalars(new) = e.pv>>,
     <<"py_exception", e.op = "reset" \/ PyExc(old, LabelOf(e)) = e.exc>>,
     <<"py_ret", ("ret" \in DOMAIN e) => RetOf(old, LabelOf(e)) = e.ret>> >>

DeltaClauses(old, new, e) == IF IsPy(e) THEN PyDelta(old, new, e) ELSE RustDelta(old, new, e)

FirstFalse(cl) ==
  LET F == {k \in 1..Len(cl) : ~cl[k][2]} IN
  IF F = {} THEN "" ELSE cl[CHOOSE k \in F : \A j \in F : k <= j][1]

\* ---- property clauses, evaluated on the (validated) successor ------------
StepClauses(old, new, lbl) ==
  << <<"C01_TradesTakeHead", C01_TradesTakeHead(old, new, lbl)>>,
     <<"C01_Exhaustive", C01_Exhaustive(old, new, lbl)>>,
     <<"C01_RestsLast", C01_RestsLast(old, new, lbl)>>,
     <<"C03_AppendOnly", C03_AppendOnly(old, new)>>,
     <<"C03_NewTradesAdmitted", C03_NewTradesAdmitted(old, new)>>,
     <<"C04_Transitions", C04_Transitions(old, new)>>,
     <<"C04_NoOps", C04_NoOps(old, new, lbl)>>,
     <<"C06_Modify", C06_Modify(old, new, lbl)>>,
     <<"C12_RejectedCreate", C12_RejectedCreate(old, new, lbl)>>,
     <<"C13_NoTradesWhileOff", C13_NoTradesWhileOff(old, new, lbl)>>,
     <<"C13_MarketRejected", C13_MarketRejected(old, new, lbl)>>,
     <<"C13_ToggleStutters", C13_ToggleStutters(old, new, lbl)>>,
     <<"C02_ViewsConsistent", C02_ViewsConsistent(new)>>,
     <<"C02_NotCrossed", C02_NotCrossed(new)>>,
     <<"C03_Counter", C03_Counter(new)>> >>

\* The implementation-shaped model, bound to the code through the keys the JSON snapshot shows.
\* These clauses compare INTERNALS (the key an entry is stored under), about which the listed properties
\* say nothing: a correct re-implementation may key its entries differently.  A failure here is therefore
\* never a property violation - it only means that BookImpl.tla (and with it the refinement evidence of
\* BookImplMC) no longer describes this code.  It is recorded in register 2, reported once as
\* IMPL-DIVERGED, and the implementation clauses are switched off for the rest of the trace.
ChangedKeys(oi, ni) == {i \in IIds(ni) : i >= Len(oi.entries) \/ E(ni, i).key # E(oi, i).key}
ImplClauses(oi, ni, new, e) ==
  << <<"impl_refines_reference", Matches(ni, new)>>,
     <<"impl_changed_keys", ("dk" \in DOMAIN e) => ChangedKeys(oi, ni) = {e.dk[k][1] : k \in 1..Len(e.dk)}>>,
     <<"impl_keys", ("dk" \in DOMAIN e) => \A k \in 1..Len(e.dk) :
                       e.dk[k][1] \in IIds(ni) /\ E(ni, e.dk[k][1]).key = e.dk[k][2]>>,
     <<"impl_structures_consistent", e.audit => ImplConsistent(ni)>> >>

\* (C03_TimeOrdered presupposes the valid-history assumption "the clock is never moved backwards"; traces recorded
\* through the Python book, whose property C18 quantifies over every call sequence, also move it backwards and say so)
AuditClauses(bk, e) ==
  << <<"C01_QueueSorted", C01_QueueSorted(bk)>>,
     <<"C02_ViewsAgree", C02_ViewsAgree(bk)>>,
     <<"C03_WellFormed", C03_WellFormed(bk)>>,
     <<"C03_TimeOrdered", ("clock_was_moved_back" \in DOMAIN e) \/ C03_TimeOrdered(bk)>>,
     <<"C03_Conservation", C03_Conservation(bk)>>,
     <<"C04_State", C04_State(bk)>>,
     \* (with FollowF3 = TRUE the specification follows the code through off-grid modify requests - known finding F3 - and a
     \*  failure of C12_OnGrid on the specification's own state is recorded in register 3 instead of ending the validation)
     <<"C12_OnGrid", FollowF3 \/ C12_OnGrid(bk)>>,
     <<"C12_LevelsAccount", C12_LevelsAccount(bk)>> >>

\* ---- next-state relation -------------------------------------------------
Reset ==
  /\ l <= Len(Rec)
  /\ Rec[l].op = "reset"
  /\ LET e == Rec[l]  nb == NewBook(e.t0, e.tick, e.trading, e.levels) IN
     /\ FirstFalse(DeltaClauses(nb, nb, e)) = ""
     /\ b' = nb
     /\ ib' = NewImpl(e.t0, e.tick, e.trading, e.levels)
     /\ istale' = istale
  /\ l' = l + 1
  /\ bad' = bad

\* (F3, known finding: the code accepts an off-grid modify price and BookImpl models the code; with FollowF3 = FALSE traces
\* containing such a request stop at the reference mismatch; with FollowF3 = TRUE the reference follows the code, the
\* first event after which its own state breaks C12_OnGrid is kept in register 3, and everything else goes on being checked.)
Call ==
  /\ l <= Len(Rec)
  /\ Rec[l].op # "reset"
  /\ bad = ""
  /\ LET e   == Rec[l]
         lbl == LabelOf(e)
         old == PreOf(b, lbl)
         new == ApplyLbl(b, lbl)
         ni  == IApply(ib, lbl)
         d   == FirstFalse(DeltaClauses(b, new, e))
     IN
     /\ ib' = ni
     /\ IF d # "" THEN
          \* not a behaviour of the specification: stop here and say why
          /\ bad' = "MISMATCH:" \o d
          /\ b' = new
          /\ l' = l
          /\ istale' = istale
        ELSE
          LET c == FirstFalse(StepClauses(old, new, lbl))
              a == IF e.audit THEN FirstFalse(AuditClauses(new, e)) ELSE ""
              i == IF istale THEN "" ELSE FirstFalse(ImplClauses(ib, ni, new, e))
          IN
          /\ b' = new
          /\ (FollowF3 /\ TLCGet(3) = 0 /\ ~C12_OnGrid(new)) => TLCSet(3, l)
          /\ bad' = IF c # "" THEN "CLAUSE:" \o c ELSE IF a # "" THEN "CLAUSE:" \o a ELSE ""
          /\ istale' = (istale \/ (bad' = "" /\ i # "" /\ TLCSet(2, <<l, i>>)))
          /\ l' = IF bad' = "" THEN l + 1 ELSE l

TNext == Reset \/ Call
TSpec == TInit /\ [][TNext]_tvars

\* ---- acceptance ----------------------------------------------------------
\* register 1 holds the highest event index reached (run with -workers 1)
ASSUME TLCSet(1, 0) /\ TLCSet(2, <<0, "">>) /\ TLCSet(3, 0)
Track == TLCSet(1, MaxOf(TLCGet(1), l))
Accepted ==
  /\ (TLCGet(2)[1] = 0 \/ PrintT(<<"IMPL-DIVERGED", ToJson([at |-> TLCGet(2)[1], why |-> TLCGet(2)[2]])>>))
  /\ (TLCGet(3) = 0 \/ PrintT(<<"SPEC-FLAG", ToJson([flag |-> "F3", at |-> TLCGet(3), clause |-> "C12_OnGrid"])>>))
  /\ IF TLCGet(1) = Len(Rec) + 1
     THEN PrintT(<<"ACCEPTED", Len(Rec)>>)
     ELSE PrintT(<<"REJECTED", TLCGet(1)>>) /\ FALSE

\* printed when a trace stops: the event, the reason and what the specification expected
Report ==
  bad # "" =>
    PrintT(<<"TRACE-REJECT", ToJson([at |-> l, why |-> bad, event |-> Rec[l],
             spec_views |-> ViewsAll(ViewsQ(b)), spec_now |-> b.now, spec_tvol |-> b.tvol,
             spec_n_orders |-> NOrders(b), spec_n_trades |-> Len(b.trades),
             spec_changed |-> [k \in 1..Len(Rec[l].do) |->
                                 IF Rec[l].do[k][1] \in Ids(b)
                                 THEN <<Rec[l].do[k][1], OrderTuple(O(b, Rec[l].do[k][1]))>>
                                 ELSE <<Rec[l].do[k][1], "absent">>],
             spec_last_trades |-> [k \in 1..MinOf(Len(b.trades), 4) |->
                                     TradeTuple(b.trades[Len(b.trades) - MinOf(Len(b.trades), 4) + k])]])>>)
=============================================================================
