--------------------------------- MODULE Big ---------------------------------
(* Naturals up to 2^34 as base-2^16 digit pairs <<hi, lo>> (TLC integers are 32-bit). *)
EXTENDS Integers
BigLe(x, y) == x[1] < y[1] \/ (x[1] = y[1] /\ x[2] <= y[2])
BigGe(x, y) == BigLe(y, x)
\* residue modulo t, t < 2^15
BigMod(x, t) == ((x[1] % t) * (65536 % t) + (x[2] % t)) % t
BigSmall(x) == x[1] < 16384                \* fits a TLC integer
BigVal(x) == x[1] * 65536 + x[2]           \* only when BigSmall(x)
BigWellFormed(x) == x[1] >= 0 /\ x[2] >= 0 /\ x[2] < 65536
\* twice x (x below 2^33)
BigDbl(x) == <<2 * x[1] + (2 * x[2]) \div 65536, (2 * x[2]) % 65536>>
\* x - y as a TLC integer, when the two are less than 2^30 apart
BigNear(x, y) == x[1] - y[1] < 16384 /\ y[1] - x[1] < 16384
BigDiff(x, y) == (x[1] - y[1]) * 65536 + (x[2] - y[2])
=============================================================================
