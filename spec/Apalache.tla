------------------------------ MODULE Apalache ------------------------------
(***************************************************************************)
(* TLC-side stand-in for Apalache's standard module, so that BookInd.tla   *)
(* (written for apalache-mc) can also be evaluated by TLC (BookIndMC.tla). *)
(* apalache-mc never sees this file: it is run on a copy of BookInd.tla in *)
(* a directory of its own and uses its built-in module.                    *)
(***************************************************************************)
EXTENDS Integers, Sequences

RECURSIVE ApaFoldSeqLeft(_, _, _)
ApaFoldSeqLeft(Op(_, _), v, seq) ==
  IF seq = <<>> THEN v ELSE ApaFoldSeqLeft(Op, Op(v, Head(seq)), Tail(seq))

\* only used in IndInit, which TLC never evaluates
Gen(size) == CHOOSE x \in {} : TRUE
=============================================================================
