------------------------------ MODULE BookOps ------------------------------
(***************************************************************************)
(* Pure operators on an order-book record: the reference price-time        *)
(* matching engine of bourse (crates/order_book).  No variables here, so   *)
(* Book.tla (one book), Market.tla (asset -> book) and Env.tla (batched    *)
(* steps) all reuse exactly these definitions.                             *)
(*                                                                         *)
(* Order ids are 0-based as in the code; b.orders is a sequence, so order  *)
(* id i lives at index i + 1.  Time priority is POSITION in the queue      *)
(* sequence (b.qb / b.qa, best first), deliberately not a timestamp key.   *)
(***************************************************************************)
EXTENDS Integers, Sequences, FiniteSets, SequencesExt

CONSTANTS MaxPrice    \* stands for the code's Price::MAX sentinel

None == -1            \* "no value" for optional prices / volumes / end time

MinOf(x, y) == IF x <= y THEN x ELSE y
MaxOf(x, y) == IF x >= y THEN x ELSE y
Opp(s) == IF s = "B" THEN "A" ELSE "B"

SumSeq(s) == FoldLeft(LAMBDA a, x : a + x, 0, s)

SeqToSet(s) == {s[i] : i \in 1..Len(s)}
RemoveFromSeq(s, x) == SelectSeq(s, LAMBDA y : y # x)

---------------------------------------------------------------------------
(* Construction and accessors *)

NewBook(t0, tick, trading, nlev) ==
  [ now     |-> t0,
    nlev    |-> nlev,    \* number of published price levels (LEVELS)
    tick    |-> tick,
    trading |-> trading,
    tvol    |-> 0,
    orders  |-> <<>>,
    trades  |-> <<>>,
    qb      |-> <<>>,      \* bid queue: ids, best (highest price, earliest) first
    qa      |-> <<>>,      \* ask queue: ids, best (lowest price, earliest) first
    \* ---- ghost / history fields (never observable, used by properties) ----
    everOff |-> ~trading,  \* trading has been disabled at some point
    given   |-> <<>>,      \* per order: volume handed to it by create/modify
    qn      |-> <<>>,      \* per order: global enqueue counter of last enqueue (0 = never)
    qt      |-> <<>>,      \* per order: book time of last enqueue (None = never)
    nq      |-> 0,         \* number of enqueues so far
    resetAt |-> 0 ]        \* Len(trades) at the last reset of tvol

NOrders(b) == Len(b.orders)
Ids(b) == 0..(NOrders(b) - 1)
O(b, id) == b.orders[id + 1]
Q(b, s) == IF s = "B" THEN b.qb ELSE b.qa
SetQ(b, s, q) == IF s = "B" THEN [b EXCEPT !.qb = q] ELSE [b EXCEPT !.qa = q]

IsMkt(o) == \/ o.side = "B" /\ o.price = MaxPrice
            \/ o.side = "A" /\ o.price = 0

\* MaxPrice stands for 2^32 - 1, whose residue is computed without leaving TLC's 32-bit
\* integers: 2^32 - 1 = 65536 * 65536 - 1  (tick sizes below 2^15)
OnGrid(b, p) ==
  IF p = MaxPrice THEN (((65536 % b.tick) * (65536 % b.tick)) + b.tick - 1) % b.tick = 0
  ELSE p % b.tick = 0

\* p1 strictly better than p2 for a resting order on side s
Better(s, p1, p2) == IF s = "B" THEN p1 > p2 ELSE p1 < p2

\* an aggressor on side s with limit `lim` accepts a resting price pp
Admits(s, lim, pp) == IF s = "B" THEN lim >= pp ELSE lim <= pp

\* queue after inserting id (price p) behind every order whose price is
\* better than or equal to p
InsertQ(b, s, id, p) ==
  LET q == Q(b, s)
      k == Cardinality({i \in 1..Len(q) : ~Better(s, p, O(b, q[i]).price)})
  IN  SubSeq(q, 1, k) \o <<id>> \o SubSeq(q, k + 1, Len(q))

Enqueue(b, id) ==
  LET o  == O(b, id)
      b1 == SetQ(b, o.side, InsertQ(b, o.side, id, o.price))
  IN  [b1 EXCEPT !.nq = b.nq + 1,
                 !.qn[id + 1] = b.nq + 1,
                 !.qt[id + 1] = b.now]

Dequeue(b, id) == SetQ(b, O(b, id).side, RemoveFromSeq(Q(b, O(b, id).side), id))

---------------------------------------------------------------------------
(* Matching: aggressor `id` against the opposite queue *)

RECURSIVE Match(_, _)
Match(b, id) ==
  LET o  == O(b, id)
      oq == Q(b, Opp(o.side))
  IN
  IF o.vol = 0 \/ oq = <<>> THEN b
  ELSE
    LET h == Head(oq)
        p == O(b, h)
    IN
    IF ~Admits(o.side, o.price, p.price) THEN b
    ELSE
      LET v  == MinOf(o.vol, p.vol)
          tr == [t |-> b.now, side |-> p.side, price |-> p.price, vol |-> v,
                 agg |-> id, pas |-> h]
          p2 == IF p.vol = v
                THEN [p EXCEPT !.vol = 0, !.status = "Filled", !.end = b.now]
                ELSE [p EXCEPT !.vol = p.vol - v]
          o2 == IF o.vol = v
                THEN [o EXCEPT !.vol = 0, !.status = "Filled", !.end = b.now]
                ELSE [o EXCEPT !.vol = o.vol - v]
          b2 == [b EXCEPT !.orders[h + 1] = p2,
                          !.orders[id + 1] = o2,
                          !.trades = Append(b.trades, tr),
                          !.tvol = b.tvol + v]
          b3 == IF p2.vol = 0 THEN SetQ(b2, p.side, Tail(oq)) ELSE b2
      IN Match(b3, id)

---------------------------------------------------------------------------
(* Public operations.  Each returns the successor book. *)

\* create_order.  price = None means a market order.  Off-grid => unchanged.
CreateOK(b, price) == price = None \/ OnGrid(b, price)

CreateF(b, side, vol, trader, price) ==
  IF ~CreateOK(b, price) THEN b
  ELSE
    LET p == IF price # None THEN price
             ELSE IF side = "B" THEN MaxPrice ELSE 0
        o == [side |-> side, status |-> "New", arr |-> b.now, end |-> None,
              vol |-> vol, start |-> vol, price |-> p, trader |-> trader]
    IN [b EXCEPT !.orders = Append(b.orders, o),
                 !.given  = Append(b.given, vol),
                 !.qn     = Append(b.qn, 0),
                 !.qt     = Append(b.qt, None)]

\* id returned by a successful creation on b
NextId(b) == NOrders(b)

\* place_order
PlaceF(b, id) ==
  LET o == O(b, id) IN
  IF o.status # "New" THEN b
  ELSE
    LET b1 == [b EXCEPT !.orders[id + 1].status = "Active",
                        !.orders[id + 1].arr = b.now]
    IN
    IF IsMkt(o)
    THEN IF b.trading
         THEN LET b2 == Match(b1, id) IN
              IF O(b2, id).status = "Filled" THEN b2
              ELSE [b2 EXCEPT !.orders[id + 1].status = "Cancelled",
                              !.orders[id + 1].end = b.now]
         ELSE [b1 EXCEPT !.orders[id + 1].status = "Rejected",
                         !.orders[id + 1].end = b.now]
    ELSE LET b2 == IF b.trading THEN Match(b1, id) ELSE b1 IN
         IF O(b2, id).status = "Filled" THEN b2 ELSE Enqueue(b2, id)

CancelF(b, id) ==
  IF O(b, id).status # "Active" THEN b
  ELSE LET b1 == Dequeue(b, id) IN
       [b1 EXCEPT !.orders[id + 1].status = "Cancelled",
                  !.orders[id + 1].end = b.now]

\* Known finding F3 (C12) as a named deviation.  The property says an off-grid price is never accepted; the code's
\* modify_order has no grid check.  With FollowF3 = FALSE (the default, the property) a modify request with an off-grid price
\* changes nothing; with FollowF3 = TRUE (substituted in the configs of the stages that submit such requests) the
\* specification does what the code does, so that the rest of such a history is still checked clause by clause and state by
\* state - the deviation itself then shows as a failure of C12_OnGrid on the specification's OWN state, which is how the
\* known finding is recognised (never by the mere presence of such a request in a history).
FollowF3 == FALSE

\* which branch modify_order takes
ModKind(b, id, np, nv) ==
  IF O(b, id).status # "Active" THEN "noop"
  ELSE IF np = None /\ nv = None THEN "noop"
  ELSE IF np # None /\ ~OnGrid(b, np) /\ ~FollowF3 THEN "noop"   \* C12: an off-grid price is never accepted
  ELSE IF np = None /\ nv < O(b, id).vol THEN "reduce"
  ELSE "replace"

ModifyF(b, id, np, nv) ==
  LET o == O(b, id)
      k == ModKind(b, id, np, nv)
  IN
  IF k = "noop" THEN b
  ELSE IF k = "reduce"
  THEN [b EXCEPT !.orders[id + 1].vol = nv,
                 !.given[id + 1] = b.given[id + 1] - (o.vol - nv)]
  ELSE
    LET p  == IF np = None THEN o.price ELSE np
        v  == IF nv = None THEN o.vol ELSE nv
        b1 == Dequeue(b, id)
        b2 == [b1 EXCEPT !.orders[id + 1].vol = v,
                         !.orders[id + 1].price = p,
                         !.given[id + 1] = b.given[id + 1] + (v - o.vol)]
        b3 == IF b.trading THEN Match(b2, id) ELSE b2
    IN IF O(b3, id).status = "Filled" THEN b3 ELSE Enqueue(b3, id)

\* an instruction: [k |-> "new" | "cancel" | "modify", id |-> .., p |-> .., v |-> ..]
EventF(b, e) ==
  CASE e.k = "new"    -> PlaceF(b, e.id)
    [] e.k = "cancel" -> CancelF(b, e.id)
    [] e.k = "modify" -> ModifyF(b, e.id, e.p, e.v)

SetTimeF(b, t) == [b EXCEPT !.now = t]
EnableF(b)     == [b EXCEPT !.trading = TRUE]
DisableF(b)    == [b EXCEPT !.trading = FALSE, !.everOff = TRUE]
ResetTVolF(b)  == [b EXCEPT !.tvol = 0, !.resetAt = Len(b.trades)]

\* Drain probe: with trading enabled and the clock advanced by one, a market sell
\* for the whole bid volume and then a market buy for the whole ask volume.  The
\* trades it makes spell out the complete priority order of both queues.
DrainF(b) ==
  LET b0 == SetTimeF(EnableF(b), b.now + 1)
      bv == SumSeq([i \in 1..Len(b0.qb) |-> O(b0, b0.qb[i]).vol])
      b1 == IF bv > 0 THEN PlaceF(CreateF(b0, "A", bv, 0, None), NextId(b0)) ELSE b0
      av == SumSeq([i \in 1..Len(b1.qa) |-> O(b1, b1.qa[i]).vol])
  IN  IF av > 0 THEN PlaceF(CreateF(b1, "B", av, 0, None), NextId(b1)) ELSE b1

---------------------------------------------------------------------------
(* Views computed from the queues (the observation function) *)

QVols(b, s) == [i \in 1..Len(Q(b, s)) |-> O(b, Q(b, s)[i]).vol]

BestBid(b) == IF b.qb = <<>> THEN 0 ELSE O(b, Head(b.qb)).price
BestAsk(b) == IF b.qa = <<>> THEN MaxPrice ELSE O(b, Head(b.qa)).price
Touch(b, s) == IF s = "B" THEN BestBid(b) ELSE BestAsk(b)

SideVol(b, s) == SumSeq(QVols(b, s))

\* <<volume, count>> of the orders queued on side s at price p
AtPriceQ(b, s, p) ==
  LET ids == SelectSeq(Q(b, s), LAMBDA i : O(b, i).price = p)
  IN  <<SumSeq([k \in 1..Len(ids) |-> O(b, ids[k]).vol]), Len(ids)>>

BestVolOrders(b, s) ==
  IF Q(b, s) = <<>> THEN <<0, 0>> ELSE AtPriceQ(b, s, O(b, Head(Q(b, s))).price)

\* price of published level i (0-based) on side s, or None if out of range
LevelPrice(b, s, i) ==
  IF s = "B" THEN (IF BestBid(b) - i * b.tick >= 0 THEN BestBid(b) - i * b.tick ELSE None)
  ELSE (IF BestAsk(b) + i * b.tick <= MaxPrice THEN BestAsk(b) + i * b.tick ELSE None)

LevelsQ(b, s) ==
  [i \in 1..b.nlev |->
     IF Q(b, s) = <<>> \/ LevelPrice(b, s, i - 1) = None THEN <<0, 0>>
     ELSE AtPriceQ(b, s, LevelPrice(b, s, i - 1))]

Mid2(b) == BestBid(b) + BestAsk(b)    \* twice the mid-price

ViewsQ(b) ==
  [ bid  |-> BestBid(b),  ask  |-> BestAsk(b),
    bvol |-> SideVol(b, "B"), avol |-> SideVol(b, "A"),
    bbest |-> BestVolOrders(b, "B"), abest |-> BestVolOrders(b, "A"),
    blev |-> LevelsQ(b, "B"), alev |-> LevelsQ(b, "A"),
    mid2 |-> Mid2(b) ]

\* The redundant getters (bid_best_vol, level_1_data, level_2_data), which must
\* agree with the primary ones.
ViewsAll(v) ==
  [ bid |-> v.bid, ask |-> v.ask, bvol |-> v.bvol, avol |-> v.avol,
    bbest |-> v.bbest, abest |-> v.abest, blev |-> v.blev, alev |-> v.alev,
    mid2 |-> v.mid2,
    bv |-> <<v.bbest[1], v.abest[1]>>,
    l1 |-> <<v.bid, v.ask, v.bvol, v.avol, v.bbest[1], v.abest[1], v.bbest[2], v.abest[2]>>,
    l2 |-> <<v.bid, v.ask, v.bvol, v.avol, v.blev, v.alev>> ]

---------------------------------------------------------------------------
(* The same views recomputed from the order table alone (C02): only the   *)
(* public Order records are used, no queue.                                *)

ActiveIds(orders, s) ==
  {i \in 1..Len(orders) : orders[i].status = "Active" /\ orders[i].side = s}

SetMax(S) == CHOOSE x \in S : \A y \in S : y <= x
SetMin(S) == CHOOSE x \in S : \A y \in S : y >= x

\* sum of f[x] over x in S, for f a sequence and S a subset of its domain
SumOver(S, f) == SumSeq([i \in 1..Len(f) |-> IF i \in S THEN f[i] ELSE 0])

TouchO(orders, s) ==
  LET A == ActiveIds(orders, s) IN
  IF A = {} THEN (IF s = "B" THEN 0 ELSE MaxPrice)
  ELSE IF s = "B" THEN SetMax({orders[i].price : i \in A})
       ELSE SetMin({orders[i].price : i \in A})

VolsO(orders) == [i \in 1..Len(orders) |-> orders[i].vol]

AtPriceO(orders, s, p) ==
  LET S == {i \in ActiveIds(orders, s) : orders[i].price = p}
  IN  <<SumOver(S, VolsO(orders)), Cardinality(S)>>

LevelsO(orders, tick, nlev, s) ==
  LET A == ActiveIds(orders, s)
      t == TouchO(orders, s)
  IN [i \in 1..nlev |->
       IF A = {} THEN <<0, 0>>
       ELSE LET p == IF s = "B" THEN t - (i - 1) * tick ELSE t + (i - 1) * tick
            IN IF p < 0 \/ p > MaxPrice THEN <<0, 0>> ELSE AtPriceO(orders, s, p)]

ViewsO(orders, tick, nlev) ==
  [ bid  |-> TouchO(orders, "B"), ask |-> TouchO(orders, "A"),
    bvol |-> SumOver(ActiveIds(orders, "B"), VolsO(orders)),
    avol |-> SumOver(ActiveIds(orders, "A"), VolsO(orders)),
    bbest |-> IF ActiveIds(orders, "B") = {} THEN <<0, 0>>
              ELSE AtPriceO(orders, "B", TouchO(orders, "B")),
    abest |-> IF ActiveIds(orders, "A") = {} THEN <<0, 0>>
              ELSE AtPriceO(orders, "A", TouchO(orders, "A")),
    blev |-> LevelsO(orders, tick, nlev, "B"), alev |-> LevelsO(orders, tick, nlev, "A"),
    mid2 |-> TouchO(orders, "B") + TouchO(orders, "A") ]

---------------------------------------------------------------------------
(* Projection: everything the public API can show, in the JSON shape the  *)
(* replayers and recorders use.                                            *)

OrderTuple(o) == <<o.side, o.status, o.arr, o.end, o.vol, o.start, o.price, o.trader>>
TradeTuple(t) == <<t.t, t.side, t.price, t.vol, t.agg, t.pas>>

Proj(b) ==
  [ now |-> b.now, trading |-> b.trading, tvol |-> b.tvol,
    orders |-> [i \in 1..Len(b.orders) |-> OrderTuple(b.orders[i])],
    trades |-> [i \in 1..Len(b.trades) |-> TradeTuple(b.trades[i])],
    views |-> ViewsAll(ViewsQ(b)) ]

=============================================================================
