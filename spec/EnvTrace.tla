------------------------------ MODULE EnvTrace ------------------------------
(***************************************************************************)
(* Validation of traces recorded from the real simulation environments     *)
(* (bourse_de::Env, bourse_de::MarketEnv; harness/src/bin/record_env.rs)   *)
(* against MarketOps.tla: C08, C10, C11, C14 and, through the books, every *)
(* book-level clause, on long random runs with batches of any size.        *)
(*                                                                         *)
(* One event per public call (submission, step, trading toggle), carrying  *)
(* the delta of the complete public projection per asset plus the          *)
(* environment's own observables (instruction queue, cached level-2 data,  *)
(* recorded series).  A step processes the queue in SOME permutation:      *)
(*  - UseHook = TRUE:  the event carries the processing order reported by  *)
(*    the verif_schedule hook; TLC checks that it is a permutation of the  *)
(*    queue and that the specification's step under that permutation shows *)
(*    exactly the logged delta (linear);                                   *)
(*  - UseHook = FALSE: the order is not used.  The step is taken in small  *)
(*    silent steps (StepBegin, Process(i), StepEnd) and TLC searches for a *)
(*    schedule that explains the logged outcome, pruning with what the log *)
(*    already reveals (arrival / end times, trade log prefix).  Acceptance *)
(*    = some schedule exists.                                              *)
(***************************************************************************)
EXTENDS MarketOps, Json, IOUtils

CONSTANT UseHook

Rec == ndJsonDeserialize(IOEnv.TRACE)

VARIABLES m,    \* specification environment
          l,    \* index of the next event
          st,   \* step in progress (inference mode): [on, left, k, start, books]
          bad   \* "" or the first failed clause

tvars == <<m, l, st, bad>>
Idle == [on |-> FALSE, left |-> {}, k |-> 0, start |-> 0, books |-> <<>>]

TInit ==
  /\ m = NewEnv(0, <<1>>, 1, TRUE, 1)
  /\ l = 1
  /\ st = Idle
  /\ bad = ""

FirstFalse(cl) ==
  LET F == {k \in 1..Len(cl) : ~cl[k][2]} IN
  IF F = {} THEN "" ELSE cl[CHOOSE k \in F : \A j \in F : k <= j][1]

\* ---- per-asset delta of the book projection --------------------------------------
ChangedIds(old, new) == {i \in Ids(new) : i >= NOrders(old) \/ O(new, i) # O(old, i)}

BookDelta(a, ob, nb, eb) ==
  LET pre == "asset" \o ToString(a - 1) \o "." IN
  << <<pre \o "trading", nb.trading = eb.trading>>,
     <<pre \o "tvol", nb.tvol = eb.tvol>>,
     <<pre \o "n_orders", NOrders(nb) = eb.no>>,
     <<pre \o "n_trades", Len(nb.trades) = eb.nt>>,
     <<pre \o "changed_orders", ChangedIds(ob, nb) = {eb.do[k][1] : k \in 1..Len(eb.do)}>>,
     <<pre \o "order_records", \A k \in 1..Len(eb.do) :
                                  /\ eb.do[k][1] \in Ids(nb)
                                  /\ OrderTuple(O(nb, eb.do[k][1])) = eb.do[k][2]>>,
     <<pre \o "new_trades", [k \in 1..Len(NewTrades(ob, nb)) |-> TradeTuple(NewTrades(ob, nb)[k])] = eb.newtr>>,
     <<pre \o "views", ViewsAll(ViewsQ(nb)) = eb.views>> >>

RECURSIVE BooksDelta(_, _, _, _)
BooksDelta(old, new, e, a) ==
  IF a > Len(new.books) THEN <<>>
  ELSE BookDelta(a, old.books[a], new.books[a], e.books[a]) \o BooksDelta(old, new, e, a + 1)

RecLast(x, a) ==
  LET r == RecViews(x, a)  nl == x.books[a].nlev IN
  [ prices  |-> <<Last(r.prices[1]), Last(r.prices[2])>>,
    volumes |-> <<Last(r.volumes[1]), Last(r.volumes[2])>>,
    touch_vols   |-> <<Last(r.touch_vols[1]), Last(r.touch_vols[2])>>,
    touch_counts |-> <<Last(r.touch_counts[1]), Last(r.touch_counts[2])>>,
    bid_level_vols   |-> [i \in 1..nl |-> Last(r.bid_level_vols[i])],
    bid_level_counts |-> [i \in 1..nl |-> Last(r.bid_level_counts[i])],
    ask_level_vols   |-> [i \in 1..nl |-> Last(r.ask_level_vols[i])],
    ask_level_counts |-> [i \in 1..nl |-> Last(r.ask_level_counts[i])],
    rec_prices  |-> <<Last(r.rec_prices[1]), Last(r.rec_prices[2])>>,
    rec_volumes |-> <<Last(r.rec_volumes[1]), Last(r.rec_volumes[2])>>,
    trade_vols |-> Last(r.trade_vols) ]

\* events of a simulation environment carry the environment's own observables; events recorded from a
\* plain Market (record_market.rs) carry the all-asset queries instead
IsEnvEv(e) == "pending" \in DOMAIN e

EnvDelta(old, new, e) ==
  << <<"assets", Len(e.books) = Len(new.books)>>,
     <<"now", \A a \in 1..Len(new.books) : new.books[a].now = e.now>>,
     <<"pending_queue", IsEnvEv(e) => [k \in 1..Len(new.pending) |-> InstrTuple(new.pending[k])] = e.pending>>,
     <<"nsteps", IsEnvEv(e) => new.nsteps = e.nsteps>>,
     <<"env_order_and_trade_getters_show_the_books_records", IsEnvEv(e) => e.env_getters_agree>>,
     <<"cached_level2", IsEnvEv(e) => new.l2 = e.l2>>,
     <<"record_lengths", IsEnvEv(e) => \A a \in 1..Len(new.books) : Len(new.rec[a]) = e.rec_len[a] /\ Len(new.tvols[a]) = e.rec_len[a]>>,
     <<"record_last_entries", IsEnvEv(e) => \A a \in 1..Len(new.books) : e.rec_len[a] > 0 => RecLast(new, a) = e.rec_last[a]>>,
     <<"record_series", ("rec" \in DOMAIN e) => \A a \in 1..Len(new.books) : RecViews(new, a) = e.rec[a]>>,
     <<"all_asset_queries", ("mkt" \in DOMAIN e) => MktViews(new) = e.mkt>> >>
  \o BooksDelta(old, new, e, 1)

\* ---- property clauses on the (validated) successor ------------------------------------
LabelOf(e) ==
  IF e.op = "submit" THEN
    (IF e.k = "new"
     THEN [op |-> "submit", k |-> "new", a |-> e.a, side |-> e.side, vol |-> e.vol, tr |-> e.tr, price |-> e.price, ret |-> e.ret]
     ELSE [op |-> "submit", k |-> e.k, a |-> e.a, id |-> e.id, p |-> e.p, v |-> e.v])
  ELSE [op |-> e.op]

EnvClauses(old, new, lbl, audit) ==
  << <<"C10_SubmitInvisible", C10_SubmitInvisible(old, new, lbl)>>,
     <<"C10_L2AsOfLastStep", C10_L2AsOfLastStep(new)>>,
     <<"C08_StepShape", C08_StepShape(old, new, lbl)>>,
     <<"C11_Records", C11_Records(new)>>,
     <<"C14_SharedClock", C14_SharedClock(new)>>,
     <<"submit_ret", (lbl.op = "submit" /\ lbl.k = "new") => RetSubmit(old, lbl) = lbl.ret>>,
     <<"toggle_stutters", lbl.op \in {"enable", "disable"} =>
          \A a \in 1..Len(new.books) : C13_ToggleStutters(old.books[a], new.books[a], lbl)>>,
     <<"C01_QueueSorted", audit => \A a \in 1..Len(new.books) : C01_QueueSorted(new.books[a])>>,
     <<"C02_ViewsAgree", audit => \A a \in 1..Len(new.books) : C02_ViewsAgree(new.books[a])>>,
     <<"C02_ViewsConsistent", audit => \A a \in 1..Len(new.books) : C02_ViewsConsistent(new.books[a])>>,
     <<"C03_WellFormed", audit => \A a \in 1..Len(new.books) : C03_WellFormed(new.books[a])>>,
     <<"C03_Conservation", audit => \A a \in 1..Len(new.books) : C03_Conservation(new.books[a])>>,
     <<"C04_State", audit => \A a \in 1..Len(new.books) : C04_State(new.books[a])>>,
     <<"C12_OnGrid", audit => \A a \in 1..Len(new.books) : C12_OnGrid(new.books[a])>>,
     <<"C12_LevelsAccount", audit => \A a \in 1..Len(new.books) : C12_LevelsAccount(new.books[a])>>,
     <<"C02_NotCrossed", \A a \in 1..Len(new.books) : C02_NotCrossed(new.books[a])>>,
     <<"C03_Counter", \A a \in 1..Len(new.books) : C03_Counter(new.books[a])>> >>

\* one processed instruction as a book-level step: every step clause of BookProps
InstrLabel(x) == [op |-> "event", dt |-> 0, k |-> x.k, id |-> x.id, p |-> x.p, v |-> x.v]
ProcessOK(books, x, t) ==
  LET ob == SetTimeF(books[x.a + 1], t)
      nb == EventF(ob, x)
  IN StepOK(ob, nb, InstrLabel(x))

\* ---- the processing order reported by the hook ---------------------------------------------
\* perm[k] = smallest not yet used queue index whose instruction equals sched[k]; 0 if there is none
RECURSIVE MatchSched(_, _, _, _)
MatchSched(pending, sched, k, used) ==
  IF k > Len(sched) THEN <<>>
  ELSE LET C == {i \in 1..Len(pending) : i \notin used /\ InstrTuple(pending[i]) = sched[k]}
           i == IF C = {} THEN 0 ELSE CHOOSE x \in C : \A y \in C : x <= y
       IN <<i>> \o MatchSched(pending, sched, k + 1, used \cup {i})

\* first instruction of the fold whose book-level step violates a clause (0 = none)
RECURSIVE FoldBad(_, _, _, _, _)
FoldBad(books, pending, perm, start, k) ==
  IF k > Len(pending) THEN 0
  ELSE IF ~ProcessOK(books, pending[perm[k]], start + k - 1) THEN k
  ELSE FoldBad(ProcessF(books, pending[perm[k]], start + k - 1), pending, perm, start, k + 1)

\* ---- next-state relation ---------------------------------------------------------------
Reset ==
  /\ l <= Len(Rec) /\ Rec[l].op = "reset" /\ ~st.on
  /\ LET e == Rec[l]  nm == NewEnv(e.t0, e.ticks, e.step, e.trading, e.levels) IN
     /\ bad' = (IF FirstFalse(EnvDelta(nm, nm, e)) = "" THEN "" ELSE "MISMATCH:" \o FirstFalse(EnvDelta(nm, nm, e)))
     /\ m' = nm
  /\ l' = IF bad' = "" THEN l + 1 ELSE l
  /\ st' = Idle

Finish(e, old, new, lbl) ==
  LET d == FirstFalse(EnvDelta(old, new, e))
      c == IF d # "" THEN "" ELSE FirstFalse(EnvClauses(old, new, lbl, e.audit))
  IN /\ m' = new
     /\ bad' = IF d # "" THEN "MISMATCH:" \o d ELSE IF c # "" THEN "CLAUSE:" \o c ELSE ""
     /\ l' = IF bad' = "" THEN l + 1 ELSE l

\* submissions and trading toggles
Call ==
  /\ l <= Len(Rec) /\ Rec[l].op \in {"submit", "enable", "disable"} /\ IsEnvEv(Rec[l]) /\ bad = "" /\ ~st.on
  /\ LET e == Rec[l]  lbl == LabelOf(e) IN Finish(e, m, ApplyEnv(m, lbl, <<>>), lbl)
  /\ st' = Idle

\* ---- direct operations on a Market (C14): one book addressed, or the clock / flags fanned out ----
MktLabelOf(e) ==
  CASE e.op \in {"create", "cap"} -> [op |-> e.op, a |-> e.a, side |-> e.side, vol |-> e.vol, tr |-> e.tr, price |-> e.price, ret |-> e.ret]
    [] e.op \in {"place", "cancel"} -> [op |-> e.op, a |-> e.a, id |-> e.id]
    [] e.op = "modify" -> [op |-> "modify", a |-> e.a, id |-> e.id, p |-> e.p, v |-> e.v]
    [] e.op = "event"  -> [op |-> "event", a |-> e.a, k |-> e.k, id |-> e.id, p |-> e.p, v |-> e.v]
    [] e.op = "settime" -> [op |-> "settime", t |-> e.t]
    [] e.op = "reload"  -> [op |-> "reload", mode |-> e.mode]
    [] OTHER -> [op |-> e.op]

MktClauses(old, new, lbl, audit) ==
  << <<"C14_SharedClock", C14_SharedClock(new)>>,
     <<"C14_other_assets_untouched", lbl.op \in PerAsset =>
          \A a \in 1..Len(new.books) : a # lbl.a + 1 => new.books[a] = old.books[a]>>,
     <<"C14_ids_are_per_asset_sequence_numbers", lbl.op \in {"create", "cap"} => RetMkt(old, lbl) = lbl.ret>>,
     <<"book_step_clauses", lbl.op \in PerAsset => StepOK(old.books[lbl.a + 1], new.books[lbl.a + 1], lbl)>>,
     <<"fan_out_step_clauses", lbl.op \notin PerAsset =>
          \A a \in 1..Len(new.books) : StepOK(old.books[a], new.books[a], lbl)>>,
     <<"book_state_clauses", audit => \A a \in 1..Len(new.books) : StateOK(new.books[a]) /\ C03_TimeOrdered(new.books[a])>> >>

MktCall ==
  /\ l <= Len(Rec) /\ bad = "" /\ ~st.on
  /\ Rec[l].op \in PerAsset \cup {"settime", "resettv", "reload"} \/ (Rec[l].op \in {"enable", "disable"} /\ ~IsEnvEv(Rec[l]))
  /\ LET e == Rec[l]  lbl == MktLabelOf(e)  new == ApplyMkt(m, lbl)
         d == FirstFalse(EnvDelta(m, new, e))
         c == IF d # "" THEN "" ELSE FirstFalse(MktClauses(m, new, lbl, e.audit))
     IN /\ m' = new
        /\ bad' = IF d # "" THEN "MISMATCH:" \o d ELSE IF c # "" THEN "CLAUSE:" \o c ELSE ""
        /\ l' = IF bad' = "" THEN l + 1 ELSE l
  /\ st' = Idle

\* a step whose processing order the hook reported
StepHook ==
  /\ UseHook
  /\ l <= Len(Rec) /\ Rec[l].op = "step" /\ bad = "" /\ ~st.on
  /\ LET e == Rec[l]
         perm == MatchSched(m.pending, e.sched, 1, {})
         isperm == Len(e.sched) = Len(m.pending) /\ \A k \in 1..Len(perm) : perm[k] # 0
     IN IF ~isperm
        THEN /\ bad' = "CLAUSE:C08_schedule_is_a_permutation_of_the_queue"
             /\ UNCHANGED <<m, l>>
        ELSE LET start == m.books[1].now
                 b0 == [a \in 1..Len(m.books) |-> ResetTVolF(m.books[a])]
                 fb == FoldBad(b0, m.pending, perm, start, 1)
             IN IF fb # 0
                THEN /\ bad' = "CLAUSE:book_step_clauses_at_processed_instruction_" \o ToString(fb)
                     /\ UNCHANGED <<m, l>>
                ELSE Finish(e, m, StepF(m, perm), [op |-> "step"])
  /\ st' = Idle

\* ---- inference mode: the step in small silent steps -----------------------------------------
StepBegin ==
  /\ ~UseHook
  /\ l <= Len(Rec) /\ Rec[l].op = "step" /\ bad = "" /\ ~st.on
  /\ st' = [on |-> TRUE, left |-> 1..Len(m.pending), k |-> 0, start |-> m.books[1].now,
            books |-> [a \in 1..Len(m.books) |-> ResetTVolF(m.books[a])]]
  /\ UNCHANGED <<m, l, bad>>

\* what the log says order id of asset a looks like after the step
FinalTuple(e, a, id) ==
  LET eb == e.books[a]
      K == {k \in 1..Len(eb.do) : eb.do[k][1] = id}
  IN IF K = {} THEN OrderTuple(O(m.books[a], id)) ELSE eb.do[CHOOSE k \in K : TRUE][2]

\* facts that can no longer change during the rest of the step must already agree with the log
Consistent(books, e) ==
  \A a \in 1..Len(books) :
    LET nb == books[a]  ob == m.books[a]  T == NewTrades(ob, nb) IN
    /\ Len(T) <= Len(e.books[a].newtr)
    /\ \A k \in 1..Len(T) : TradeTuple(T[k]) = e.books[a].newtr[k]
    /\ \A id \in Ids(nb) :
         LET o == O(nb, id)  f == FinalTuple(e, a, id) IN
         /\ o.status # "New" => f[3] = o.arr
         /\ o.status \in Terminal => OrderTuple(o) = f

\* Which instructions can be processed at the current slot.  Sound pruning only - every rule follows
\* from facts the log states about the END of the step and that cannot have another cause:
\*  - an order's arrival time is set exactly when its "new" instruction is processed, and slot times
\*    are distinct, so that instruction owns the slot start + k = logged arrival time;
\*  - trades stamped start + k are made by the instruction processed at slot k, whose order is their
\*    aggressor;
\*  - an active limit order that ends Cancelled with end time start + k was cancelled at slot k, by a
\*    cancel instruction for it;
\*  - instructions for orders that are already terminal are no-ops for good and interchangeable:
\*    they fill free slots in queue order.
Enabled ==
  IF ~st.on THEN {}
  ELSE
    LET e == Rec[l]
        t == st.start + st.k
        P == m.pending
        NewAt == {i \in st.left : P[i].k = "new" /\ FinalTuple(e, P[i].a + 1, P[i].id)[3] = t
                                   /\ FinalTuple(e, P[i].a + 1, P[i].id)[2] # "New"}
        Aggr(a) == {e.books[a].newtr[j][5] : j \in {j \in 1..Len(e.books[a].newtr) : e.books[a].newtr[j][1] = t}}
        TradeAt == {i \in st.left : P[i].k # "cancel" /\ P[i].id \in Aggr(P[i].a + 1)}
        CancelAt == {i \in st.left : /\ P[i].k = "cancel"
                                      /\ P[i].id \in Ids(st.books[P[i].a + 1])
                                      /\ O(st.books[P[i].a + 1], P[i].id).status = "Active"
                                      /\ FinalTuple(e, P[i].a + 1, P[i].id)[2] = "Cancelled"
                                      /\ FinalTuple(e, P[i].a + 1, P[i].id)[4] = t}
        Free == {i \in st.left : P[i].k # "new"}
        Dead == {i \in Free : O(st.books[P[i].a + 1], P[i].id).status \in Terminal}
    IN IF NewAt # {} THEN NewAt
       ELSE IF TradeAt # {} THEN TradeAt
       ELSE IF CancelAt # {} THEN CancelAt
       ELSE (Free \ Dead) \cup (IF Dead = {} THEN {} ELSE {CHOOSE i \in Dead : \A j \in Dead : i <= j})

Process(i) ==
  /\ st.on /\ i \in st.left /\ bad = ""
  /\ LET x  == m.pending[i]
         t  == st.start + st.k
         nb == ProcessF(st.books, x, t)
     IN /\ Consistent(nb, Rec[l])
        /\ ProcessOK(st.books, x, t)
        /\ st' = [st EXCEPT !.left = @ \ {i}, !.k = @ + 1, !.books = nb]
  /\ UNCHANGED <<m, l, bad>>

StepEnd ==
  /\ st.on /\ st.left = {} /\ bad = ""
  /\ LET e  == Rec[l]
         b2 == [a \in 1..Len(st.books) |-> SetTimeF(st.books[a], st.start + m.step)]
         new == [m EXCEPT !.books = b2, !.pending = <<>>,
                          !.l2 = [a \in 1..Len(b2) |-> L2Of(b2[a])],
                          !.rec = [a \in 1..Len(b2) |-> Append(m.rec[a], L2Of(b2[a]))],
                          !.tvols = [a \in 1..Len(b2) |-> Append(m.tvols[a], b2[a].tvol)],
                          !.nsteps = m.nsteps + 1]
     IN /\ FirstFalse(EnvDelta(m, new, e)) = ""           \* otherwise this schedule does not explain the log
        /\ FirstFalse(EnvClauses(m, new, [op |-> "step"], e.audit)) = ""
        /\ m' = new /\ l' = l + 1 /\ bad' = ""
  /\ st' = Idle

TNext == Reset \/ Call \/ MktCall \/ StepHook \/ StepBegin \/ (\E i \in Enabled : Process(i)) \/ StepEnd
TSpec == TInit /\ [][TNext]_tvars

\* Different schedules often lead to states that differ only in the ghost enqueue counters (the queues
\* themselves, which are what later behaviour depends on, are equal): identified by this VIEW.
StripGhost(bs) == [a \in 1..Len(bs) |-> [bs[a] EXCEPT !.qn = <<>>, !.qt = <<>>, !.nq = 0]]
View == <<l, bad, [st EXCEPT !.books = StripGhost(@)], [m EXCEPT !.books = StripGhost(@)]>>

\* ---- acceptance ------------------------------------------------------------------------
MaxOf2(x, y) == IF x >= y THEN x ELSE y
ASSUME TLCSet(1, 0)
Track == TLCSet(1, MaxOf2(TLCGet(1), l))
Accepted ==
  IF TLCGet(1) = Len(Rec) + 1
  THEN PrintT(<<"ACCEPTED", Len(Rec)>>)
  ELSE /\ PrintT(<<"REJECTED", TLCGet(1)>>)
       /\ (UseHook \/ PrintT(<<"TRACE-REJECT", ToJson([at |-> TLCGet(1),
                why |-> "no processing order of the queued instructions explains the logged outcome of this step",
                event |-> [op |-> Rec[TLCGet(1)].op]])>>))
       /\ FALSE

Report ==
  bad # "" =>
    PrintT(<<"TRACE-REJECT", ToJson([at |-> l, why |-> bad, event |-> Rec[l],
             spec_now |-> m.books[1].now, spec_nsteps |-> m.nsteps,
             spec_pending |-> [k \in 1..Len(m.pending) |-> InstrTuple(m.pending[k])],
             spec_l2 |-> m.l2,
             spec_books |-> [a \in 1..Len(m.books) |->
                [tvol |-> m.books[a].tvol, n_orders |-> NOrders(m.books[a]), n_trades |-> Len(m.books[a].trades),
                 views |-> ViewsAll(ViewsQ(m.books[a])),
                 changed |-> IF a <= Len(Rec[l].books)
                             THEN [k \in 1..Len(Rec[l].books[a].do) |->
                                     IF Rec[l].books[a].do[k][1] \in Ids(m.books[a])
                                     THEN <<Rec[l].books[a].do[k][1], OrderTuple(O(m.books[a], Rec[l].books[a].do[k][1]))>>
                                     ELSE <<Rec[l].books[a].do[k][1], "absent">>]
                             ELSE <<>>]]])>>)
=============================================================================
