------------------------------ MODULE MarketGen ------------------------------
(***************************************************************************)
(* Behaviour generator for direct operations on bourse_book::Market (C14). *)
(* Deterministic: one line {path, exp} per reachable history.               *)
(***************************************************************************)
EXTENDS MarketOps, Json

CONSTANTS Ticks, NLevels, Trading0, Ops, Sides, Kinds, Prices, Vols, Traders,
          ModPrices, ModVolsAbs, MaxOrders, MaxOps

VARIABLES m, hist
gvars == <<m, hist>>
Assets == 0..(Len(Ticks) - 1)

GInit == m = NewEnv(0, Ticks, 1, Trading0, NLevels) /\ hist = <<>>

Do(l) ==
  /\ l.op \in Ops
  /\ Len(hist) < MaxOps
  /\ m' = ApplyMkt(m, l)
  /\ hist' = Append(hist, l)

Create(op) ==
  \E a \in Assets, s \in Sides, k \in Kinds, v \in Vols, tr \in Traders :
    \E p \in (IF k = "L" THEN Prices ELSE {None}) :
      /\ NOrders(Bk(m, a)) < MaxOrders
      /\ LET l0 == [op |-> op, a |-> a, side |-> s, vol |-> v, tr |-> tr, price |-> p, ret |-> None]
         IN Do([l0 EXCEPT !.ret = RetMkt(m, l0)])

OnId(op) == \E a \in Assets : \E id \in Ids(Bk(m, a)) : Do([op |-> op, a |-> a, id |-> id])

Modify ==
  \E a \in Assets : \E id \in Ids(Bk(m, a)) : \E np \in ModPrices, nv \in ModVolsAbs :
    /\ ~(np = None /\ nv = None)
    /\ Do([op |-> "modify", a |-> a, id |-> id, p |-> np, v |-> nv])

Event ==
  \E a \in Assets : \E id \in Ids(Bk(m, a)) : \E k \in {"new", "cancel"} :
    Do([op |-> "event", a |-> a, k |-> k, id |-> id, p |-> None, v |-> None])

GNext ==
  \/ Create("create") \/ Create("cap") \/ OnId("place") \/ OnId("cancel") \/ Modify \/ Event
  \/ Do([op |-> "settime", t |-> m.books[1].now + 1])
  \/ Do([op |-> "enable"]) \/ Do([op |-> "disable"]) \/ Do([op |-> "resettv"])
  \/ \E md \in {"sc", "fp"} : Do([op |-> "reload", mode |-> md])

Emit == PrintT(<<"GEN", ToJson([path |-> hist, exp |-> ProjMkt(m)])>>)

Inv_C14_SharedClock == C14_SharedClock(m)
Inv_BookStateOK     == \A a \in 1..Len(m.books) : StateOK(m.books[a])
\* C14: an operation addressed to one asset leaves every other asset's book untouched
Act_C14_Independent ==
  [][\A l \in {hist'[Len(hist')]} :
       l.op \in PerAsset => \A a \in 1..Len(m.books) : a # l.a + 1 => m'.books[a] = m.books[a]]_gvars
=============================================================================
