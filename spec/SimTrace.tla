------------------------------ MODULE SimTrace ------------------------------
(***************************************************************************)
(* Sim: a complete simulation is  n_steps x ( every member of the agent    *)
(* set updates once, in order, on the shared environment ; one step ).     *)
(* This module validates traces recorded from INSIDE the real runners      *)
(* (harness/src/bin/record_sim.rs: the agent set handed to sim_runner /     *)
(* market_sim_runner is a recording wrapper) against                        *)
(*  - the loop structure above (C09: the run is a behaviour of Sim at all;  *)
(*    C20: every member once, in order, one shared environment);            *)
(*  - MarketOps / EnvTrace for every step (C08, C11, C14, book clauses at   *)
(*    every processed instruction) and every submission (C10);              *)
(*  - the agent relations of Agents.tla for every update (C16), with the    *)
(*    agent's OBSERVATION derived by TLC from its own specification state   *)
(*    (own active orders, live orders per trader, twice the mid-price) and   *)
(*    the instruction attributes derived from the specification's queue and *)
(*    order records - the recorder only reports what was submitted.         *)
(* Runs stay in the small-number regime (prices < 2^29).                    *)
(***************************************************************************)
EXTENDS EnvTrace, Agents

VARIABLES ph,    \* index of the member expected to update next; = number of members when a step is due
          cfg,   \* reset event of the current run
          nst    \* steps seen in the current run

svars == <<m, l, st, bad, ph, cfg, nst>>

SInit == TInit /\ ph = 0 /\ cfg = [op |-> "none", agents |-> <<>>, steps |-> 0] /\ nst = 0

NAgents == Len(cfg.agents)
ToBig(x) == <<x \div 65536, x % 65536>>

\* ---- folding a member's submissions into the environment ---------------------------------
RECURSIVE FoldSubs(_, _, _)
FoldSubs(mm, subs, k) == IF k > Len(subs) THEN mm ELSE FoldSubs(SubmitF(mm, subs[k]), subs, k + 1)

\* first submission that is not "invisible" (C10) or whose returned id is not the next id (0 = none)
RECURSIVE FirstBadSub(_, _, _)
FirstBadSub(mm, subs, k) ==
  IF k > Len(subs) THEN 0
  ELSE LET nm == SubmitF(mm, subs[k]) IN
       IF ~C10_SubmitInvisible(mm, nm, subs[k]) \/ (subs[k].k = "new" /\ RetSubmit(mm, subs[k]) # subs[k].ret) THEN k
       ELSE FirstBadSub(nm, subs, k + 1)

\* ---- what the member could observe, from the specification state before its update ---------
Own(c, o) == IF c.kind = "random" THEN o.trader < c.n ELSE o.trader >= c.id0 /\ o.trader < c.id0 + c.n

OwnActive(mm, c) == LET bk == mm.books[c.asset + 1] IN {i \in Ids(bk) : Own(c, O(bk, i)) /\ O(bk, i).status = "Active"}
OwnLive(mm, c)   == LET bk == mm.books[c.asset + 1] IN {i \in Ids(bk) : Own(c, O(bk, i)) /\ O(bk, i).status \in {"Active", "New"}}

Observation(mm, c) ==
  LET bk == mm.books[c.asset + 1]
      act == OwnActive(mm, c)
      trs == {O(bk, i).trader : i \in OwnLive(mm, c)}
  IN [ mid2 |-> ToBig(Mid2(bk)),
       own_active |-> SetToSeq(act),
       active_traders |-> SetToSeq({O(bk, i).trader : i \in act}),
       own_live_by_trader |-> SetToSeq({<<t, Cardinality({i \in OwnLive(mm, c) : O(bk, i).trader = t})>> : t \in trs}) ]

\* ---- the instructions as the relation reads them, from the queue and the order records ------
Instr(old, new, c, s) ==
  IF s.k = "new"
  THEN LET o == O(new.books[s.a + 1], s.ret) IN
       [k |-> "new", a |-> s.a, id |-> s.ret, side |-> o.side, vol |-> o.vol, tr |-> o.trader,
        price |-> ToBig(o.price), price2 |-> ToBig(2 * (IF IsMkt(o) THEN 0 ELSE o.price)), mkt |-> IsMkt(o),
        fresh |-> s.ret >= NOrders(old.books[s.a + 1]), status |-> o.status]
  ELSE LET o == O(new.books[s.a + 1], s.id) IN
       [k |-> s.k, a |-> s.a, id |-> s.id, tr |-> o.trader, own |-> Own(c, o),
        was_active |-> (s.a = c.asset /\ s.id \in OwnActive(old, c))]

UpdateEvent(old, new, c, subs) ==
  LET ob == Observation(old, c) IN
  [ mid2 |-> ob.mid2, own_active |-> ob.own_active, active_traders |-> ob.active_traders,
    own_live_by_trader |-> ob.own_live_by_trader,
    instrs |-> [i \in 1..Len(subs) |-> Instr(old, new, c, subs[i])],
    created |-> SumSeq([a \in 1..Len(new.books) |-> NOrders(new.books[a]) - NOrders(old.books[a])]) ]

AgentRel(c, e) ==
  CASE c.kind = "random"   -> RandomRel(c, e)
    [] c.kind = "noise"    -> NoiseRel(c, e)
    [] c.kind = "momentum" -> MomentumRel(c, e, 2)       \* direction is judged under imposed price paths (C17)

\* ---- next-state relation --------------------------------------------------------------------
SReset ==
  /\ l <= Len(Rec) /\ Rec[l].op = "reset" /\ ~st.on
  /\ LET e  == Rec[l]
         m0 == NewEnv(e.t0, e.ticks, e.step, e.trading, e.levels)
         m1 == FoldSubs(m0, e.setup, 1)
         pm == MatchSched(m1.pending, e.setup_sched, 1, {})
         ok == Len(e.setup_sched) = Len(m1.pending) /\ \A k \in 1..Len(pm) : pm[k] # 0
         m2 == IF ok THEN StepF(m1, pm) ELSE m1
         d  == IF ok THEN FirstFalse(EnvDelta(m0, m2, e)) ELSE "setup_schedule"
     IN /\ m' = m2
        /\ bad' = IF d = "" THEN "" ELSE "MISMATCH:" \o d
        /\ cfg' = e
  /\ l' = IF bad' = "" THEN l + 1 ELSE l
  /\ st' = Idle /\ ph' = 0 /\ nst' = 0

SUpdate ==
  /\ l <= Len(Rec) /\ Rec[l].op = "update" /\ bad = "" /\ ~st.on
  /\ LET e == Rec[l] IN
     IF e.agent # ph \/ ph >= NAgents
     THEN /\ bad' = "CLAUSE:runner_updates_every_member_once_in_order"
          /\ UNCHANGED <<m, l, ph>>
     ELSE LET c   == cfg.agents[ph + 1]
              new == FoldSubs(m, e.subs, 1)
              d   == FirstFalse(EnvDelta(m, new, e))
              fb  == FirstBadSub(m, e.subs, 1)
              rel == AgentRel(c, UpdateEvent(m, new, c, e.subs))
          IN /\ m' = new
             /\ bad' = IF d # "" THEN "MISMATCH:" \o d
                       ELSE IF fb # 0 THEN "CLAUSE:C10_submission_" \o ToString(fb)
                       ELSE IF ~rel THEN "CLAUSE:C16_agent_relation_" \o c.kind
                       ELSE IF ~C10_L2AsOfLastStep(new) THEN "CLAUSE:C10_L2AsOfLastStep"
                       ELSE ""
             /\ l' = IF bad' = "" THEN l + 1 ELSE l
             /\ ph' = ph + 1
  /\ st' = Idle /\ UNCHANGED <<cfg, nst>>

SStep ==
  /\ Rec[l].op = "step"
  /\ IF ph # NAgents
     THEN /\ l <= Len(Rec) /\ bad = "" /\ ~st.on
          /\ bad' = "CLAUSE:runner_steps_after_every_member_has_updated"
          /\ UNCHANGED <<m, l, st, ph, nst>>
     ELSE /\ StepHook
          /\ ph' = 0 /\ nst' = nst + 1
  /\ UNCHANGED cfg

SEnd ==
  /\ l <= Len(Rec) /\ Rec[l].op = "end" /\ bad = "" /\ ~st.on
  /\ bad' = IF Rec[l].complete /\ ~(ph = 0 /\ nst = cfg.steps /\ m.nsteps = cfg.steps + 1)
            THEN "CLAUSE:runner_takes_exactly_n_steps" ELSE ""
  /\ l' = IF bad' = "" THEN l + 1 ELSE l
  /\ UNCHANGED <<m, st, ph, cfg, nst>>

SNext == SReset \/ SUpdate \/ (l <= Len(Rec) /\ SStep) \/ SEnd
TSpecSim == SInit /\ [][SNext]_svars

SReport ==
  bad # "" =>
    PrintT(<<"TRACE-REJECT", ToJson([at |-> l, why |-> bad,
             event |-> [op |-> Rec[l].op, agent |-> IF "agent" \in DOMAIN Rec[l] THEN Rec[l].agent ELSE -1,
                        subs |-> IF "subs" \in DOMAIN Rec[l] THEN Rec[l].subs ELSE <<>>],
             member |-> IF ph < NAgents THEN cfg.agents[ph + 1] ELSE [kind |-> "step"],
             expected_member |-> ph, steps_seen |-> nst,
             observation |-> IF Rec[l].op = "update" /\ ph < NAgents /\ Rec[l].agent = ph
                             THEN Observation(m, cfg.agents[ph + 1]) ELSE [none |-> TRUE],
             spec_now |-> m.books[1].now, spec_pending |-> [k \in 1..Len(m.pending) |-> InstrTuple(m.pending[k])]])>>)
=============================================================================
