----------------------------- MODULE HelperTrace -----------------------------
(***************************************************************************)
(* The public helper functions of bourse_de::agents::common - what the     *)
(* noise and momentum agents are made of - as relations between the        *)
(* arguments of one call and what the call did (C16).  Traces come from    *)
(* record_helpers, which chooses the mid-price (m2 = twice the mid-price,  *)
(* any natural up to 2 * (2^32 - 1)) and the value the price distribution  *)
(* returns (a4 = four times its absolute value) itself.                    *)
(*                                                                         *)
(* quote (place_buy_limit_order / place_sell_limit_order [_market]):       *)
(*   never an error and never an abort; exactly one new order, on the      *)
(*   asset addressed, status New, side / volume / trader as given, its     *)
(*   price on the tick grid, a buy at or below and a sell at or above the  *)
(*   mid-price handed in - except that a sell for which no grid price of    *)
(*   the price range is at or above mid + distance is quoted at the last   *)
(*   grid price of the range (the documented clamp); exactly one instruction queued, the     *)
(*   placement of that order; nothing else touched.                        *)
(*   In the small-number regime TLC also recomputes the documented         *)
(*   rounding (down to the grid for buys, up for sells) exactly; that is   *)
(*   reported as a count, not as part of C16.                              *)
(* cancel_live (cancel_live_orders [_market]):                             *)
(*   the ids returned and the ids for which a cancellation was queued      *)
(*   partition the ids given that were Active, both in the order given;    *)
(*   probability 0 cancels none, probability >= 1 all; nothing created,    *)
(*   nothing else touched.                                                 *)
(***************************************************************************)
EXTENDS Big, Sequences, FiniteSets, Json, IOUtils, TLC

Rec == ndJsonDeserialize(IOEnv.TRACE)

VARIABLES l, c, bad, exact
hvars == <<l, c, bad, exact>>

TInit == l = 1 /\ c = [tick |-> 1] /\ bad = "" /\ exact = <<0, 0>>

MaxP == <<65535, 65535>>          \* 2^32 - 1
Top2 == <<131071, 65534>>         \* 2 * (2^32 - 1)

\* is there no grid price of the price range at or above mid + distance?  With G = (2^32 - 1) - ((2^32 - 1) % tick) the last
\* grid price: 4 G < 2 * m2 + a4, for a4 below 2^27.  (Rounding up then leaves the range, the result is clamped to 2^32 - 1
\* and brought back to the grid: the sell is quoted at G, which is below the mid-price when the mid-price is above G.)
BeyondTopFinite(e) ==
  /\ BigSmall(e.a4)
  /\ BigNear(Top2, e.m2)
  /\ 2 * BigDiff(Top2, e.m2) < BigVal(e.a4) + 4 * BigMod(MaxP, c.tick)
\* (the distribution can also return infinity - a heavy tail with finite parameters: every price is then beyond the range)
BeyondTop(e) == e.inf \/ BeyondTopFinite(e)

QuoteClauses(e) ==
  LET o == e.order IN
  <<
    <<"no_error", e.ret >= 0>>,
    <<"one_order_created", e.created = 1 /\ o.id = e.ret /\ o.fresh>>,
    <<"nothing_else_touched", e.untouched>>,
    <<"one_placement_queued", Len(e.instrs) = 1 /\ e.instrs[1].k = "new" /\ e.instrs[1].id = e.ret /\ e.instrs[1].a = c.asset>>,
    <<"record_as_given", o.status = "New" /\ o.vol = e.vol /\ o.start = e.vol /\ o.tr = e.tr /\ o.side = (IF e.buy THEN "B" ELSE "A")>>,
    <<"on_grid", BigWellFormed(o.price) /\ BigMod(o.price, c.tick) = 0>>,
    <<"buy_at_or_below_mid", e.buy => BigLe(BigDbl(o.price), e.m2)>>,
    <<"buy_at_infinite_distance_is_clamped_to_zero", (e.buy /\ e.inf) => o.price = <<0, 0>>>>,
    <<"sell_at_or_above_mid_or_last_grid_price", (~e.buy) =>
         IF BeyondTop(e) THEN o.topgap < c.tick ELSE BigGe(BigDbl(o.price), e.m2)>>
  >>

\* the documented rounding, recomputed exactly where the numbers are small
ExactKnown(e) == ~e.inf /\ BigSmall(e.m2) /\ BigSmall(e.a4) /\ BigVal(e.m2) < 134217728 /\ BigVal(e.a4) < 134217728
ExactPrice(e) ==
  LET m == BigVal(e.m2)  a == BigVal(e.a4)  t == c.tick IN
  IF e.buy THEN (IF 2 * m - a < 0 THEN 0 ELSE t * ((2 * m - a) \div (4 * t)))
  ELSE t * ((2 * m + a + 4 * t - 1) \div (4 * t))

SeqSet(s) == {s[i] : i \in 1..Len(s)}
IsSubSeq(s, t) ==    \* s is t with some elements removed
  LET F[i \in 0..Len(s), j \in 0..Len(t)] ==
        IF i = 0 THEN TRUE ELSE IF j = 0 THEN FALSE
        ELSE (s[i] = t[j] /\ F[i - 1, j - 1]) \/ F[i, j - 1]
  IN F[Len(s), Len(t)]

CancelClauses(e) ==
  LET act  == SelectSeq(e.given, LAMBDA g : g[2] = "Active")
      aids == [i \in 1..Len(act) |-> act[i][1]]
      cids == [i \in 1..Len(e.instrs) |-> e.instrs[i].id]
  IN
  <<
    <<"nothing_touched", e.untouched>>,
    <<"only_cancellations_queued", \A i \in 1..Len(e.instrs) : e.instrs[i].k = "cancel" /\ e.instrs[i].a = c.asset>>,
    <<"kept_are_active_ids_in_order", IsSubSeq(e.kept, aids)>>,
    <<"cancelled_are_active_ids_in_order", IsSubSeq(cids, aids)>>,
    <<"kept_and_cancelled_partition_the_active_ids",
        Len(e.kept) + Len(cids) = Len(aids) /\ SeqSet(e.kept) \cup SeqSet(cids) = SeqSet(aids)>>,
    <<"probability_zero_cancels_nothing", e.p = "zero" => cids = <<>>>>,
    <<"probability_one_cancels_all", e.p = "one" => e.kept = <<>>>>
  >>

FirstBad(cl) ==
  IF \A i \in 1..Len(cl) : cl[i][2] THEN ""
  ELSE cl[CHOOSE i \in 1..Len(cl) : ~cl[i][2] /\ \A j \in 1..(i - 1) : cl[j][2]][1]

Step ==
  /\ l <= Len(Rec)
  /\ bad = ""
  /\ LET e == Rec[l] IN
     CASE e.op = "reset" -> c' = e /\ bad' = "" /\ l' = l + 1 /\ UNCHANGED exact
       [] e.op = "quote" ->
            /\ bad' = FirstBad(QuoteClauses(e))
            /\ l' = IF bad' = "" THEN l + 1 ELSE l
            /\ exact' = IF bad' = "" /\ ExactKnown(e)
                        THEN <<exact[1] + 1, exact[2] + (IF BigSmall(e.order.price) /\ BigVal(e.order.price) = ExactPrice(e) THEN 1 ELSE 0)>>
                        ELSE exact
            /\ UNCHANGED c
       [] e.op = "cancel_live" ->
            /\ bad' = FirstBad(CancelClauses(e))
            /\ l' = IF bad' = "" THEN l + 1 ELSE l
            /\ UNCHANGED <<c, exact>>
       [] e.op \in {"step", "abort"} -> l' = l + 1 /\ UNCHANGED <<c, bad, exact>>

TNext == Step
TSpec == TInit /\ [][TNext]_hvars

ASSUME TLCSet(1, 0)
ASSUME TLCSet(2, <<0, 0>>)
Track == TLCSet(1, IF TLCGet(1) >= l THEN TLCGet(1) ELSE l) /\ TLCSet(2, IF TLCGet(2)[1] >= exact[1] THEN TLCGet(2) ELSE exact)
Accepted ==
  IF TLCGet(1) = Len(Rec) + 1
  THEN PrintT(<<"ACCEPTED", Len(Rec)>>) /\ PrintT(<<"EXACT-ROUNDING", TLCGet(2)[1], TLCGet(2)[2]>>)
  ELSE PrintT(<<"REJECTED", TLCGet(1)>>) /\ FALSE

Report ==
  bad # "" =>
    PrintT(<<"TRACE-REJECT", ToJson([at |-> l, why |-> bad, event |-> Rec[l], run |-> c])>>)
=============================================================================
