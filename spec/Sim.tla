-------------------------------- MODULE Sim --------------------------------
(***************************************************************************)
(* A complete simulation as a state machine: the loop of the public        *)
(* runners (bourse_de::sim_runner, crates/step_sim/src/runner.rs)          *)
(*                                                                         *)
(*     repeat n_steps times:  agents.update(env, rng);  env.step(rng)      *)
(*                                                                         *)
(* over the environment of MarketOps.tla, with a set of random agents      *)
(* (crates/step_sim/src/agents/random_agent.rs) as the agent set.          *)
(*                                                                         *)
(* The generator is abstracted away: every decision an agent takes from    *)
(* its draws (active or not; side, tick, volume of a new order) and the    *)
(* processing order the step takes from its draws are nondeterministic     *)
(* choices.  What remains is exactly what the code must do WHATEVER the    *)
(* draws are:                                                              *)
(*  - every member of the set is updated once per round, in slot order,    *)
(*    then exactly one step is taken;                                      *)
(*  - an active agent whose own order is Active queues its cancellation    *)
(*    and forgets it; an active agent without a live order creates one new *)
(*    limit order (its own trader id, tick in the tick range, volume in    *)
(*    the volume range) and remembers its id; an inactive agent does       *)
(*    nothing (activity rate 0: never active, rate >= 1: always);          *)
(*  - the step applies the queued instructions in SOME order (MarketOps).  *)
(*                                                                         *)
(* TLC (a) checks the simulation-level invariants below on every reachable *)
(* state and (b) prints every reachable state as one allowed OUTCOME of a  *)
(* simulation of k rounds.  The harness (sim_outcomes) runs the real       *)
(* runner with the real agents under tens of thousands of seeds and        *)
(* requires every real outcome to be one of the printed ones - without any *)
(* hook and without steering the generator - and reports how many of the   *)
(* allowed outcomes the code produced (the specification is not more       *)
(* permissive than the code).                                              *)
(***************************************************************************)
EXTENDS MarketOps, Json

CONSTANTS Tick, StepSize, T0, NLevels,
          NAgents,            \* number of agents (slots) in the set
          TickLo, TickHi,     \* tick range [TickLo, TickHi) of new orders
          VolLo, VolHi,       \* volume range [VolLo, VolHi)
          Rate,               \* "zero" | "mid" | "one": activity rate 0, strictly between, >= 1
          NSteps,             \* rounds explored
          Assets, Asset       \* number of assets of the environment and the asset the agents trade (0-based)

VARIABLES m,      \* the environment
          slots,  \* per agent: id of the order it remembers, or None
          k       \* completed rounds

svars == <<m, slots, k>>

SInit ==
  /\ m = NewEnv(T0, [a \in 1..Assets |-> Tick], StepSize, TRUE, NLevels)
  /\ slots = [i \in 1..NAgents |-> None]
  /\ k = 0

\* what one agent decides from its draws
Idle == [act |-> FALSE, side |-> "B", tick |-> TickLo, vol |-> VolLo]
Decisions ==
  (IF Rate = "one" THEN {} ELSE {Idle}) \cup
  (IF Rate = "zero" THEN {} ELSE [act : {TRUE}, side : {"B", "A"}, tick : TickLo..(TickHi - 1), vol : VolLo..(VolHi - 1)])

\* agents.update: every slot once, in order, on the one shared environment
RECURSIVE UpdateFrom(_, _, _, _)
UpdateFrom(x, sl, dv, i) ==
  IF i > NAgents THEN <<x, sl>>
  ELSE
    LET d  == dv[i]
        bk == Bk(x, Asset)
    IN
    IF ~d.act THEN UpdateFrom(x, sl, dv, i + 1)
    ELSE IF sl[i] # None /\ O(bk, sl[i]).status = "Active"
         THEN UpdateFrom(SubmitF(x, [op |-> "submit", k |-> "cancel", a |-> Asset, id |-> sl[i], p |-> None, v |-> None]),
                         [sl EXCEPT ![i] = None], dv, i + 1)
         ELSE UpdateFrom(SubmitF(x, [op |-> "submit", k |-> "new", a |-> Asset, side |-> d.side, vol |-> d.vol, tr |-> i - 1,
                                     price |-> d.tick * Tick]),
                         [sl EXCEPT ![i] = NextId(bk)], dv, i + 1)

Round ==
  /\ k < NSteps
  /\ \E dv \in [1..NAgents -> Decisions] :
       LET u == UpdateFrom(m, slots, dv, 1) IN
       \E perm \in Perms(Len(u[1].pending)) :
         /\ m' = StepF(u[1], perm)
         /\ slots' = u[2]
  /\ k' = k + 1

SNext == Round
SSpec == SInit /\ [][SNext]_svars

---------------------------------------------------------------------------
(* Simulation-level invariants (checked by TLC on every reachable state)  *)

Book == Bk(m, Asset)

\* C16: a random agent never holds more than one live order (New or Active) - whatever it forgot
Inv_OneLiveOrderPerAgent ==
  \A i \in 1..NAgents :
    Cardinality({id \in Ids(Book) : O(Book, id).trader = i - 1 /\ O(Book, id).status \in {"New", "Active"}}) <= 1

\* C16: every order is a limit order on the grid, inside the configured ranges, with its agent's trader id
Inv_OrdersAsConfigured ==
  \A id \in Ids(Book) :
    LET o == O(Book, id) IN
    /\ o.price % Tick = 0 /\ o.price \div Tick \in TickLo..(TickHi - 1)
    /\ o.start \in VolLo..(VolHi - 1)
    /\ o.trader \in 0..(NAgents - 1)

\* what an agent remembers is one of its own orders
Inv_SlotsOwn ==
  \A i \in 1..NAgents : slots[i] # None => (slots[i] \in Ids(Book) /\ O(Book, slots[i]).trader = i - 1)

\* C08 / C11: k rounds = k steps: clock, queue, records
Inv_RoundShape ==
  /\ m.nsteps = k /\ m.pending = <<>>
  /\ \A a \in 1..Assets : m.books[a].now = T0 + k * StepSize /\ Len(m.rec[a]) = k /\ Len(m.tvols[a]) = k
  /\ \A id \in Ids(Book) : O(Book, id).status # "New"

\* the other assets of a multi-asset environment are never touched
Inv_OtherAssetsUntouched ==
  \A a \in 1..Assets : a # Asset + 1 => (m.books[a].orders = <<>> /\ m.books[a].trades = <<>>)

\* book-level state clauses hold throughout a simulation
Inv_BookClauses == C01_QueueSorted(Book) /\ C02_ViewsAgree(Book) /\ C02_NotCrossed(Book) /\ C03_Conservation(Book) /\ C12_OnGrid(Book)

---------------------------------------------------------------------------
(* Outcomes: everything the public API shows at the end of a simulation of k rounds *)
Outcome ==
  [ k      |-> k,
    now    |-> m.books[1].now,
    orders |-> [a \in 1..Assets |-> Proj(m.books[a]).orders],
    trades |-> [a \in 1..Assets |-> Proj(m.books[a]).trades],
    prices |-> [a \in 1..Assets |-> RecViews(m, a).prices],
    volumes |-> [a \in 1..Assets |-> RecViews(m, a).volumes],
    tvols  |-> [a \in 1..Assets |-> m.tvols[a]] ]

\* the agents' memory is not observable: two states with the same environment but different slots are one outcome
EmitOutcome == k >= 1 => PrintT(<<"OUT", ToJson(Outcome)>>)
=============================================================================
