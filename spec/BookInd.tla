------------------------------ MODULE BookInd ------------------------------
(***************************************************************************)
(* The core of the reference matching engine (BookOps.tla) in the typed,   *)
(* recursion-free fragment that Apalache accepts, with an INDUCTIVE        *)
(* invariant.  Where TLC explores every history of a few orders over three *)
(* prices and two volumes, Apalache proves here, for every state of at     *)
(* most N orders that satisfies IndInv - prices, volumes and the enqueue   *)
(* counter ranging over ALL integers, the state not required to be         *)
(* reachable in a few steps - that every call of the public API re-        *)
(* establishes IndInv:                                                     *)
(*    Init => IndInv            (apalache-mc check --length=0)             *)
(*    IndInv /\ Next => IndInv' (apalache-mc check --init=IndInit --length=1) *)
(* IndInv contains the state clauses of C01 (queues sorted by price, then  *)
(* by enqueue order), C02 (queues = the active orders; never crossed while *)
(* trading was never disabled), C04 (statuses / volumes), C12 (on grid).   *)
(*                                                                         *)
(* BookIndMC.tla runs this module in lock-step with BookOps.tla under TLC  *)
(* and checks that both compute the same orders and queues, so what is     *)
(* proved here is proved about the operators the conformance checks bind   *)
(* to the code.                                                            *)
(***************************************************************************)
EXTENDS Integers, Sequences, FiniteSets, Apalache

CONSTANTS
  \* @type: Int;
  N,        \* capacity of the order table
  \* @type: Int;
  Tick      \* tick size

VARIABLES
  \* @type: Int -> {side: Str, status: Str, vol: Int, price: Int, mkt: Bool, seq: Int};
  ord,      \* order table, ids 1..N; ids above n are unused ("None")
  \* @type: Int;
  n,        \* number of orders created
  \* @type: Seq(Int);
  qb,       \* bid queue, best first
  \* @type: Seq(Int);
  qa,       \* ask queue, best first
  \* @type: Int;
  nq,       \* enqueue counter
  \* @type: Bool;
  trading,
  \* @type: Bool;
  everOff

vars == <<ord, n, qb, qa, nq, trading, everOff>>

Ids == 1..N

\* @type: (Int, Int) => Int;
MinOf(x, y) == IF x <= y THEN x ELSE y

\* @type: Str => Str;
Opp(s) == IF s = "B" THEN "A" ELSE "B"

\* p1 strictly better than p2 for a resting order on side s
\* @type: (Str, Int, Int) => Bool;
Better(s, p1, p2) == IF s = "B" THEN p1 > p2 ELSE p1 < p2

\* an aggressor accepts the resting price pp.  Market orders accept every price.
\* @type: ({side: Str, status: Str, vol: Int, price: Int, mkt: Bool, seq: Int}, Int) => Bool;
Admits(o, pp) == o.mkt \/ (IF o.side = "B" THEN o.price >= pp ELSE o.price <= pp)

---------------------------------------------------------------------------
(* Matching: a left fold over the opposite queue (best first).  The       *)
(* accumulator carries the order table, how many resting orders were      *)
(* exhausted (they form a prefix of the queue) and a stop flag that is    *)
(* raised at the first resting order the aggressor does not reach.        *)

\* @typeAlias: order = {side: Str, status: Str, vol: Int, price: Int, mkt: Bool, seq: Int};
\* @typeAlias: acc = {tab: Int -> $order, id: Int, popped: Int, stop: Bool};
BookInd_aliases == TRUE

\* @type: ($acc, Int) => $acc;
MatchStep(acc, h) ==
  LET o == acc.tab[acc.id]
      p == acc.tab[h]
  IN
  IF acc.stop \/ o.vol = 0 \/ ~Admits(o, p.price)
  THEN [acc EXCEPT !.stop = TRUE]
  ELSE
    LET v  == MinOf(o.vol, p.vol)
        p2 == IF p.vol = v THEN [p EXCEPT !.vol = 0, !.status = "Filled"]
                           ELSE [p EXCEPT !.vol = p.vol - v]
        o2 == IF o.vol = v THEN [o EXCEPT !.vol = 0, !.status = "Filled"]
                           ELSE [o EXCEPT !.vol = o.vol - v]
    IN [acc EXCEPT !.tab = [[acc.tab EXCEPT ![h] = p2] EXCEPT ![acc.id] = o2],
                   !.popped = IF p.vol = v THEN acc.popped + 1 ELSE acc.popped]

\* @type: (Int -> $order, Seq(Int), Int) => $acc;
Match(tab, q, id) ==
  ApaFoldSeqLeft(MatchStep, [tab |-> tab, id |-> id, popped |-> 0, stop |-> FALSE], q)

\* @type: (Seq(Int), Int) => Seq(Int);
DropFirst(q, k) == SubSeq(q, k + 1, Len(q))

\* queue after inserting id at price p behind every order at a price better than or equal to p
\* @type: (Int -> $order, Seq(Int), Str, Int, Int) => Seq(Int);
InsertQ(tab, q, s, id, p) ==
  LET k == Cardinality({i \in Ids : i <= Len(q) /\ ~Better(s, p, tab[q[i]].price)})
  IN  SubSeq(q, 1, k) \o <<id>> \o SubSeq(q, k + 1, Len(q))

\* @type: (Seq(Int), Int) => Seq(Int);
RemoveQ(q, id) == SelectSeq(q, LAMBDA x : x # id)

---------------------------------------------------------------------------
(* An arriving (or re-priced) order `id`, already written into the table  *)
(* as Active with its price and volume and NOT in any queue.              *)

\* @type: (Int -> $order, Seq(Int), Seq(Int), Int) => Bool;
Arrive(tab, b, a, id) ==
  LET o  == tab[id]
      oq == IF o.side = "B" THEN a ELSE b
      m  == IF trading THEN Match(tab, oq, id) ELSE [tab |-> tab, id |-> id, popped |-> 0, stop |-> TRUE]
      oq2 == DropFirst(oq, m.popped)
      o2 == m.tab[id]
      rests == o2.status = "Active" /\ ~o2.mkt
      tab2 == IF o2.status # "Active" THEN m.tab
              ELSE IF o2.mkt THEN [m.tab EXCEPT ![id].status = IF trading THEN "Cancelled" ELSE "Rejected"]
              ELSE [m.tab EXCEPT ![id].seq = nq + 1]
      own  == IF o.side = "B" THEN b ELSE a
      own2 == IF rests THEN InsertQ(tab2, own, o.side, id, o2.price) ELSE own
  IN
  /\ ord' = tab2
  /\ qb' = IF o.side = "B" THEN own2 ELSE oq2
  /\ qa' = IF o.side = "B" THEN oq2 ELSE own2
  /\ nq' = IF rests THEN nq + 1 ELSE nq

---------------------------------------------------------------------------
(* Public calls *)

\* create_and_place_order with a limit price
PlaceLimit(s, p, v) ==
  /\ n < N /\ v > 0 /\ p >= 0 /\ p % Tick = 0
  /\ LET id == n + 1 IN
     /\ n' = id
     /\ Arrive([ord EXCEPT ![id] = [side |-> s, status |-> "Active", vol |-> v, price |-> p, mkt |-> FALSE, seq |-> 0]], qb, qa, id)
  /\ UNCHANGED <<trading, everOff>>

\* create_and_place_order without a price (market order)
PlaceMarket(s, v) ==
  /\ n < N /\ v > 0
  /\ LET id == n + 1 IN
     /\ n' = id
     /\ Arrive([ord EXCEPT ![id] = [side |-> s, status |-> "Active", vol |-> v, price |-> 0, mkt |-> TRUE, seq |-> 0]], qb, qa, id)
  /\ UNCHANGED <<trading, everOff>>

Cancel(id) ==
  /\ id \in Ids /\ id <= n
  /\ IF ord[id].status # "Active" THEN UNCHANGED vars
     ELSE /\ ord' = [ord EXCEPT ![id].status = "Cancelled"]
          /\ qb' = RemoveQ(qb, id)
          /\ qa' = RemoveQ(qa, id)
          /\ UNCHANGED <<n, nq, trading, everOff>>

\* modify_order with only a smaller volume: in place
Reduce(id, v) ==
  /\ id \in Ids /\ id <= n /\ ord[id].status = "Active" /\ v > 0 /\ v < ord[id].vol
  /\ ord' = [ord EXCEPT ![id].vol = v]
  /\ UNCHANGED <<n, qb, qa, nq, trading, everOff>>

\* every other effective modify_order: out of the book and back in as a new arrival
Replace(id, p, v) ==
  /\ id \in Ids /\ id <= n /\ ord[id].status = "Active" /\ v > 0 /\ p >= 0 /\ p % Tick = 0
  /\ Arrive([ord EXCEPT ![id].price = p, ![id].vol = v], RemoveQ(qb, id), RemoveQ(qa, id), id)
  /\ UNCHANGED <<n, trading, everOff>>

Disable == trading' = FALSE /\ everOff' = TRUE /\ UNCHANGED <<ord, n, qb, qa, nq>>
Enable  == trading' = TRUE /\ UNCHANGED <<ord, n, qb, qa, nq, everOff>>

Next ==
  \/ \E s \in {"B", "A"}, p \in Int, v \in Int : PlaceLimit(s, p, v)
  \/ \E s \in {"B", "A"}, v \in Int : PlaceMarket(s, v)
  \/ \E id \in Ids : Cancel(id)
  \/ \E id \in Ids, v \in Int : Reduce(id, v)
  \/ \E id \in Ids, p \in Int, v \in Int : Replace(id, p, v)
  \/ Disable
  \/ Enable

Blank == [side |-> "B", status |-> "None", vol |-> 0, price |-> 0, mkt |-> FALSE, seq |-> 0]

Init ==
  /\ ord = [i \in Ids |-> Blank]
  /\ n = 0 /\ qb = <<>> /\ qa = <<>> /\ nq = 0
  /\ trading \in BOOLEAN
  /\ everOff = ~trading

---------------------------------------------------------------------------
(* The inductive invariant *)

\* @type: (Seq(Int), Str) => Bool;
QueueOK(q, s) ==
  /\ Len(q) <= N
  /\ \A i \in Ids : i <= Len(q) =>
       /\ q[i] \in Ids /\ q[i] <= n
       /\ ord[q[i]].status = "Active" /\ ord[q[i]].side = s /\ ~ord[q[i]].mkt
  \* no order twice
  /\ \A i, j \in Ids : (i < j /\ j <= Len(q)) => q[i] # q[j]
  \* C01: best price first; within a price, in the order of queuing
  /\ \A i, j \in Ids : (i < j /\ j <= Len(q)) =>
       \/ Better(s, ord[q[i]].price, ord[q[j]].price)
       \/ (ord[q[i]].price = ord[q[j]].price /\ ord[q[i]].seq < ord[q[j]].seq)
  \* C02: every active order of the side is queued
  /\ \A id \in Ids : (id <= n /\ ord[id].status = "Active" /\ ord[id].side = s) =>
       \E i \in Ids : i <= Len(q) /\ q[i] = id

TypeOK ==
  /\ n \in 0..N
  /\ nq >= 0
  /\ DOMAIN ord = Ids
  /\ \A id \in Ids :
       /\ ord[id].side \in {"B", "A"}
       /\ ord[id].status \in {"None", "Active", "Filled", "Cancelled", "Rejected"}
       /\ (id > n) = (ord[id].status = "None")
       /\ ord[id].vol >= 0 /\ ord[id].price >= 0 /\ ord[id].seq >= 0 /\ ord[id].seq <= nq
       \* C04: active orders have volume, filled orders have none; market orders never rest
       /\ (ord[id].status = "Active") => (ord[id].vol > 0 /\ ~ord[id].mkt)
       /\ (ord[id].status = "Filled") => ord[id].vol = 0
       /\ (ord[id].status = "Rejected") => ord[id].mkt
       \* C12: every limit price is on the grid
       /\ (~ord[id].mkt) => ord[id].price % Tick = 0
  /\ everOff \/ trading

\* C02: while trading has never been disabled the book is not crossed
NotCrossed ==
  ~everOff => (Len(qb) > 0 /\ Len(qa) > 0 => ord[qb[1]].price < ord[qa[1]].price)

IndInv == TypeOK /\ QueueOK(qb, "B") /\ QueueOK(qa, "A") /\ NotCrossed

\* the initial-state predicate of the inductive step: any state satisfying the invariant
IndInit ==
  /\ ord = Gen(N)
  /\ n = Gen(1) /\ nq = Gen(1)
  /\ qb = Gen(N) /\ qa = Gen(N)
  /\ trading = Gen(1) /\ everOff = Gen(1)
  /\ DOMAIN ord = Ids
  /\ IndInv

\* sanity: refuted from IndInit, i.e. the inductive hypothesis admits rich states
Sanity_FewQueued == Len(qb) < 3 \/ ord[qb[1]].price = ord[qb[3]].price \/ ord[qb[2]].vol < 1000000
ConstInit4 == N = 4 /\ Tick \in {1, 2, 5}
ConstInit3 == N = 3 /\ Tick \in {1, 2, 5}
=============================================================================
