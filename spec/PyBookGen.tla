----------------------------- MODULE PyBookGen -----------------------------
(* Generator for the Python OrderBook: the Book.tla state machine restricted *)
(* to the calls the Python class offers, plus calls with out-of-range        *)
(* integer arguments ("bad": OverflowError, state unchanged).  Every state   *)
(* prints {path, exp, py}: py is what PyView says Python must show.          *)
EXTENDS BookGen, PyView

\* out-of-range arguments: a token the replayer turns into -1, 2^32 or 2^64
BadCalls ==
  { [call |-> "place_order", arg |-> "vol"], [call |-> "place_order", arg |-> "trader_id"],
    [call |-> "place_order", arg |-> "price"], [call |-> "cancel_order", arg |-> "order_id"],
    [call |-> "modify_order", arg |-> "new_price"], [call |-> "modify_order", arg |-> "new_vol"],
    [call |-> "modify_order", arg |-> "order_id"], [call |-> "set_time", arg |-> "t"] }

Bad ==
  /\ "bad" \in Ops
  /\ \A i \in 1..Len(hist) : hist[i].op # "bad"          \* one such call per path
  /\ \E c \in BadCalls, v \in {"NEG", "OVER"} :
       Step([op |-> "bad", call |-> c.call, arg |-> c.arg, val |-> v])

\* set_time is a plain assignment in the core, and C18 quantifies over every call sequence: the Python book must
\* follow it to a time BEFORE the current one as well (stamps of later placements, fills and cancellations)
SetTimeBack ==
  /\ "settime_back" \in Ops /\ n < MaxOps
  /\ \E d \in {1, 2} :
       /\ b.now >= d
       /\ LET lbl == [op |-> "settime", t |-> b.now - d] IN
          b' = ApplyLbl(b, lbl) /\ last' = lbl /\ n' = n + 1

PNext == (Next \/ Bad \/ SetTimeBack) /\ hist' = Append(hist, last')

EmitPy ==
  Constr => PrintT(<<"GEN", ToJson([path |-> hist, exp |-> Proj(b), py |-> PyBook(b),
                                     excs |-> [i \in 1..Len(hist) |-> PyExcOfLabel(hist[i])],
                                     \* the drain probe (BookOps!DrainF) reveals the queue order through the trade log
                                     drain |-> [bvol |-> SideVol(b, "B"), avol |-> SideVol(b, "A"), py |-> PyBook(DrainF(b))]])>>)
=============================================================================
