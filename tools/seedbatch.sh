#!/bin/bash
# usage: seedbatch.sh <worktree prefix, e.g. /tmp/wt4_> "C03 c" "C03 d" ...
cd /verif
pre=$1; shift
for pv in "$@"; do
  set -- $pv
  echo "=== $1 $2"
  python3 tools/seedtest.py $1 $2 --wt=$pre$1 2>&1 | tail -4
done
git -C /repo status --porcelain
git -C /verif checkout -- evidence
