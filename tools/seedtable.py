#!/usr/bin/env python3
"""Print the markdown table of seeded changes (seeded/*/meta.json) for DESIGN.md."""
import json, glob, os, re
rows = []
for d in sorted(glob.glob("/verif/seeded/*/")):
    m = json.load(open(d + "meta.json"))
    summ = (m.get("summary") or "").replace("\n", " ").replace("|", "/")
    summ = re.sub(r"\s+", " ", summ)[:230]
    det = m.get("detected_by") or []
    first = ""
    for c in det:
        f = (m.get("checks", {}).get(c, {}) or {}).get("first") or ""
        if f:
            first = re.sub(r"\s+", " ", f.replace("|", "/"))[3:150]
            break
    # stages that did not exist when the change was written (session 4): a first report from one of them means that the checks
    # as they stood would have missed the change (the stages of a check run in a fixed order and report the first violation)
    NEW = ("x_big_", "x_top_price", "x_long_queue", "x_ties_modify_reload", "py_view_", "py_numpy_", "gen_env_modify_partial", "gen_menv_modify_partial",
           "rand_env_modify", "sim_outcomes", "gen_create_max_tick3", "gen_reload_tick2_top", "gen_toggle_top_price", "agents_momentum_saturated",
           "py_repo_scenarios", "py_rand_env_engine", "py_rand_numpy_engine", "gen_env_clock", "gen_menv_clock",
           # session 5
           "x_edge_", "x_env_edge", "x_menv_edge", "x_offgrid_resting", "gen_env_ledger", "gen_menv_ledger", "rand_env_ledger", "x_env_overflow",
           "x_rand_env_overflow", "rand_reload_ties", "agent_helpers", "py_env_layout_low", "py_numpy_layout_low", "py_env_layout_requeue",
           "py_env_offgrid_modify", "py_book_offgrid_modify")
    NEWTXT = ("env_every_size", "sim_runner_", "market_sim_runner_", '"kind": "code"', "StepEnv(seed=", "settime")
    f0 = ""
    for c in det:
        f0 = (m.get("checks", {}).get(c, {}) or {}).get("first") or ""
        if f0:
            break
    stage = f0[3:].split(":")[0].strip() if f0.startswith("->") else ""
    by_new_stage = bool(det) and (stage.startswith(NEW) or any(t in f0 for t in NEWTXT) or m.get("strengthened_before_first_run"))
    missed_before = by_new_stage or any(not any(x.get("rc") == 1 for x in (h.get("checks") or {}).values()) for h in m.get("check_history", []) if h.get("checks"))
    rows.append("| %s_%s | %s | %s%s | %s |" % (m["property"], m["variant"], summ, ", ".join(det) or "**none**",
                                               " (after strengthening)" if missed_before and det else "", first))
print("| change | what it does | caught by | first report |\n|---|---|---|---|")
print("\n".join(rows))
