#!/usr/bin/env python3
"""Print the markdown table of seeded changes (seeded/*/meta.json) for DESIGN.md."""
import json, glob, os, re
rows = []
for d in sorted(glob.glob("/verif/seeded/*/")):
    m = json.load(open(d + "meta.json"))
    summ = (m.get("summary") or "").replace("\n", " ").replace("|", "/")
    summ = re.sub(r"\s+", " ", summ)[:230]
    det = m.get("detected_by") or []
    first = ""
    for c in det:
        f = (m.get("checks", {}).get(c, {}) or {}).get("first") or ""
        if f:
            first = re.sub(r"\s+", " ", f.replace("|", "/"))[3:150]
            break
    missed_before = any(not any(x.get("rc") == 1 for x in (h.get("checks") or {}).values()) for h in m.get("check_history", []) if h.get("checks"))
    rows.append("| %s_%s | %s | %s%s | %s |" % (m["property"], m["variant"], summ, ", ".join(det) or "**none**",
                                               " (after strengthening)" if missed_before and det else "", first))
print("| change | what it does | caught by | first report |\n|---|---|---|---|")
print("\n".join(rows))
