#!/usr/bin/env python3
"""Confirm a seeded change delivered by a sub-agent and run checks against it.
usage: seedtest.py <PROP> <variant> [--checks=C01,C02] [--skip-confirm] [--tier=quick]
Input: /tmp/wt_<PROP>/_seeded/<variant>/{patch.diff, demo.rs|demo.py, README.md} (scratch worktree /tmp/wt_<PROP>).
Confirms there (suite passes with the change; demo fails with it and passes without), then applies the patch to /repo,
runs the checks, undoes it (git checkout -- .) and stores everything under /verif/seeded/<PROP>_<variant>/."""
import json, os, re, shutil, subprocess, sys, time


def sh(cmd, cwd=None, env=None, timeout=7200):
    r = subprocess.run(cmd, shell=True, cwd=cwd, env=env, text=True, capture_output=True, timeout=timeout)
    return r.returncode, r.stdout + r.stderr


def run_demo(wt, demo, env, tag):
    if demo.endswith(".rs"):
        # the README says which crate's tests directory the demonstration belongs to
        rd = os.path.join(os.path.dirname(demo), "README.md")
        crate_dir = "step_sim"
        if os.path.exists(rd):
            m = re.search(r"crates/(order_book|step_sim|macros)/tests", open(rd).read())
            if m:
                crate_dir = m.group(1)
        pkg = {"order_book": "bourse-book", "step_sim": "bourse-de", "macros": "bourse-macros"}[crate_dir]
        dest = "crates/%s/tests/%s.rs" % (crate_dir, tag)
        os.makedirs(os.path.dirname(os.path.join(wt, dest)), exist_ok=True)
        shutil.copy(demo, os.path.join(wt, dest))
        rc, o = sh("cargo test -p %s --offline --test %s 2>&1 | tail -25" % (pkg, tag), cwd=wt, env=env)
        os.remove(os.path.join(wt, dest))
        ok = "test result: ok" in o and "FAILED" not in o and "error" not in o.split("test result")[0][-200:]
        return ok, o
    # python demo: build the extension in the worktree and assemble a package
    rc, o = sh("PYO3_PYTHON=$(which python3-vt) cargo build -p bourse --offline 2>&1 | tail -3", cwd=wt, env=env)
    pkg = os.path.join(wt, "_pkg")
    shutil.rmtree(pkg, ignore_errors=True)
    shutil.copytree(os.path.join(wt, "src/bourse"), os.path.join(pkg, "bourse"))
    shutil.copy(os.path.join(wt, "target/debug/libbourse.so"), os.path.join(pkg, "bourse/core.so"))
    rc, o2 = sh("PYTHONPATH=%s:/verif/py/standins python3-vt %s 2>&1 | tail -25" % (pkg, demo), cwd=wt, env=env)
    rc2, _ = sh("PYTHONPATH=%s:/verif/py/standins python3-vt %s >/dev/null 2>&1" % (pkg, demo), cwd=wt, env=env)
    return rc2 == 0, o + o2


def main():
    prop, var = sys.argv[1], sys.argv[2]
    checks, confirm, tier = [prop], True, "quick"
    for a in sys.argv[3:]:
        if a.startswith("--checks="):
            checks = a.split("=", 1)[1].split(",")
        if a == "--skip-confirm":
            confirm = False
        if a.startswith("--tier="):
            tier = a.split("=", 1)[1]
    wt = "/tmp/wt_%s" % prop
    for a in sys.argv[3:]:
        if a.startswith("--wt="):
            wt = a.split("=", 1)[1]
    src = os.path.join(wt, "_seeded", var)
    d = "/verif/seeded/%s_%s" % (prop, var)
    if not os.path.isdir(src):
        src = d            # re-run against a stored change
        confirm = False
    patch = os.path.join(src, "patch.diff")
    demo = [os.path.join(src, f) for f in os.listdir(src) if f.startswith("demo.")][0]
    readme = os.path.join(src, "README.md")
    mp = os.path.join(d, "meta.json")
    out = json.load(open(mp)) if os.path.exists(mp) else {"property": prop, "variant": var, "ran": []}
    if os.path.exists(readme) and src != d:
        txt = open(readme).read()
        out["notes_file"] = "README.md (written by the sub-agent that made the change: what was changed, what it needs to manifest)"
        m = re.search(r"(?is)what it needs[^\n]*\n(.*?)(\n#|\Z)", txt)
        out["needs"] = (m.group(1).strip()[:1500] if m else txt[:1500])
        m = re.search(r"(?is)what was changed[^\n]*\n(.*?)(\n#|\Z)", txt)
        out["summary"] = (m.group(1).strip()[:1500] if m else "")
    env = dict(os.environ, CARGO_TARGET_DIR=wt + "/target", CARGO_NET_OFFLINE="true")
    if confirm:
        sh("git checkout -- . ", cwd=wt)
        rc, o = sh("git apply %s" % patch, cwd=wt)
        assert rc == 0, o
        rc, o = sh("cargo test --workspace --no-fail-fast --offline --lib --tests 2>&1 | grep -E 'test result|FAILED|panicked|error' ", cwd=wt, env=env)
        passed = sum(int(x) for x in re.findall(r"(\d+) passed", o))
        failed = sum(int(x) for x in re.findall(r"(\d+) failed", o))
        out["ran"].append("with change: cargo test --workspace --lib --tests -> %d passed, %d failed" % (passed, failed))
        out["suite_passes_with_change"] = (passed == 39 and failed == 0)
        tag = "seeded_%s_%s" % (prop.lower(), var)
        ok1, o1 = run_demo(wt, demo, env, tag)
        out["demo_fails_with_change"] = not ok1
        out["ran"].append("with change: demo %s -> %s" % (os.path.basename(demo), "passes" if ok1 else "fails"))
        sh("git checkout -- .", cwd=wt)
        ok2, o2 = run_demo(wt, demo, env, tag)
        out["demo_passes_without_change"] = ok2
        out["ran"].append("without change: demo -> %s" % ("passes" if ok2 else "fails"))
        print("confirm:", {k: out[k] for k in ("suite_passes_with_change", "demo_fails_with_change", "demo_passes_without_change")}, flush=True)
        if not (out["suite_passes_with_change"] and out["demo_fails_with_change"] and out["demo_passes_without_change"]):
            print(o[-1500:]); print(o1[-2500:]); print(o2[-2500:])
            return 1
    sandbox = "--sandbox" in sys.argv
    if sandbox:
        # a private copy of the repository (HEAD + the change) and of /verif (HEAD, pointed at that copy): several changes can be
        # examined at the same time and /repo itself is never touched
        sb = "/tmp/sb_%s_%s" % (prop, var)
        sh("git -C /repo worktree remove --force %s/repo; git -C /verif worktree remove --force %s/verif; rm -rf %s" % (sb, sb, sb))
        os.makedirs(sb)
        rc, o = sh("git -C /repo worktree add --detach %s/repo HEAD && git -C /verif worktree add --detach %s/verif HEAD && cd %s/verif && tools/relocate.sh %s/repo" % (sb, sb, sb, sb))
        assert rc == 0, o
        repo_dir, verif_dir = sb + "/repo", sb + "/verif"
    else:
        repo_dir, verif_dir = "/repo", "/verif"
        rc, o = sh("git status --porcelain", cwd="/repo")
        assert o.strip() == "", "/repo not clean: " + o
    rc, o = sh("git apply %s" % patch, cwd=repo_dir)
    assert rc == 0, o
    det = {}
    try:
        for c in checks:
            t = time.time()
            rc, o = sh("./check %s --tier %s" % (c, tier), cwd=verif_dir)
            viol = [l for l in o.splitlines() if l.startswith("VIOLATION")]
            why = [l for l in o.splitlines() if l.startswith("  -> ")]
            det[c] = {"rc": rc, "violations": len(viol), "first": (why[0].strip()[:600] if why else None), "wall_s": round(time.time() - t)}
            print("check", c, det[c], flush=True)
            if rc == 2:
                print(o[-2500:])
    finally:
        if sandbox:
            sh("git -C /repo worktree remove --force %s/repo; git -C /verif worktree remove --force %s/verif; rm -rf %s" % (sb, sb, sb))
        else:
            sh("git checkout -- .", cwd="/repo")
    if "checks" in out:
        out.setdefault("check_history", []).append({"checks": out["checks"], "note": "earlier result"})
    out["checks"] = det
    out["detected_by"] = [c for c, x in det.items() if x["rc"] == 1]
    out["ran"].append("checks run against the change (%s tier): " % tier + ", ".join("%s rc=%s" % (c, det[c]["rc"]) for c in det))
    os.makedirs(d, exist_ok=True)
    if src != d:
        shutil.copy(patch, d)
        shutil.copy(demo, d)
        if os.path.exists(readme):
            shutil.copy(readme, d)
    json.dump(out, open(mp, "w"), indent=1)
    print("stored", d, "detected_by", out["detected_by"])
    # evidence files were rewritten by runs against a changed tree: they are not evidence
    return 0


if __name__ == "__main__":
    sys.exit(main())
