#!/bin/bash
# usage: seedquick.sh <seeded-id> <PROP> [VERIF_ONLY regex]   - apply a stored seeded change, run one check (optionally some stages), undo
cd /verif
git -C /repo status --porcelain | grep -q . && { echo "/repo not clean"; exit 2; }
git -C /repo apply /verif/seeded/$1/patch.diff || exit 2
VERIF_ONLY="$3" ./check $2 2>&1 | grep -v "skipped" | grep "VIOLATION\|  -> \|TOOL-ERROR\|tier done" | head -${4:-6}
git -C /repo checkout -- .
[ -z "$3" ] && git -C /verif checkout -- evidence/$2.json
