#!/usr/bin/env python3
"""Compose the brief handed to a fresh sub-agent that is asked for seeded changes.
usage: seedprompt.py <PROP> <worktree> <variant1> <variant2>
The brief contains the property's text and the scratch worktree only - nothing about /verif's checks.
Earlier seeded changes for the property are named in one line each, only so that they are not repeated."""
import json, os, sys

prop, wt, v1, v2 = sys.argv[1:5]
P = None
for l in open("/verif/properties.jsonl"):
    d = json.loads(l)
    if d["id"] == prop:
        P = d
prev = []
for dn in sorted(os.listdir("/verif/seeded")):
    if dn.startswith(prop + "_"):
        try:
            m = json.load(open("/verif/seeded/%s/meta.json" % dn))
            s = (m.get("summary") or m.get("what") or "").replace("\n", " ")[:300]
            if s:
                prev.append("- " + s)
        except Exception:
            pass
py = prop in ("C18", "C19")
print("""You are working on the open-source project zombie-einstein/bourse (a Rust limit-order-book matching engine with
price-time priority, a seeded discrete-event multi-agent market simulator on top of it, and PyO3 Python bindings).
Your own scratch git worktree of it is at %(wt)s . Work ONLY inside that directory. Never read or write /repo or /verif.
Always build and test with  CARGO_TARGET_DIR=%(wt)s/target  and  --offline  (there is no network; a warm target dir is already there).

This is an exercise in testing a verification framework against realistic breakage. Here is a semantic property the
project is supposed to satisfy:

  %(id)s - %(title)s
  %(stmt)s

  Where it lives in the code: %(anchors)s

YOUR TASK: produce TWO independent changes (call them variant "%(v1)s" and variant "%(v2)s") to the LIBRARY code of the project
(crates/*/src, rust/src, src/bourse - not tests, not docs) such that each change, applied alone to the clean tree:
  1. still compiles, and the existing test suite still passes unedited:
       cd %(wt)s && CARGO_TARGET_DIR=%(wt)s/target cargo test --workspace --no-fail-fast --offline --lib --tests
     (39 tests; all must pass with your change);
  2. BREAKS the property above (a real semantic violation of the property as stated, not merely a style change);
  3. looks like something a well-meaning developer could plausibly commit (an "optimisation", refactor, clean-up,
     early-return, caching, de-duplication, off-by-one in a rarely used branch, ...), small (a few lines to ~30 lines);
  4. needs something SPECIFIC to manifest - a particular multi-step sequence of operations, a particular interleaving or
     processing order, an unusual (but valid) input, a boundary value, state left over from an earlier call, or two cooperating
     sites that each look fine alone - NOT something that ordinary use exposes at once. Valid inputs only: order volumes are
     >= 1, limit prices for new orders are multiples of the tick size, the clock is never moved backwards by the caller.
  5. the two variants should be genuinely different from each other (different mechanism / different code path).
%(prevtxt)s
For each variant deliver, under %(wt)s/_seeded/<variant>/ :
  - patch.diff : output of `git diff` (from the clean HEAD, library code only) for that variant alone;
  - %(demo)s
    The demonstration must FAIL with the change applied and PASS on the clean tree. Verify both yourself.
  - README.md with exactly these two sections: "## What was changed" (files, functions, the rationale a developer might give)
    and "## What it needs to manifest" (the specific sequence / input / interleaving needed and why ordinary use does not show it).
    If the demonstration is a Rust test, README.md must mention the directory it belongs to, e.g. `crates/order_book/tests` or `crates/step_sim/tests` or `crates/macros/tests`.

When you are done, leave the worktree's tracked files clean (`git checkout -- .`; remove any test file you copied into crates/*/tests),
keeping only the untracked %(wt)s/_seeded/ directory. Report briefly what each variant does and the exact commands you ran to
confirm (suite passes with change; demo fails with change; demo passes without).""" % dict(
    wt=wt, id=P["id"], title=P["title"], stmt=P["statement"], anchors=json.dumps(P.get("anchors", {}))[:3500], v1=v1, v2=v2,
    prevtxt=("\nDo NOT repeat these ideas, which have been used already:\n" + "\n".join(prev) + "\n") if prev else "",
    demo=("demo.py : a small Python program (exit status 0 = property holds, non-zero = broken) that drives the built extension. Build: "
          "cd %s && PYO3_PYTHON=$(which python3-vt) CARGO_TARGET_DIR=%s/target cargo build -p bourse --offline ; then assemble a package: "
          "mkdir -p %s/_pkg && cp -r %s/src/bourse %s/_pkg/ && cp %s/target/debug/libbourse.so %s/_pkg/bourse/core.so ; run with "
          "PYTHONPATH=%s/_pkg:/opt/standins python3-vt demo.py  (pandas and tqdm are not installed; if you need them write tiny stand-in modules next to demo.py and say so). "
          "A Rust test demo.rs is also acceptable if the breakage is visible from Rust." % ((wt,) * 8)) if py else
         "demo.rs : a self-contained Rust integration test file (uses only the crate's public API; crates: bourse_book = crates/order_book, "
         "bourse_de = crates/step_sim, bourse_macros = crates/macros) that can be dropped into crates/<crate>/tests/ and run with "
         "`cargo test -p <package> --offline --test <name>` (package names: bourse-book, bourse-de, bourse-macros)."))
