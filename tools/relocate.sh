#!/bin/bash
# usage: tools/relocate.sh <path of a copy of the repository>
# For background runs from a snapshot of /verif (vp run --with-repo): point the harnesses and the orchestrator of THIS copy of
# /verif at another copy of the repository, so that the run is not disturbed by seeded changes applied to /repo meanwhile.
# Never used by the registered checks, which always build from /repo itself.
set -e
here=$(cd "$(dirname "$0")/.." && pwd)
r=${1:?repository path}
sed -i "s#\"/repo/#\"$r/#g; s#cwd=\"/repo\"#cwd=\"$r\"#" "$here/vlib/core.py" "$here/vlib/props.py"
sed -i "s#path = \"/repo/#path = \"$r/#" "$here/harness/Cargo.toml" "$here/harness_shapes/Cargo.toml"
sed -i "s#git -C /repo#git -C $r#" "$here/tools/runall.sh"
echo "relocated $here to $r"
