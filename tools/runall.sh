#!/bin/bash
# run every check's quick (or $1) tier on the current tree; one line per check
cd "$(dirname "$0")/.."
tier=${1:-quick}
git -C /repo status --porcelain | grep -q . && { echo "/repo not clean"; exit 2; }
for p in C01 C02 C03 C04 C05 C06 C07 C08 C09 C10 C11 C12 C13 C14 C15 C16 C17 C18 C19 C20; do
  s=$(date +%s)
  ./check $p --tier $tier > work/runall_$p.out 2> work/runall_$p.err; rc=$?
  e=$(date +%s)
  echo "$p rc=$rc $((e-s))s $(grep -c '^VIOLATION' work/runall_$p.out) violations $(grep -c '^KNOWN-FINDING' work/runall_$p.out) known"
done
