#!/bin/bash
# usage: seedpar.sh <worktree prefix, e.g. /tmp/wt6_> <parallel jobs> "C03 k" "C03 l" ...
# like seedbatch.sh, but every change is examined in a private copy of /repo and of the committed /verif (seedtest.py --sandbox)
cd /verif
pre=$1; par=$2; shift; shift
printf '%s\n' "$@" | xargs -P $par -I{} bash -c 'set -- {}; python3 tools/seedtest.py $1 $2 --wt='$pre'$1 --sandbox 2>&1 | grep -v "^WARNING" | tail -3 | sed "s/^/[$1 $2] /"'
