#!/bin/bash
# re-run every stored seeded change against its property's quick check (sequential: each applies a patch to /repo)
cd /verif
for d in seeded/*/; do
  n=$(basename $d); p=${n%_*}; v=${n#*_}
  python3 tools/seedtest.py $p $v --skip-confirm 2>&1 | tail -1
done
git -C /repo status --porcelain
