#!/usr/bin/env python3
"""Confirm a seeded change from a sub-agent and run checks against it.
usage: mutest.py <PROP> <variant> [--checks C01,C02] [--skip-confirm]
Reads /tmp/mut/out/<PROP>/<variant>/{patch.diff,demo.rs,meta.json}; confirms in the scratch worktree
/tmp/mut/<PROP> (suite passes with the change, demo fails with / passes without), then applies the patch to
/repo, runs the checks, undoes it, and stores everything under /verif/seeded/<PROP>_<variant>/."""
import json, os, re, shutil, subprocess, sys, time

def sh(cmd, cwd=None, env=None, timeout=3600):
    r = subprocess.run(cmd, shell=True, cwd=cwd, env=env, text=True, capture_output=True, timeout=timeout)
    return r.returncode, r.stdout + r.stderr

def main():
    prop, var = sys.argv[1], sys.argv[2]
    checks = [prop]
    confirm = True
    for a in sys.argv[3:]:
        if a.startswith("--checks"):
            checks = a.split("=", 1)[1].split(",")
        if a == "--skip-confirm":
            confirm = False
    src = "/tmp/mut/out/%s/%s" % (prop, var)
    wt = "/tmp/mut/%s" % prop
    patch = os.path.join(src, "patch.diff")
    demo = os.path.join(src, "demo.rs")
    meta = json.load(open(os.path.join(src, "meta.json")))
    out = {"property": prop, "variant": var, "summary": meta.get("summary"), "needs": meta.get("needs"), "ran": []}
    env = dict(os.environ, CARGO_TARGET_DIR=wt + "/target", CARGO_NET_OFFLINE="true")
    if confirm:
        head = open(demo).read()[:1500]
        m = re.search(r"(crates/\w+/tests/[\w.]+\.rs)", head)
        dest = m.group(1) if m else "crates/order_book/tests/demo_%s_%s.rs" % (prop.lower(), var)
        sh("git checkout -- . && git clean -fdq -e target", cwd=wt)
        rc, o = sh("git apply %s" % patch, cwd=wt)
        assert rc == 0, o
        rc, o = sh("cargo test --workspace --no-fail-fast --offline --lib --tests 2>&1 | grep -E 'test result|FAILED|panicked' ", cwd=wt, env=env)
        passed = sum(int(x) for x in re.findall(r"(\d+) passed", o)); failed = sum(int(x) for x in re.findall(r"(\d+) failed", o))
        out["ran"].append("with change: cargo test --workspace --lib -> %d passed, %d failed" % (passed, failed))
        out["suite_passes_with_change"] = (passed == 39 and failed == 0)
        os.makedirs(os.path.dirname(os.path.join(wt, dest)), exist_ok=True)
        shutil.copy(demo, os.path.join(wt, dest))
        crate = {"order_book": "bourse-book", "step_sim": "bourse-de", "macros": "bourse-macros"}.get(dest.split("/")[1], "bourse-book")
        tname = os.path.basename(dest)[:-3]
        rc1, o1 = sh("cargo test -p %s --offline --test %s 2>&1 | tail -15" % (crate, tname), cwd=wt, env=env)
        out["ran"].append("with change: demo %s -> rc %d" % (dest, rc1))
        rc1 = 0 if ("test result: ok" in o1 and "FAILED" not in o1) else 1
        out["demo_fails_with_change"] = rc1 != 0
        sh("git apply -R %s" % patch, cwd=wt)
        rc2, o2 = sh("cargo test -p %s --offline --test %s 2>&1 | tail -15" % (crate, tname), cwd=wt, env=env)
        out["ran"].append("without change: demo -> rc %d" % rc2)
        rc2 = 0 if ("test result: ok" in o2 and "FAILED" not in o2) else 1
        out["demo_passes_without_change"] = rc2 == 0
        sh("git checkout -- . && git clean -fdq -e target", cwd=wt)
        out["demo_path"] = dest
        print("confirm:", {k: out[k] for k in ("suite_passes_with_change", "demo_fails_with_change", "demo_passes_without_change")}, flush=True)
        if not (out["suite_passes_with_change"] and out["demo_fails_with_change"] and out["demo_passes_without_change"]):
            print(o[-1500:]); print(o1[-1500:]); print(o2[-1500:])
    if "--confirm-only" in sys.argv:
        d = "/verif/seeded/%s_%s" % (prop, var)
        old = json.load(open(os.path.join(d, "meta.json")))
        old.update({k: out[k] for k in out if k not in ("checks", "detected_by")})
        json.dump(old, open(os.path.join(d, "meta.json"), "w"), indent=1)
        return
    # run the checks against the change
    rc, o = sh("git status --porcelain", cwd="/repo")
    assert o.strip() == "", "/repo not clean: " + o
    rc, o = sh("git apply %s" % patch, cwd="/repo")
    assert rc == 0, o
    det = {}
    try:
        for c in checks:
            t = time.time()
            rc, o = sh("./check %s --tier quick" % c, cwd="/verif")
            viol = [l for l in o.splitlines() if l.startswith("VIOLATION")]
            why = [l for l in o.splitlines() if l.startswith("  -> ")]
            det[c] = {"rc": rc, "violations": len(viol), "first": (why[0].strip() if why else None), "wall_s": round(time.time() - t)}
            print("check", c, det[c], flush=True)
            if rc == 2:
                print(o[-2000:])
    finally:
        sh("git checkout -- .", cwd="/repo")
    out["checks"] = det
    out["detected_by"] = [c for c, d in det.items() if d["rc"] == 1]
    d = "/verif/seeded/%s_%s" % (prop, var)
    os.makedirs(d, exist_ok=True)
    shutil.copy(patch, d); shutil.copy(demo, d)
    mp = os.path.join(d, "meta.json")
    if os.path.exists(mp):
        old = json.load(open(mp))
        for k in ("suite_passes_with_change", "demo_fails_with_change", "demo_passes_without_change", "demo_path"):
            if k in old and k not in out:
                out[k] = old[k]
        out["ran"] = old.get("ran", []) + [r for r in out["ran"] if r not in old.get("ran", [])]
        if not confirm:
            hist = old.get("check_history", [])
            hist.append({"checks": old.get("checks"), "note": "result before the checks were strengthened"})
            out["check_history"] = hist
    out["ran"].append("checks run against the change: " + ", ".join("%s rc=%s" % (c, det[c]["rc"]) for c in det))
    json.dump(out, open(mp, "w"), indent=1)
    print("stored", d, "detected_by", out["detected_by"])

if __name__ == "__main__":
    main()
