#!/bin/bash
cd /verif
for pv in "C05 c" "C05 d" "C07 c" "C07 d" "C08 c" "C08 d" "C11 c" "C11 d" "C14 c" "C14 d" "C16 c" "C16 d"; do
  set -- $pv
  python3 tools/seedtest.py $1 $2 --wt=/tmp/wt2_$1 2>&1 | tail -3
done
git -C /repo status --porcelain
