//! Random sources for drivers.
use rand::RngCore;

/// A generator that first replays a script of raw 64-bit words and then falls
/// back to an inner generator.  Used to force boundary draws (0, all-ones)
/// without assuming how the code maps draws to decisions.
pub struct Scripted<R: RngCore> {
    pub script: Vec<u64>,
    pub pos: usize,
    pub inner: R,
    pub draws: u64,
}

impl<R: RngCore> Scripted<R> {
    pub fn new(script: Vec<u64>, inner: R) -> Self {
        Self { script, pos: 0, inner, draws: 0 }
    }
}

impl<R: RngCore> RngCore for Scripted<R> {
    fn next_u32(&mut self) -> u32 {
        (self.next_u64() >> 32) as u32
    }
    fn next_u64(&mut self) -> u64 {
        self.draws += 1;
        if self.pos < self.script.len() {
            self.pos += 1;
            self.script[self.pos - 1]
        } else {
            self.inner.next_u64()
        }
    }
    fn fill_bytes(&mut self, dest: &mut [u8]) {
        for chunk in dest.chunks_mut(8) {
            let w = self.next_u64().to_le_bytes();
            chunk.copy_from_slice(&w[..chunk.len()]);
        }
    }
    fn try_fill_bytes(&mut self, dest: &mut [u8]) -> Result<(), rand::Error> {
        self.fill_bytes(dest);
        Ok(())
    }
}
