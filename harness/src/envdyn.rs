//! Simulation environments (Env<L>, MarketEnv<A, L>) and markets (Market<A, L>) of any
//! const-generic shape behind one interface, projected into the JSON shapes of
//! MarketOps!ProjEnv / ProjMkt.
use crate::apply::{opt_price, opt_u32, side_of, get_u64, get_usize};
use crate::proj::{book_proj, l2_value, price_s};
use bourse_book::types::{Event, Level2Data};
use bourse_book::Market;
use bourse_de::Level2DataRecords;
use bourse_de::{Env, MarketEnv};
use rand::RngCore;
use serde_json::{json, Value};

fn opt_s(x: Option<u32>) -> i64 {
    match x {
        Some(v) => price_s(v),
        None => -1,
    }
}

fn kind_s(k: u8) -> &'static str {
    match k {
        0 => "new",
        1 => "cancel",
        _ => "modify",
    }
}

fn prices_v(v: &[u32]) -> Value {
    Value::Array(v.iter().map(|p| json!(price_s(*p))).collect())
}

fn rec_value<const L: usize>(
    r: &Level2DataRecords<L>,
    prices: &(Vec<u32>, Vec<u32>),
    volumes: &(Vec<u32>, Vec<u32>),
    touch_vols: (&Vec<u32>, &Vec<u32>),
    touch_counts: (&Vec<u32>, &Vec<u32>),
    trade_vols: &Vec<u32>,
) -> Value {
    json!({
        "prices": [prices_v(&prices.0), prices_v(&prices.1)],
        "volumes": [volumes.0, volumes.1],
        "touch_vols": [touch_vols.0, touch_vols.1],
        "touch_counts": [touch_counts.0, touch_counts.1],
        "bid_level_vols": r.volumes_at_levels.0.iter().collect::<Vec<_>>(),
        "bid_level_counts": r.orders_at_levels.0.iter().collect::<Vec<_>>(),
        "ask_level_vols": r.volumes_at_levels.1.iter().collect::<Vec<_>>(),
        "ask_level_counts": r.orders_at_levels.1.iter().collect::<Vec<_>>(),
        // the same series through the record structure itself (must agree with the getters)
        "rec_prices": [prices_v(&r.prices.0), prices_v(&r.prices.1)],
        "rec_volumes": [r.volumes.0, r.volumes.1],
        "trade_vols": trade_vols,
    })
}

pub trait EnvDyn {
    fn assets(&self) -> usize;
    /// submit label -> ret (order id, -1 for a rejected creation, Null for cancel / modify)
    fn submit(&mut self, l: &Value) -> Value;
    fn step(&mut self, rng: &mut dyn RngCore);
    fn enable(&mut self);
    fn disable(&mut self);
    fn proj(&self) -> Value;
    /// instructions processed by the last step, in processing order (verif_schedule hook)
    fn schedule(&self) -> Value;
}

impl<const L: usize> EnvDyn for Env<L> {
    fn assets(&self) -> usize {
        1
    }
    fn submit(&mut self, l: &Value) -> Value {
        match l["k"].as_str() {
            Some("new") => {
                match self.place_order(side_of(&l["side"]), get_u64(l, "vol") as u32, get_u64(l, "tr") as u32, opt_price(&l["price"])) {
                    Ok(id) => json!(id),
                    Err(_) => json!(-1),
                }
            }
            Some("cancel") => {
                self.cancel_order(get_usize(l, "id"));
                Value::Null
            }
            Some("modify") => {
                self.modify_order(get_usize(l, "id"), opt_price(&l["p"]), opt_u32(&l["v"]));
                Value::Null
            }
            _ => panic!("harness: bad submit label {}", l),
        }
    }
    fn step(&mut self, mut rng: &mut dyn RngCore) {
        Env::step(self, &mut rng);
    }
    fn enable(&mut self) {
        self.enable_trading();
    }
    fn disable(&mut self) {
        self.disable_trading();
    }
    fn proj(&self) -> Value {
        let b = self.get_orderbook();
        let pend: Vec<Value> = self.verif_pending().iter().map(|(k, id, p, v)| json!([kind_s(*k), 0, id, opt_s(*p), opt_s(*v)])).collect();
        let h = self.get_level_2_data_history();
        json!({
            "books": [book_proj(b)],
            "env_orders": [crate::proj::orders_value(&self.get_orders())],
            // the per-order getters of the environment: order(id) and order_status(id) for every id
            "env_order_by_id": [(0..self.get_orders().len()).map(|i| crate::proj::order_tuple(self.order(i))).collect::<Vec<_>>()],
            "env_statuses": [(0..self.get_orders().len()).map(|i| json!(crate::proj::status_s(self.order_status(i)))).collect::<Vec<_>>()],
            "env_trades": [crate::proj::trades_value(self.get_trades())],
            "now": crate::proj::time_s(b.get_time()),
            "pending": pend,
            "l2": [l2_value(self.level_2_data())],
            "rec": [rec_value(h, self.get_prices(), self.get_volumes(), self.get_touch_volumes(), self.get_touch_order_counts(), self.get_trade_vols())],
            "nsteps": self.get_trade_vols().len(),
        })
    }
    fn schedule(&self) -> Value {
        Value::Array(self.verif_schedule().iter().map(|(k, id, p, v)| json!([kind_s(*k), 0, id, opt_s(*p), opt_s(*v)])).collect())
    }
}

impl<const A: usize, const L: usize> EnvDyn for MarketEnv<A, L> {
    fn assets(&self) -> usize {
        A
    }
    fn submit(&mut self, l: &Value) -> Value {
        let a = get_usize(l, "a");
        match l["k"].as_str() {
            Some("new") => {
                match self.place_order(a, side_of(&l["side"]), get_u64(l, "vol") as u32, get_u64(l, "tr") as u32, opt_price(&l["price"])) {
                    Ok((aa, id)) => {
                        if aa != a {
                            json!(format!("order id names asset {} but the order was sent to asset {}", aa, a))
                        } else {
                            json!(id)
                        }
                    }
                    Err(_) => json!(-1),
                }
            }
            Some("cancel") => {
                self.cancel_order((a, get_usize(l, "id")));
                Value::Null
            }
            Some("modify") => {
                self.modify_order((a, get_usize(l, "id")), opt_price(&l["p"]), opt_u32(&l["v"]));
                Value::Null
            }
            _ => panic!("harness: bad submit label {}", l),
        }
    }
    fn step(&mut self, mut rng: &mut dyn RngCore) {
        MarketEnv::step(self, &mut rng);
    }
    fn enable(&mut self) {
        self.enable_trading();
    }
    fn disable(&mut self) {
        self.disable_trading();
    }
    fn proj(&self) -> Value {
        let m = self.get_market();
        let pend: Vec<Value> = self.verif_pending().iter().map(|(k, id, p, v)| json!([kind_s(*k), id.0, id.1, opt_s(*p), opt_s(*v)])).collect();
        let l2: &[Level2Data<L>; A] = self.level_2_data();
        json!({
            "books": (0..A).map(|a| book_proj(m.get_order_book(a))).collect::<Vec<_>>(),
            "env_orders": (0..A).map(|a| crate::proj::orders_value(&self.get_orders(a))).collect::<Vec<_>>(),
            "env_order_by_id": (0..A).map(|a| (0..self.get_orders(a).len()).map(|i| crate::proj::order_tuple(self.order((a, i)))).collect::<Vec<_>>()).collect::<Vec<_>>(),
            "env_statuses": (0..A).map(|a| (0..self.get_orders(a).len()).map(|i| json!(crate::proj::status_s(self.order_status((a, i))))).collect::<Vec<_>>()).collect::<Vec<_>>(),
            "env_trades": (0..A).map(|a| crate::proj::trades_value(self.get_trades(a))).collect::<Vec<_>>(),
            "now": crate::proj::time_s(m.get_time()),
            "pending": pend,
            "l2": l2.iter().map(|d| l2_value(d)).collect::<Vec<_>>(),
            "rec": (0..A).map(|a| rec_value(self.get_level_2_data_history(a), self.get_prices(a), self.get_volumes(a),
                        self.get_touch_volumes(a), self.get_touch_order_counts(a), self.get_trade_vols(a))).collect::<Vec<_>>(),
            "nsteps": self.get_trade_vols(0).len(),
        })
    }
    fn schedule(&self) -> Value {
        Value::Array(self.verif_schedule().iter().map(|(k, id, p, v)| json!([kind_s(*k), id.0, id.1, opt_s(*p), opt_s(*v)])).collect())
    }
}

/// `kind`: "env" (single-asset Env, ticks.len() must be 1) or "menv" (MarketEnv).
pub fn new_env(kind: &str, levels: usize, t0: u64, ticks: &[u32], step: u64, trading: bool) -> Box<dyn EnvDyn> {
    macro_rules! env_l {
        ($($l:literal),*) => {
            match levels {
                $($l => Box::new(Env::<$l>::new(t0, ticks[0], step, trading)) as Box<dyn EnvDyn>,)*
                _ => panic!("harness: unsupported Env level count {}", levels),
            }
        };
    }
    macro_rules! menv_al {
        ($a:literal; $($l:literal),*) => {
            match levels {
                $($l => {
                    let t: [u32; $a] = core::array::from_fn(|i| ticks[i]);
                    Box::new(MarketEnv::<$a, $l>::new(t0, t, step, trading)) as Box<dyn EnvDyn>
                })*
                _ => panic!("harness: unsupported MarketEnv level count {}", levels),
            }
        };
    }
    if kind == "env" {
        assert!(ticks.len() == 1);
        env_l!(1, 2, 3, 4, 10)
    } else {
        match ticks.len() {
            1 => menv_al!(1; 1, 2, 3, 4, 10),
            2 => menv_al!(2; 1, 2, 3, 4, 10),
            3 => menv_al!(3; 1, 2, 3, 4, 10),
            4 => menv_al!(4; 1, 2, 3, 4, 10),
            n => panic!("harness: unsupported asset count {}", n),
        }
    }
}

// ------------------------------------------------------------------------------------------
/// Direct operations on Market<A, L>
pub trait MarketDyn {
    fn apply(&mut self, l: &Value) -> Value;
    fn proj(&self) -> Value;
    fn snapshot(&self, pretty: bool) -> String;
    fn load(&self, s: &str) -> Result<Box<dyn MarketDyn>, String>;
    fn reload_file(&self, pretty: bool) -> Result<Box<dyn MarketDyn>, String>;
    fn load_file_bytes(&self, bytes: &[u8]) -> Result<Box<dyn MarketDyn>, String>;
}

fn pairs(a: &[(u32, u32)]) -> Value {
    Value::Array(a.iter().map(|(v, n)| json!([v, n])).collect())
}

impl<const A: usize, const L: usize> MarketDyn for Market<A, L> {
    fn apply(&mut self, l: &Value) -> Value {
        let op = l["op"].as_str().unwrap_or("?");
        if l["via"] == "book" {
            // the same request made on the book the market hands out (`get_order_book_mut`): the market is a set of independent
            // books, so this is the same operation on that asset
            let a = get_usize(l, "a");
            let b = self.get_order_book_mut(a);
            return match op {
                "create" | "cap" => {
                    let (side, vol, tr, price) = (side_of(&l["side"]), get_u64(l, "vol") as u32, get_u64(l, "tr") as u32, opt_price(&l["price"]));
                    let r = if op == "create" { b.create_order(side, vol, tr, price) } else { b.create_and_place_order(side, vol, tr, price) };
                    match r { Ok(id) => json!(id), Err(_) => json!(-1) }
                }
                "place" => { b.place_order(get_usize(l, "id")); Value::Null }
                "cancel" => { b.cancel_order(get_usize(l, "id")); Value::Null }
                "modify" => { b.modify_order(get_usize(l, "id"), opt_price(&l["p"]), opt_u32(&l["v"])); Value::Null }
                _ => panic!("harness: op {} cannot be made on a book of the market", op),
            };
        }
        match op {
            "create" | "cap" => {
                let a = get_usize(l, "a");
                let (side, vol, tr, price) = (side_of(&l["side"]), get_u64(l, "vol") as u32, get_u64(l, "tr") as u32, opt_price(&l["price"]));
                let r = if op == "create" { self.create_order(a, side, vol, tr, price) } else { self.create_and_place_order(a, side, vol, tr, price) };
                match r {
                    Ok((aa, id)) => if aa == a { json!(id) } else { json!(format!("order id names asset {} but asset {} was addressed", aa, a)) },
                    Err(_) => json!(-1),
                }
            }
            "place" => { self.place_order((get_usize(l, "a"), get_usize(l, "id"))); Value::Null }
            "cancel" => { self.cancel_order((get_usize(l, "a"), get_usize(l, "id"))); Value::Null }
            "modify" => { self.modify_order((get_usize(l, "a"), get_usize(l, "id")), opt_price(&l["p"]), opt_u32(&l["v"])); Value::Null }
            "event" => {
                let id = (get_usize(l, "a"), get_usize(l, "id"));
                let e = match l["k"].as_str() {
                    Some("new") => Event::New { order_id: id },
                    Some("cancel") => Event::Cancellation { order_id: id },
                    Some("modify") => Event::Modify { order_id: id, new_price: opt_price(&l["p"]), new_vol: opt_u32(&l["v"]) },
                    _ => panic!("harness: bad event kind in {}", l),
                };
                self.process_event(e);
                Value::Null
            }
            "settime" => { self.set_time(get_u64(l, "t")); Value::Null }
            "enable" => { self.enable_trading(); Value::Null }
            "disable" => { self.disable_trading(); Value::Null }
            "resettv" => { self.reset_trade_vols(); Value::Null }
            _ => panic!("harness: unknown market op in {}", l),
        }
    }

    fn proj(&self) -> Value {
        let ba = self.bid_asks();
        json!({
            "books": (0..A).map(|a| {
                let mut p = book_proj(self.get_order_book(a));
                // Market::get_orders(asset) and Market::order(id) must show the same records
                let via_market = crate::proj::orders_value(&self.get_orders(a));
                if via_market != p["orders"] { p["orders"] = json!({"book": p["orders"], "market_get_orders": via_market}); }
                let n = self.get_orders(a).len();
                let via_order: Vec<Value> = (0..n).map(|i| crate::proj::order_tuple(self.order((a, i)))).collect();
                if Value::Array(via_order.clone()) != p["orders"] { p["orders"] = json!({"book": p["orders"], "market_order": via_order}); }
                p
            }).collect::<Vec<_>>(),
            "mkt": {
                "now": self.get_time(),
                "bid_asks": ba.iter().map(|(b, a)| json!([price_s(*b), price_s(*a)])).collect::<Vec<_>>(),
                "bid_vols": self.bid_vols().to_vec(),
                "ask_vols": self.ask_vols().to_vec(),
                "bid_best": pairs(&self.bid_best_vol_and_orders()),
                "ask_best": pairs(&self.ask_best_vol_and_orders()),
                "bid_best_vols": self.bid_best_vols().to_vec(),
                "ask_best_vols": self.ask_best_vols().to_vec(),
                "bid_levels": self.bid_levels().iter().map(|x| pairs(x)).collect::<Vec<_>>(),
                "ask_levels": self.ask_levels().iter().map(|x| pairs(x)).collect::<Vec<_>>(),
                "l2": self.level_2_data().iter().map(|d| l2_value(d)).collect::<Vec<_>>(),
                "tvols": self.get_trade_vols().to_vec(),
            }
        })
    }

    fn snapshot(&self, pretty: bool) -> String {
        if pretty { serde_json::to_string_pretty(self).expect("serialise") } else { serde_json::to_string(self).expect("serialise") }
    }

    fn load(&self, s: &str) -> Result<Box<dyn MarketDyn>, String> {
        serde_json::from_str::<Market<A, L>>(s).map(|m| Box::new(m) as Box<dyn MarketDyn>).map_err(|e| e.to_string())
    }

    fn reload_file(&self, pretty: bool) -> Result<Box<dyn MarketDyn>, String> {
        let p = crate::scratch_dir().join(format!("msnap_{}_{:?}.json", std::process::id(), std::thread::current().id()));
        let r = (|| {
            // saving over an existing (for the compact form: longer) snapshot replaces it
            self.save_json(&p, !pretty).map_err(|e| e.to_string())?;
            self.save_json(&p, pretty).map_err(|e| e.to_string())?;
            let m = Market::<A, L>::load_json(&p).map_err(|e| e.to_string())?;
            Ok(Box::new(m) as Box<dyn MarketDyn>)
        })();
        let _ = std::fs::remove_file(&p);
        r
    }

    fn load_file_bytes(&self, bytes: &[u8]) -> Result<Box<dyn MarketDyn>, String> {
        let p = crate::scratch_dir().join(format!("mtrunc_{}_{:?}.json", std::process::id(), std::thread::current().id()));
        std::fs::write(&p, bytes).map_err(|e| e.to_string())?;
        let r = Market::<A, L>::load_json(&p);
        let _ = std::fs::remove_file(&p);
        r.map(|m| Box::new(m) as Box<dyn MarketDyn>).map_err(|e| e.to_string())
    }
}

pub fn new_market(levels: usize, t0: u64, ticks: &[u32], trading: bool) -> Box<dyn MarketDyn> {
    macro_rules! mk_al {
        ($a:literal; $($l:literal),*) => {
            match levels {
                $($l => {
                    let t: [u32; $a] = core::array::from_fn(|i| ticks[i]);
                    Box::new(Market::<$a, $l>::new(t0, t, trading)) as Box<dyn MarketDyn>
                })*
                _ => panic!("harness: unsupported Market level count {}", levels),
            }
        };
    }
    match ticks.len() {
        1 => mk_al!(1; 1, 2, 3, 4, 10),
        2 => mk_al!(2; 1, 2, 3, 4, 10),
        3 => mk_al!(3; 1, 2, 3, 4, 10),
        4 => mk_al!(4; 1, 2, 3, 4, 10),
        n => panic!("harness: unsupported asset count {}", n),
    }
}
