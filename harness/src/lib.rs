//! Conformance harness for bourse: binds the TLA+ specification in /verif/spec
//! to the real code.  Everything here goes through the public API only.
//!
//! * `proj`   - projection of the real objects into the JSON shape `Proj(b)` of
//!              BookOps.tla (sentinels translated, see DESIGN.md 3.6);
//! * `apply`  - application of one specification label (one public call);
//! * `lines`  - reading TLC's `<<"GEN", "...">>` output.
pub mod apply;
pub mod envdyn;
pub mod lines;
pub mod obs;
pub mod proj;
pub mod rngs;

/// The specification's stand-in for `Price::MAX`.
pub const SPEC_MAX_PRICE: i64 = 1 << 30;

/// High-price regime (DESIGN.md 3.6): the real book holds `price + PRICE_OFFSET` where the specification
/// holds `price` (limit prices only; the sentinels 0 / `Price::MAX` and market orders are not shifted).
/// The offset is a multiple of the tick size, so the grid, the levels and every comparison are preserved;
/// what changes is that the implementation's arithmetic runs next to the top of the `u32` range.
pub static PRICE_OFFSET: std::sync::atomic::AtomicU32 = std::sync::atomic::AtomicU32::new(0);

/// Large-volume regime (DESIGN.md 3.6): one specification unit of volume is `VOL_SCALE` in the real book (every volume
/// handed to the book is multiplied, every volume it reports is divided).  Matching is linear in the volumes, so the
/// specification's outcome is the same; what changes is that the implementation's volume arithmetic runs above 2^31.
pub static VOL_SCALE: std::sync::atomic::AtomicU32 = std::sync::atomic::AtomicU32::new(1);

pub fn vol_scale() -> u32 {
    VOL_SCALE.load(std::sync::atomic::Ordering::Relaxed)
}

/// Large-clock regime (DESIGN.md 3.6): real time = specification time * TIME_SCALE + TIME_OFFSET.  The specification only
/// compares, copies and (under the clock discipline) advances times, so it is invariant under such a map; the real book then
/// runs with epoch-like clocks whose successive values differ by more than 2^32.
pub static TIME_SCALE: std::sync::atomic::AtomicU64 = std::sync::atomic::AtomicU64::new(1);
pub static TIME_OFFSET: std::sync::atomic::AtomicU64 = std::sync::atomic::AtomicU64::new(0);

/// specification time -> real time
pub fn time_r(t: u64) -> u64 {
    t.checked_mul(TIME_SCALE.load(std::sync::atomic::Ordering::Relaxed)).and_then(|x| x.checked_add(TIME_OFFSET.load(std::sync::atomic::Ordering::Relaxed)))
        .expect("harness: scaled time out of range")
}

/// Coarse-grid regime (DESIGN.md 3.6): real price = specification price * PRICE_SCALE (limit prices; the tick size is scaled with
/// them, the sentinels 0 / `Price::MAX` are not).  The grid structure is preserved, so the specification's outcome is the same,
/// while the real book runs with a tick size of 10^9 and prices of several 10^9.
pub static PRICE_SCALE: std::sync::atomic::AtomicU32 = std::sync::atomic::AtomicU32::new(1);

pub fn price_scale() -> u32 {
    PRICE_SCALE.load(std::sync::atomic::Ordering::Relaxed)
}

pub fn price_offset() -> u32 {
    PRICE_OFFSET.load(std::sync::atomic::Ordering::Relaxed)
}

/// Run `f`, turning a panic of the code under test into `Err(message)`.
pub fn guarded<T, F: FnOnce() -> T + std::panic::UnwindSafe>(f: F) -> Result<T, String> {
    match std::panic::catch_unwind(f) {
        Ok(v) => Ok(v),
        Err(e) => {
            let msg = if let Some(s) = e.downcast_ref::<&str>() {
                s.to_string()
            } else if let Some(s) = e.downcast_ref::<String>() {
                s.clone()
            } else {
                "panic".to_string()
            };
            Err(msg)
        }
    }
}

/// Silence the default panic message (panics of the code under test are data).
pub fn quiet_panics() {
    std::panic::set_hook(Box::new(|_| {}));
}

/// Scratch directory under /verif/work (never /tmp).
pub fn scratch_dir() -> std::path::PathBuf {
    let base = std::env::var("VERIF_WORK").unwrap_or_else(|_| "/verif/work".to_string());
    let p = std::path::PathBuf::from(base).join("scratch");
    let _ = std::fs::create_dir_all(&p);
    p
}
