//! Projection of real objects into the JSON shape of `Proj(b)` (BookOps.tla).
use crate::{guarded, SPEC_MAX_PRICE};
use bourse_book::types::{Level2Data, Order, Side, Status, Trade};
use bourse_book::OrderBook;
use serde_json::{json, Value};
use std::panic::AssertUnwindSafe;

pub fn price_s(p: u32) -> i64 {
    let off = crate::price_offset() as i64;
    if p == u32::MAX {
        SPEC_MAX_PRICE
    } else if p == 0 {
        0
    } else {
        let k = crate::price_scale() as i64;
        let x = p as i64 - off;
        // (a price that is not a whole multiple of the scale equals no specification price: reported as a negative number)
        if k == 1 { x } else if x % k == 0 { x / k } else { -(p as i64) }
    }
}

/// real time -> specification time (large-clock regime: a time that is not on the scaled grid is reported as it is)
pub fn time_s(t: u64) -> Value {
    let k = crate::TIME_SCALE.load(std::sync::atomic::Ordering::Relaxed);
    let off = crate::TIME_OFFSET.load(std::sync::atomic::Ordering::Relaxed);
    if k == 1 && off == 0 { json!(t) } else if t >= off && (t - off) % k == 0 { json!((t - off) / k) } else { json!(format!("{} (not a scaled specification time)", t)) }
}

pub fn end_s(t: u64) -> Value {
    if t == u64::MAX {
        json!(-1)
    } else {
        time_s(t)
    }
}

pub fn side_s(s: Side) -> &'static str {
    match s {
        Side::Bid => "B",
        Side::Ask => "A",
    }
}

pub fn status_s(s: Status) -> &'static str {
    match s {
        Status::New => "New",
        Status::Active => "Active",
        Status::Filled => "Filled",
        Status::Cancelled => "Cancelled",
        Status::Rejected => "Rejected",
    }
}

/// A volume reported by the real book in the specification's units (large-volume regime: divided by the scale; a volume
/// that is not a whole number of units is reported as it is, which no specification value equals)
pub fn vol_s(v: u32) -> Value {
    let k = crate::vol_scale();
    if k == 1 { json!(v) } else if v % k == 0 { json!(v / k) } else { json!(format!("{} (not a multiple of the volume unit {})", v, k)) }
}

pub fn order_tuple(o: &Order) -> Value {
    json!([
        side_s(o.side),
        status_s(o.status),
        time_s(o.arr_time),
        end_s(o.end_time),
        vol_s(o.vol),
        vol_s(o.start_vol),
        price_s(o.price),
        o.trader_id
    ])
}

pub fn trade_tuple(t: &Trade) -> Value {
    json!([
        time_s(t.t),
        side_s(t.side),
        price_s(t.price),
        vol_s(t.vol),
        t.active_order_id,
        t.passive_order_id
    ])
}

fn pairs(a: &[(u32, u32)]) -> Value {
    Value::Array(a.iter().map(|(v, n)| json!([vol_s(*v), n])).collect())
}

/// One getter, with a panic of the code under test reported as the value.
fn g<F: FnOnce() -> Value>(f: F) -> Value {
    match guarded(AssertUnwindSafe(f)) {
        Ok(v) => v,
        Err(m) => json!(format!("PANIC: {}", m)),
    }
}

/// Twice the mid-price as an integer in the specification's number system.
pub fn mid2_s(mid: f64, bid: u32, ask: u32) -> Value {
    let m2 = mid * 2.0;
    if m2.fract() != 0.0 || !m2.is_finite() {
        return json!(format!("non-integral 2*mid {}", m2));
    }
    // the getter must report (bid + ask) / 2 of the touch prices it reports itself; in the specification's number system that is
    // the sum of the two translated prices (each side translated on its own: sentinels by value, limit prices by offset / scale)
    if m2 as i128 != bid as i128 + ask as i128 {
        return json!(format!("2*mid = {} but bid + ask = {}", m2, bid as u64 + ask as u64));
    }
    json!(price_s(bid) + price_s(ask))
}

pub fn l2_value<const L: usize>(d: &Level2Data<L>) -> Value {
    json!([
        price_s(d.bid_price),
        price_s(d.ask_price),
        vol_s(d.bid_vol),
        vol_s(d.ask_vol),
        pairs(&d.bid_price_levels),
        pairs(&d.ask_price_levels)
    ])
}

/// All market-data views of a book, each through its own public getter.
pub fn views<const L: usize>(b: &OrderBook<L>) -> Value {
    let (bid, ask) = match guarded(AssertUnwindSafe(|| b.bid_ask())) {
        Ok(x) => x,
        Err(m) => return json!(format!("PANIC in bid_ask: {}", m)),
    };
    json!({
        "bid": price_s(bid),
        "ask": price_s(ask),
        "bvol": g(|| vol_s(b.bid_vol())),
        "avol": g(|| vol_s(b.ask_vol())),
        "bbest": g(|| { let (v, n) = b.bid_best_vol_and_orders(); json!([vol_s(v), n]) }),
        "abest": g(|| { let (v, n) = b.ask_best_vol_and_orders(); json!([vol_s(v), n]) }),
        "blev": g(|| pairs(&b.bid_levels())),
        "alev": g(|| pairs(&b.ask_levels())),
        "mid2": g(|| mid2_s(b.mid_price(), bid, ask)),
        "bv": g(|| json!([vol_s(b.bid_best_vol()), vol_s(b.ask_best_vol())])),
        "l1": g(|| {
            let d = b.level_1_data();
            json!([price_s(d.bid_price), price_s(d.ask_price), vol_s(d.bid_vol), vol_s(d.ask_vol),
                   vol_s(d.bid_touch_vol), vol_s(d.ask_touch_vol), d.bid_touch_orders, d.ask_touch_orders])
        }),
        "l2": g(|| l2_value(&b.level_2_data())),
    })
}

/// The trading flag has no getter.  It is read from the serialised form; if the serialised form does not show it (a snapshot
/// format is free to omit a default), it is observed behaviourally on a copy loaded from that snapshot: a market order is
/// rejected exactly when trading is disabled.
pub fn trading_flag<const L: usize>(b: &OrderBook<L>) -> Value {
    let v = match serde_json::to_value(b) {
        Ok(v) => v,
        Err(e) => return json!(format!("serialise error {}", e)),
    };
    if let Some(f) = v.get("trading") {
        if f.is_boolean() {
            return f.clone();
        }
    }
    match serde_json::from_value::<OrderBook<L>>(v) {
        Ok(mut copy) => match guarded(AssertUnwindSafe(|| {
            let id = copy.create_and_place_order(Side::Bid, 1, 0, None).expect("market orders can always be created");
            copy.order(id).status == Status::Rejected
        })) {
            Ok(rejected) => json!(!rejected),
            Err(m) => json!(format!("PANIC probing the trading flag: {}", m)),
        },
        Err(e) => json!(format!("trading flag not observable: {}", e)),
    }
}

pub fn orders_value(orders: &[&Order]) -> Value {
    Value::Array(orders.iter().map(|o| order_tuple(o)).collect())
}

pub fn trades_value(trades: &[Trade]) -> Value {
    Value::Array(trades.iter().map(trade_tuple).collect())
}

/// The key under which each order entry was inserted into its side, as the JSON snapshot shows it
/// ([side, price key, key time]), in the specification's number system: [price key, key time] with
/// bids keyed by MaxPrice - price (BookImpl.tla).
pub fn keys_value<const L: usize>(b: &OrderBook<L>) -> Vec<Value> {
    let v = match serde_json::to_value(b) { Ok(v) => v, Err(_) => return vec![] };
    v["orders"].as_array().map(|a| a.iter().map(|e| {
        let k = &e["key"];
        let pk = k[1].as_u64().unwrap_or(0) as u32;
        let spk = if k[0] == "Bid" { SPEC_MAX_PRICE - price_s(u32::MAX - pk) } else { price_s(pk) };
        json!([spk, k[2]])
    }).collect()).unwrap_or_default()
}

/// `Proj(b)` of the real book.
pub fn book_proj<const L: usize>(b: &OrderBook<L>) -> Value {
    json!({
        "now": time_s(b.get_time()),
        "trading": trading_flag(b),
        "tvol": vol_s(b.get_trade_vol()),
        "orders": orders_value(&b.get_orders()),
        "trades": trades_value(b.get_trades()),
        "views": views(b),
    })
}

/// First path at which two JSON values differ (for reports).
pub fn first_diff(a: &Value, b: &Value, path: &str) -> Option<String> {
    match (a, b) {
        (Value::Object(x), Value::Object(y)) => {
            for (k, v) in x {
                match y.get(k) {
                    Some(w) => {
                        if let Some(d) = first_diff(v, w, &format!("{}.{}", path, k)) {
                            return Some(d);
                        }
                    }
                    None => return Some(format!("{}.{}: missing on right", path, k)),
                }
            }
            for k in y.keys() {
                if !x.contains_key(k) {
                    return Some(format!("{}.{}: missing on left", path, k));
                }
            }
            None
        }
        (Value::Array(x), Value::Array(y)) => {
            if x.len() != y.len() {
                return Some(format!("{}: length {} vs {}", path, x.len(), y.len()));
            }
            for (i, (v, w)) in x.iter().zip(y.iter()).enumerate() {
                if let Some(d) = first_diff(v, w, &format!("{}[{}]", path, i)) {
                    return Some(d);
                }
            }
            None
        }
        _ => {
            if num_eq(a, b) {
                None
            } else {
                Some(format!("{}: {} vs {}", path, a, b))
            }
        }
    }
}

fn num_eq(a: &Value, b: &Value) -> bool {
    match (a.as_i64(), b.as_i64()) {
        (Some(x), Some(y)) => x == y,
        _ => a == b,
    }
}
