//! One specification label = one public call on the real object.
use crate::proj;
use bourse_book::types::{Event, Side};
use bourse_book::OrderBook;
use serde_json::{json, Value};
use std::sync::atomic::{AtomicU64, Ordering};

static FILE_CTR: AtomicU64 = AtomicU64::new(0);

pub fn side_of(v: &Value) -> Side {
    match v.as_str() {
        Some("B") => Side::Bid,
        Some("A") => Side::Ask,
        _ => panic!("harness: bad side {}", v),
    }
}

pub fn opt_u32(v: &Value) -> Option<u32> {
    match v.as_i64() {
        Some(x) if x >= 0 => Some(u32::try_from(x).expect("harness: price/vol out of range")),
        _ => None,
    }
}

/// An optional volume in the real book's units (large-volume regime: specification units times the scale)
pub fn opt_vol(v: &Value) -> Option<u32> {
    opt_u32(v).map(|x| x.checked_mul(crate::vol_scale()).expect("harness: scaled volume out of range"))
}

/// An optional price: -1 = none, the specification's MaxPrice = u32::MAX
pub fn opt_price(v: &Value) -> Option<u32> {
    match v.as_i64() {
        Some(x) if x == crate::SPEC_MAX_PRICE => Some(u32::MAX),
        Some(x) if x > 0 => opt_u32(v).map(|p| p.checked_mul(crate::price_scale()).and_then(|p| p.checked_add(crate::price_offset())).expect("harness: translated price out of range")),
        _ => opt_u32(v),
    }
}

/// Does the path contain a modify request whose new price is off the grid of its book?
/// (`ticks` per asset; labels without an asset field address asset 0.)
pub fn has_offgrid_modify(path: &[Value], ticks: &[u32]) -> bool {
    path.iter().any(|l| {
        let is_mod = l["op"] == "modify" || ((l["op"] == "event" || l["op"] == "submit") && l["k"] == "modify");
        let a = l.get("a").and_then(|x| x.as_u64()).unwrap_or(0) as usize;
        let t = *ticks.get(a).unwrap_or(&1) as i64;
        is_mod && t > 1 && l["p"].as_i64().map(|x| x >= 0 && x % t != 0).unwrap_or(false)
    })
}

pub fn get_u64(l: &Value, k: &str) -> u64 {
    l.get(k).and_then(|x| x.as_u64()).unwrap_or_else(|| panic!("harness: label {} lacks {}", l, k))
}

pub fn get_usize(l: &Value, k: &str) -> usize {
    get_u64(l, k) as usize
}

/// A book of any published level count behind one interface.
pub trait BookDyn: Send {
    fn levels(&self) -> usize;
    fn proj(&self) -> Value;
    /// keys of the order entries as the JSON snapshot shows them (see proj::keys_value)
    fn keys(&self) -> Vec<Value>;
    /// Apply a label; the returned value is the call's result as the spec encodes it
    /// (`ret`: new order id, or -1 for a rejected creation; Null when the call returns nothing).
    fn apply(&mut self, lbl: &Value) -> Value;
    fn snapshot(&self, pretty: bool) -> String;
    /// Load a snapshot into a book with the same level count.
    fn load(&self, s: &str) -> Result<Box<dyn BookDyn>, String>;
    /// save_json + load_json through a real file
    fn reload_file(&self, pretty: bool) -> Result<Box<dyn BookDyn>, String>;
    /// Try to load a truncated snapshot file through load_json.
    fn load_file_bytes(&self, bytes: &[u8]) -> Result<Box<dyn BookDyn>, String>;
}

fn scratch_file(tag: &str) -> std::path::PathBuf {
    let n = FILE_CTR.fetch_add(1, Ordering::Relaxed);
    crate::scratch_dir().join(format!("{}_{}_{}.json", tag, std::process::id(), n))
}

impl<const L: usize> BookDyn for OrderBook<L> {
    fn levels(&self) -> usize {
        L
    }

    fn proj(&self) -> Value {
        proj::book_proj(self)
    }

    fn keys(&self) -> Vec<Value> {
        proj::keys_value(self)
    }

    fn apply(&mut self, l: &Value) -> Value {
        if let Some(dt) = l.get("dt").and_then(|x| x.as_u64()) {
            if dt > 0 {
                self.set_time(self.get_time() + dt * crate::TIME_SCALE.load(Ordering::Relaxed));
            }
        }
        let op = l.get("op").and_then(|x| x.as_str()).unwrap_or("?");
        match op {
            "create" | "cap" => {
                let side = side_of(&l["side"]);
                let vol = (get_u64(l, "vol") as u32).checked_mul(crate::vol_scale()).expect("harness: scaled volume out of range");
                let tr = get_u64(l, "tr") as u32;
                let price = opt_price(&l["price"]);
                let r = if op == "create" {
                    self.create_order(side, vol, tr, price)
                } else {
                    self.create_and_place_order(side, vol, tr, price)
                };
                match r {
                    Ok(id) => json!(id),
                    Err(_) => json!(-1),
                }
            }
            "place" => {
                self.place_order(get_usize(l, "id"));
                Value::Null
            }
            "cancel" => {
                self.cancel_order(get_usize(l, "id"));
                Value::Null
            }
            "modify" => {
                self.modify_order(get_usize(l, "id"), opt_price(&l["p"]), opt_vol(&l["v"]));
                Value::Null
            }
            "event" => {
                let id = get_usize(l, "id");
                let e = match l["k"].as_str() {
                    Some("new") => Event::New { order_id: id },
                    Some("cancel") => Event::Cancellation { order_id: id },
                    Some("modify") => Event::Modify {
                        order_id: id,
                        new_price: opt_price(&l["p"]),
                        new_vol: opt_vol(&l["v"]),
                    },
                    _ => panic!("harness: bad event kind in {}", l),
                };
                self.process_event(e);
                Value::Null
            }
            "settime" => {
                self.set_time(crate::time_r(get_u64(l, "t")));
                Value::Null
            }
            "enable" => {
                self.enable_trading();
                Value::Null
            }
            "disable" => {
                self.disable_trading();
                Value::Null
            }
            "resettv" => {
                self.reset_trade_vol();
                Value::Null
            }
            // a call that cannot reach the book (out-of-range integer, see PyView.tla): nothing happens
            "bad" => Value::Null,
            _ => panic!("harness: unknown op in label {}", l),
        }
    }

    fn snapshot(&self, pretty: bool) -> String {
        if pretty {
            serde_json::to_string_pretty(self).expect("serialise")
        } else {
            serde_json::to_string(self).expect("serialise")
        }
    }

    fn load(&self, s: &str) -> Result<Box<dyn BookDyn>, String> {
        match serde_json::from_str::<OrderBook<L>>(s) {
            Ok(b) => Ok(Box::new(b)),
            Err(e) => Err(e.to_string()),
        }
    }

    fn reload_file(&self, pretty: bool) -> Result<Box<dyn BookDyn>, String> {
        let p = scratch_file("snap");
        let r = (|| {
            // the path already holds another (for the compact form: longer) snapshot of this book: saving
            // replaces the file, it does not write into it
            self.save_json(&p, !pretty).map_err(|e| e.to_string())?;
            self.save_json(&p, pretty).map_err(|e| e.to_string())?;
            let b = OrderBook::<L>::load_json(&p).map_err(|e| e.to_string())?;
            Ok(Box::new(b) as Box<dyn BookDyn>)
        })();
        let _ = std::fs::remove_file(&p);
        r
    }

    fn load_file_bytes(&self, bytes: &[u8]) -> Result<Box<dyn BookDyn>, String> {
        let p = scratch_file("trunc");
        std::fs::write(&p, bytes).map_err(|e| e.to_string())?;
        let r = OrderBook::<L>::load_json(&p);
        let _ = std::fs::remove_file(&p);
        match r {
            Ok(b) => Ok(Box::new(b)),
            Err(e) => Err(e.to_string()),
        }
    }
}

macro_rules! book_factory {
    ($($n:literal),*) => {
        /// A fresh book with `levels` published levels (1..=24).
        pub fn new_book(levels: usize, t0: u64, tick: u32, trading: bool) -> Box<dyn BookDyn> {
            match levels {
                $($n => Box::new(OrderBook::<$n>::new(t0, tick, trading)),)*
                _ => panic!("harness: unsupported level count {}", levels),
            }
        }
    };
}
book_factory!(1, 2, 3, 4, 5, 6, 7, 8, 9, 10, 11, 12, 13, 14, 15, 16, 17, 18, 19, 20, 21, 22, 23, 24);
