//! Event state fields shared by the environment recorders (record_env, record_sim): the delta of the
//! complete public projection per asset plus the environment's own observables, in the shape
//! EnvTrace.tla's EnvDelta reads.
use serde_json::{json, Value};
use std::collections::BTreeMap;

/// last element of every innermost series of a RecViews-shaped value
pub fn rec_last(v: &Value) -> Value {
    match v {
        Value::Object(o) => Value::Object(o.iter().map(|(k, x)| (k.clone(), rec_last(x))).collect()),
        Value::Array(a) => {
            if a.iter().all(|x| x.is_array()) && !a.is_empty() {
                Value::Array(a.iter().map(rec_last).collect())
            } else {
                a.last().cloned().unwrap_or(json!(-1))
            }
        }
        x => x.clone(),
    }
}

pub struct Track {
    pub prev_orders: Vec<Vec<Value>>,
    pub n_trades: Vec<usize>,
}

/// event state fields from the projection; updates the tracker
pub fn observe(p: &Value, t: &mut Track, full_rec: bool, feats: &mut BTreeMap<String, u64>) -> Value {
    let books = p["books"].as_array().unwrap();
    let mut eb = Vec::new();
    for (a, b) in books.iter().enumerate() {
        let orders = b["orders"].as_array().unwrap();
        let trades = b["trades"].as_array().unwrap();
        let d_o: Vec<Value> = orders.iter().enumerate().filter(|(i, o)| *i >= t.prev_orders[a].len() || t.prev_orders[a][*i] != **o)
            .map(|(i, o)| json!([i, o])).collect();
        let d_t: Vec<Value> = trades[t.n_trades[a].min(trades.len())..].to_vec();
        if !d_t.is_empty() { *feats.entry("events_with_trades".into()).or_insert(0) += 1; }
        let v = &b["views"];
        if v["bvol"].as_i64().unwrap_or(0) > 0 && v["avol"].as_i64().unwrap_or(0) > 0 && v["bid"].as_i64() >= v["ask"].as_i64() {
            *feats.entry("crossed_states".into()).or_insert(0) += 1;
        }
        eb.push(json!({"trading": b["trading"], "tvol": b["tvol"], "no": orders.len(), "nt": trades.len(), "do": d_o, "newtr": d_t, "views": b["views"]}));
        t.prev_orders[a] = orders.clone();
        t.n_trades[a] = trades.len();
    }
    // the environment's own order / trade getters must show the books' records
    let agree = books.iter().enumerate().all(|(a, b)| {
        let orders = b["orders"].as_array().unwrap();
        p["env_orders"][a] == b["orders"] && p["env_trades"][a] == b["trades"]
            && (p["env_order_by_id"].is_null() || p["env_order_by_id"][a] == b["orders"])
            && (p["env_statuses"].is_null() || p["env_statuses"][a].as_array().map(|s| s.len() == orders.len() && s.iter().zip(orders).all(|(x, o)| *x == o[1])).unwrap_or(false))
    });
    let rec_len: Vec<usize> = p["rec"].as_array().unwrap().iter().map(|r| r["trade_vols"].as_array().unwrap().len()).collect();
    let mut ev = json!({"now": p["now"], "pending": p["pending"], "nsteps": p["nsteps"], "l2": p["l2"], "books": eb,
        "rec_len": rec_len, "rec_last": p["rec"].as_array().unwrap().iter().map(rec_last).collect::<Vec<_>>(), "env_getters_agree": agree});
    if full_rec {
        ev["rec"] = p["rec"].clone();
    }
    ev
}

pub fn merge(mut a: Value, b: Value) -> Value {
    for (k, v) in b.as_object().unwrap() {
        a[k] = v.clone();
    }
    a
}

