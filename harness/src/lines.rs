//! Reading TLC output: lines of the form `<<"TAG", "escaped json">>`.
use serde_json::Value;

/// If `line` is a `<<"tag", "...">>` print, return the decoded JSON payload.
pub fn parse_tagged(line: &str, tag: &str) -> Option<Result<Value, String>> {
    let prefix = format!("<<\"{}\", ", tag);
    let rest = line.strip_prefix(&prefix)?;
    let lit = rest.strip_suffix(">>")?;
    // `lit` is a TLA+ string literal; its escapes are JSON-compatible.
    let s: String = match serde_json::from_str(lit) {
        Ok(s) => s,
        Err(e) => return Some(Err(format!("bad string literal: {}", e))),
    };
    Some(serde_json::from_str::<Value>(&s).map_err(|e| format!("bad json payload: {}", e)))
}
