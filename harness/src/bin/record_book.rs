//! record-validate, recording half: drives the real OrderBook with long seeded random
//! histories over wide alphabets and logs one ndjson event per public call (label +
//! delta of the full public projection).  TLC validates the file against BookTrace.tla.
//!
//! usage: record_book --out FILE --seed N --runs R --ops K --profile JSON
//! Prints one JSON summary line on stdout.
use bourse_verif_harness::apply::{new_book, BookDyn};
use bourse_verif_harness::{guarded, quiet_panics};
use rand::{Rng, SeedableRng};
use rand_xoshiro::Xoroshiro128StarStar;
use serde_json::{json, Value};
use std::collections::BTreeMap;
use std::io::Write;
use std::panic::AssertUnwindSafe;

type R = Xoroshiro128StarStar;

struct Profile {
    ticks: Vec<u32>,
    levels: Vec<usize>,
    nprices: u32,   // width of the price alphabet in ticks
    vmax: u32,
    discipline: bool, // true: clock advances before every call that can queue an order
    p_tie: f64,       // (discipline = false) probability of clock advance 0
    w: BTreeMap<String, f64>, // operation weights
    p_redundant: f64, // probability that a place/cancel/modify targets an arbitrary id
    p_offgrid: f64,   // probability that a creation price is off the grid
    p_offgrid_modify: f64, // probability that a modify price is off the grid
    p_market: f64,
    p_passive: f64,   // probability that a new limit order is priced on its own side of the alphabet (bids low, asks high): deep books
    trading0: Vec<bool>,
    audit_every: usize,
}

fn profile(v: &Value) -> Profile {
    let f = |k: &str, d: f64| v.get(k).and_then(|x| x.as_f64()).unwrap_or(d);
    let mut w = BTreeMap::new();
    let defaults = [("cap", 10.0), ("create", 2.0), ("place", 2.0), ("cancel", 4.0), ("modify", 3.0),
        ("event", 2.0), ("settime", 0.5), ("toggle", 0.0), ("resettv", 0.3), ("reload", 0.0)];
    for (k, d) in defaults {
        w.insert(k.to_string(), v.get("w").and_then(|w| w.get(k)).and_then(|x| x.as_f64()).unwrap_or(d));
    }
    Profile {
        ticks: v.get("ticks").and_then(|x| x.as_array()).map(|a| a.iter().map(|x| x.as_u64().unwrap() as u32).collect()).unwrap_or((1..=10).collect()),
        levels: v.get("levels").and_then(|x| x.as_array()).map(|a| a.iter().map(|x| x.as_u64().unwrap() as usize).collect()).unwrap_or((1..=24).collect()),
        nprices: f("nprices", 30.0) as u32,
        vmax: f("vmax", 50.0) as u32,
        discipline: v.get("discipline").and_then(|x| x.as_bool()).unwrap_or(true),
        p_tie: f("p_tie", 0.5),
        w,
        p_redundant: f("p_redundant", 0.1),
        p_offgrid: f("p_offgrid", 0.0),
        p_offgrid_modify: f("p_offgrid_modify", 0.0),
        p_market: f("p_market", 0.15),
        p_passive: f("p_passive", 0.0),
        trading0: v.get("trading0").and_then(|x| x.as_array()).map(|a| a.iter().map(|x| x.as_bool().unwrap()).collect()).unwrap_or(vec![true]),
        audit_every: f("audit_every", 50.0) as usize,
    }
}

fn pick<'a, T>(rng: &mut R, xs: &'a [T]) -> &'a T {
    &xs[rng.gen_range(0..xs.len())]
}

fn weighted(rng: &mut R, w: &BTreeMap<String, f64>) -> String {
    let tot: f64 = w.values().sum();
    let mut x = rng.gen::<f64>() * tot;
    for (k, v) in w {
        if x < *v {
            return k.clone();
        }
        x -= v;
    }
    w.keys().next().unwrap().clone()
}

struct Ctx {
    tick: u32,
    base: u32,
    statuses: Vec<String>,
    vols: Vec<u32>,
    prev_orders: Vec<Value>,
    prev_keys: Vec<Value>,
    n_trades: usize,
}

fn price(rng: &mut R, p: &Profile, c: &Ctx, p_off: f64) -> i64 {
    let k = rng.gen_range(0..p.nprices);
    let mut x = (c.base + k) * c.tick;
    if c.tick > 1 && rng.gen::<f64>() < p_off {
        x += rng.gen_range(1..c.tick);
    }
    x as i64
}

fn target(rng: &mut R, p: &Profile, c: &Ctx, want: &str) -> Option<usize> {
    let n = c.statuses.len();
    if n == 0 {
        return None;
    }
    if rng.gen::<f64>() < p.p_redundant {
        return Some(rng.gen_range(0..n));
    }
    let cands: Vec<usize> = (0..n).filter(|i| c.statuses[*i] == want).collect();
    if cands.is_empty() {
        Some(rng.gen_range(0..n))
    } else {
        Some(*pick(rng, &cands))
    }
}

fn mod_args(rng: &mut R, p: &Profile, c: &Ctx, id: usize) -> (i64, i64) {
    let np = if rng.gen::<f64>() < 0.5 { -1 } else { price(rng, p, c, p.p_offgrid_modify) };
    let cur = c.vols[id].max(1);
    let nv = match rng.gen_range(0..4) {
        0 => -1,
        1 => if cur > 1 { rng.gen_range(1..cur) as i64 } else { cur as i64 },
        2 => cur as i64,
        _ => (cur + rng.gen_range(1..=p.vmax)) as i64,
    };
    (np, nv)
}

fn main() {
    quiet_panics();
    let args: Vec<String> = std::env::args().collect();
    let mut out = String::new();
    let (mut seed, mut runs, mut ops) = (0u64, 1usize, 100usize);
    let mut prof = json!({});
    let mut i = 1;
    while i < args.len() {
        match args[i].as_str() {
            "--out" => { out = args[i + 1].clone(); i += 1 }
            "--seed" => { seed = args[i + 1].parse().unwrap(); i += 1 }
            "--runs" => { runs = args[i + 1].parse().unwrap(); i += 1 }
            "--ops" => { ops = args[i + 1].parse().unwrap(); i += 1 }
            "--profile" => { prof = serde_json::from_str(&args[i + 1]).expect("profile json"); i += 1 }
            a => { eprintln!("unknown argument {}", a); std::process::exit(2) }
        }
        i += 1;
    }
    let p = profile(&prof);
    let mut rng = R::seed_from_u64(seed);
    let mut f = std::io::BufWriter::new(std::fs::File::create(&out).expect("create out"));
    let mut feats: BTreeMap<String, u64> = BTreeMap::new();
    let mut n_events = 0u64;
    let mut panics: Vec<Value> = Vec::new();
    let mut sample: Vec<Value> = Vec::new();

    for run in 0..runs {
        let tick = *pick(&mut rng, &p.ticks);
        let levels = *pick(&mut rng, &p.levels);
        let trading = *pick(&mut rng, &p.trading0);
        let t0 = rng.gen_range(0..1000u64);
        let n_ops = rng.gen_range(ops / 2..=ops);
        let mut book: Box<dyn BookDyn> = new_book(levels, t0, tick, trading);
        let mut c = Ctx { tick, base: rng.gen_range(1..200), statuses: vec![], vols: vec![], prev_orders: vec![], prev_keys: vec![], n_trades: 0 };
        // high-price regime (DESIGN.md 3.6): the real book runs with every limit price shifted so that the top of the price alphabet
        // is the last grid point below 2^32 - 1; labels and logged prices stay in the specification's number system
        let p_high = prof.get("p_high_prices").and_then(|x| x.as_f64()).unwrap_or(0.0);
        let off: u32 = if rng.gen::<f64>() < p_high {
            let pmax = (c.base + p.nprices) * tick + tick;
            ((u32::MAX - 1 - pmax) / tick) * tick
        } else { 0 };
        bourse_verif_harness::PRICE_OFFSET.store(off, std::sync::atomic::Ordering::Relaxed);
        if off > 0 { *feats.entry("runs_at_the_top_of_the_price_range".into()).or_insert(0) += 1; }
        let mut history: Vec<Value> = Vec::new();
        let pr = book.proj();
        let ev = json!({"op": "reset", "run": run, "t0": t0, "tick": tick, "trading": trading, "levels": levels,
            "now": pr["now"], "tvol": pr["tvol"], "views": pr["views"], "no": 0, "nt": 0, "do": [], "dk": [], "newtr": [], "dt": 0, "audit": false});
        writeln!(f, "{}", ev).unwrap();
        n_events += 1;
        history.push(json!({"op": "reset", "t0": t0, "tick": tick, "trading": trading, "levels": levels}));
        let mut trading_now = trading;

        for k in 0..n_ops {
            let op = weighted(&mut rng, &p.w);
            let queues = matches!(op.as_str(), "cap" | "place" | "modify" | "event");
            let dt: u64 = if p.discipline {
                if queues { rng.gen_range(1..4) } else { rng.gen_range(0..3) }
            } else if rng.gen::<f64>() < p.p_tie { 0 } else { rng.gen_range(1..3) };
            let lbl: Option<Value> = match op.as_str() {
                "cap" | "create" => {
                    let side = if rng.gen::<bool>() { "B" } else { "A" };
                    let mkt = rng.gen::<f64>() < p.p_market;
                    let pr = if mkt { -1 } else if rng.gen::<f64>() < p.p_passive {
                        // own half of the alphabet: the order rests (bids in the lower half, asks in the upper half)
                        let half = (p.nprices / 2).max(1);
                        let k = rng.gen_range(0..half) + if side == "A" { half } else { 0 };
                        ((c.base + k) * c.tick) as i64
                    } else { price(&mut rng, &p, &c, p.p_offgrid) };
                    Some(json!({"op": op, "dt": dt, "side": side, "vol": rng.gen_range(1..=p.vmax),
                        "tr": rng.gen_range(0..20u32), "price": pr}))
                }
                "place" => target(&mut rng, &p, &c, "New").map(|id| json!({"op": "place", "dt": dt, "id": id})),
                "cancel" => target(&mut rng, &p, &c, "Active").map(|id| json!({"op": "cancel", "dt": dt, "id": id})),
                "modify" => target(&mut rng, &p, &c, "Active").map(|id| {
                    let (np, nv) = mod_args(&mut rng, &p, &c, id);
                    json!({"op": "modify", "dt": dt, "id": id, "p": np, "v": nv})
                }),
                "event" => {
                    let kind = *pick(&mut rng, &["new", "cancel", "modify"]);
                    let want = if kind == "new" { "New" } else { "Active" };
                    target(&mut rng, &p, &c, want).map(|id| {
                        let (np, nv) = if kind == "modify" { mod_args(&mut rng, &p, &c, id) } else { (-1, -1) };
                        json!({"op": "event", "dt": dt, "k": kind, "id": id, "p": np, "v": nv})
                    })
                }
                "settime" => {
                    let now = history_now(&book);
                    Some(json!({"op": "settime", "t": now + rng.gen_range(0..5u64)}))
                }
                "toggle" => {
                    trading_now = !trading_now;
                    Some(json!({"op": if trading_now { "enable" } else { "disable" }}))
                }
                "resettv" => Some(json!({"op": "resettv"})),
                "reload" => Some(json!({"op": "reload", "mode": *pick(&mut rng, &["sc", "sp", "fc", "fp"])})),
                _ => None,
            };
            let mut lbl = match lbl { Some(l) => l, None => continue };
            history.push(lbl.clone());
            let opn = lbl["op"].as_str().unwrap().to_string();
            // the call itself
            let res = guarded(AssertUnwindSafe(|| {
                if opn == "reload" {
                    let nb = match lbl["mode"].as_str().unwrap() {
                        "sc" => book.load(&book.snapshot(false)),
                        "sp" => book.load(&book.snapshot(true)),
                        "fc" => book.reload_file(false),
                        _ => book.reload_file(true),
                    };
                    match nb {
                        Ok(nb) => { book = nb; Ok(Value::Null) }
                        Err(e) => Err(e),
                    }
                } else {
                    Ok(book.apply(&lbl))
                }
            }));
            let ret = match res {
                Ok(Ok(r)) => r,
                Ok(Err(e)) => {
                    panics.push(json!({"run": run, "what": format!("reload failed: {}", e), "history": history.clone(),
                        "cfg": {"levels": levels, "tick": tick, "trading": trading, "t0": t0}}));
                    break;
                }
                Err(m) => {
                    panics.push(json!({"run": run, "what": format!("panic in {}: {}", opn, m), "history": history.clone(),
                        "cfg": {"levels": levels, "tick": tick, "trading": trading, "t0": t0}}));
                    break;
                }
            };
            if !ret.is_null() {
                lbl["ret"] = ret.clone();
            }
            // observe
            let pr = match guarded(AssertUnwindSafe(|| book.proj())) {
                Ok(p) => p,
                Err(m) => {
                    panics.push(json!({"run": run, "what": format!("panic while reading after {}: {}", opn, m), "history": history.clone(),
                        "cfg": {"levels": levels, "tick": tick, "trading": trading, "t0": t0}}));
                    break;
                }
            };
            if let Some(s) = pr["views"].as_str() {
                panics.push(json!({"run": run, "what": s, "history": history.clone(),
                    "cfg": {"levels": levels, "tick": tick, "trading": trading, "t0": t0}}));
                break;
            }
            if let Some(bad) = pr["views"].as_object().and_then(|o| o.iter().find(|(_, v)| v.is_string())) {
                panics.push(json!({"run": run, "what": format!("view {}: {}", bad.0, bad.1), "history": history.clone(),
                    "cfg": {"levels": levels, "tick": tick, "trading": trading, "t0": t0}}));
                break;
            }
            let orders = pr["orders"].as_array().unwrap();
            let trades = pr["trades"].as_array().unwrap();
            let mut d_o = Vec::new();
            for (id, o) in orders.iter().enumerate() {
                if id >= c.prev_orders.len() || c.prev_orders[id] != *o {
                    d_o.push(json!([id, o]));
                }
            }
            let d_t: Vec<Value> = trades[c.n_trades.min(trades.len())..].to_vec();
            // the keys under which the order entries sit in their sides (from the JSON snapshot)
            let keys = book.keys();
            let d_k: Vec<Value> = keys.iter().enumerate().filter(|(id, k)| *id >= c.prev_keys.len() || c.prev_keys[*id] != **k)
                .map(|(id, k)| json!([id, k])).collect();
            // features (for the evidence)
            if !d_t.is_empty() { *feats.entry("events_with_trades".into()).or_insert(0) += 1; }
            if d_t.len() > 1 { *feats.entry("events_with_multi_trades".into()).or_insert(0) += 1; }
            if ret.as_i64() == Some(-1) { *feats.entry("rejected_creations".into()).or_insert(0) += 1; }
            if d_o.is_empty() && d_t.is_empty() && matches!(opn.as_str(), "place" | "cancel" | "modify" | "event") {
                *feats.entry("redundant_requests".into()).or_insert(0) += 1;
            }
            if dt == 0 && queues { *feats.entry("dt0_queueing_calls".into()).or_insert(0) += 1; }
            *feats.entry(format!("op_{}", opn)).or_insert(0) += 1;
            let v = &pr["views"];
            if v["bvol"].as_i64().unwrap_or(0) > 0 && v["avol"].as_i64().unwrap_or(0) > 0 {
                *feats.entry("two_sided_states".into()).or_insert(0) += 1;
                if v["bid"].as_i64() >= v["ask"].as_i64() { *feats.entry("crossed_states".into()).or_insert(0) += 1; }
            }
            let audit = (k + 1) % p.audit_every == 0 || k + 1 == n_ops;
            let mut ev = lbl.clone();
            ev["now"] = pr["now"].clone();
            ev["trading"] = pr["trading"].clone();
            ev["tvol"] = pr["tvol"].clone();
            ev["views"] = pr["views"].clone();
            ev["no"] = json!(orders.len());
            ev["nt"] = json!(trades.len());
            ev["do"] = json!(d_o);
            ev["dk"] = json!(d_k);
            ev["newtr"] = json!(d_t);
            ev["audit"] = json!(audit);
            if !ev.as_object().unwrap().contains_key("dt") { ev["dt"] = json!(0); }
            writeln!(f, "{}", ev).unwrap();
            n_events += 1;
            if sample.len() < 3 && !d_t.is_empty() { sample.push(ev.clone()); }
            // bookkeeping for target selection
            c.statuses = orders.iter().map(|o| o[1].as_str().unwrap().to_string()).collect();
            c.vols = orders.iter().map(|o| o[4].as_u64().unwrap() as u32).collect();
            c.prev_orders = orders.clone();
            c.prev_keys = keys;
            c.n_trades = trades.len();
        }
    }
    f.flush().unwrap();
    println!("{}", json!({"events": n_events, "runs": runs, "features": feats, "panics": panics, "samples": sample}));
}

fn history_now(b: &Box<dyn BookDyn>) -> u64 {
    b.proj()["now"].as_u64().unwrap_or(0)
}
