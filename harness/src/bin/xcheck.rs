//! Cross checks between the Python extension and the Rust core (C18).
//!
//! --snap-dir DIR   for every DIR/case_*.json written by py/pyreplay.py: the snapshot Python wrote
//!                  must load in Rust to the book the specification expects (`exp`); the path is then
//!                  replayed into a fresh Rust book, which must also equal `exp`, and saved to
//!                  `rs_snapshot` for Python to load.
//! --env-cases FILE for every line {path, seed, cands, cfg}: the Rust Env driven by the same
//!                  sequence under the same seed must process one of the schedules `cands` that
//!                  explain what the Python StepEnv showed.
//! Prints one JSON summary line.
use bourse_book::OrderBook;
use bourse_verif_harness::apply::BookDyn;
use bourse_verif_harness::envdyn::{new_env, EnvDyn};
use bourse_verif_harness::proj::{book_proj, first_diff};
use bourse_verif_harness::{guarded, quiet_panics};
use rand::SeedableRng;
use rand_xoshiro::Xoroshiro128StarStar;
use serde_json::{json, Value};
use std::panic::AssertUnwindSafe;

fn snap_dir(dir: &str) -> Value {
    let mut n = 0u64;
    let mut bad: Vec<Value> = Vec::new();
    let mut names: Vec<_> = std::fs::read_dir(dir).expect("read dir").filter_map(|e| e.ok()).map(|e| e.path())
        .filter(|p| p.file_name().and_then(|s| s.to_str()).map(|s| s.starts_with("case_")).unwrap_or(false)).collect();
    names.sort();
    for p in names {
        let v: Value = serde_json::from_str(&std::fs::read_to_string(&p).expect("read case")).expect("case json");
        n += 1;
        let cfg = &v["cfg"];
        let r = guarded(AssertUnwindSafe(|| -> Result<(), String> {
            let loaded = OrderBook::<10>::load_json(v["snapshot"].as_str().unwrap()).map_err(|e| format!("the snapshot written by Python does not load in Rust: {}", e))?;
            if let Some(d) = first_diff(&v["exp"], &book_proj(&loaded), "exp") {
                return Err(format!("the snapshot written by Python loads in Rust to a different book: {}", d));
            }
            let mut b: Box<dyn BookDyn> = Box::new(OrderBook::<10>::new(cfg["t0"].as_u64().unwrap(), cfg["tick"].as_u64().unwrap() as u32, cfg["trading"].as_bool().unwrap()));
            for l in v["path"].as_array().unwrap() {
                match l["op"].as_str() {
                    Some("reload") => { b = b.load(&b.snapshot(false))?; }
                    _ => { b.apply(l); }
                }
            }
            if let Some(d) = first_diff(&v["exp"], &b.proj(), "exp") {
                return Err(format!("the Rust core driven by the same sequence differs from the specification at {}", d));
            }
            let pretty = n % 2 == 0;
            std::fs::write(v["rs_snapshot"].as_str().unwrap(), b.snapshot(pretty)).map_err(|e| e.to_string())?;
            Ok(())
        }));
        let problem = match r { Ok(Ok(())) => None, Ok(Err(e)) => Some(e), Err(m) => Some(format!("panic: {}", m)) };
        if let Some(what) = problem {
            if bad.len() < 8 { bad.push(json!({"what": what, "path": v["path"], "cfg": cfg, "case": p.to_string_lossy()})); }
        }
    }
    json!({"lines": n, "n_mismatch": bad.len(), "mismatches": bad})
}

fn env_cases(file: &str) -> Value {
    let mut n = 0u64;
    let mut bad: Vec<Value> = Vec::new();
    let text = std::fs::read_to_string(file).unwrap_or_default();
    for line in text.lines() {
        let v: Value = match serde_json::from_str(line) { Ok(v) => v, Err(_) => continue };
        n += 1;
        let c = &v["cfg"];
        let ticks: Vec<u32> = c["ticks"].as_array().unwrap().iter().map(|x| x.as_u64().unwrap() as u32).collect();
        let r = guarded(AssertUnwindSafe(|| {
            let mut env: Box<dyn EnvDyn> = new_env("env", 10, c.get("t0").and_then(|x| x.as_u64()).unwrap_or(0), &ticks, c["step"].as_u64().unwrap(), c["trading"].as_bool().unwrap());
            let mut rng = Xoroshiro128StarStar::seed_from_u64(v["seed"].as_u64().unwrap());
            let mut sched = Vec::new();
            for l in v["path"].as_array().unwrap() {
                match l["op"].as_str() {
                    Some("submit") => { env.submit(l); }
                    Some("step") => { env.step(&mut rng); sched.push(env.schedule()); }
                    Some("enable") => env.enable(),
                    Some("disable") => env.disable(),
                    _ => {}
                }
            }
            Value::Array(sched)
        }));
        match r {
            Ok(s) => {
                if !v["cands"].as_array().unwrap().iter().any(|c| *c == s) && bad.len() < 8 {
                    bad.push(json!({"what": format!("under seed {} the Rust core processes the schedule {} but what the Python StepEnv showed is only explained by {}", v["seed"], s, v["cands"]),
                        "path": v["path"], "seed": v["seed"], "cfg": c}));
                }
            }
            Err(m) => if bad.len() < 8 { bad.push(json!({"what": format!("panic in the Rust core: {}", m), "path": v["path"], "seed": v["seed"], "cfg": c})) },
        }
    }
    json!({"lines": n, "n_mismatch": bad.len(), "mismatches": bad})
}

fn main() {
    quiet_panics();
    let args: Vec<String> = std::env::args().collect();
    let out = match args.get(1).map(|s| s.as_str()) {
        Some("--snap-dir") => snap_dir(&args[2]),
        Some("--env-cases") => env_cases(&args[2]),
        _ => { eprintln!("usage: xcheck --snap-dir DIR | --env-cases FILE"); std::process::exit(2) }
    };
    println!("{}", out);
}
