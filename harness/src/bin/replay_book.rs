//! gen-replay for one order book: reads TLC generator output (`<<"GEN", "{path, exp}">>`
//! lines) on stdin, replays every path into a fresh real OrderBook through public
//! calls only and compares the projection of the real object with `exp`.
//!
//! Prints one JSON summary on stdout.  Exit code 0 always (the orchestrator decides);
//! 2 on harness errors.
use bourse_verif_harness::apply::{new_book, BookDyn};
use bourse_verif_harness::lines::parse_tagged;
use bourse_verif_harness::proj::first_diff;
use bourse_verif_harness::{guarded, quiet_panics};
use serde_json::{json, Value};
use std::collections::BTreeMap;
use std::io::BufRead;
use std::panic::AssertUnwindSafe;
use std::sync::mpsc::sync_channel;
use std::sync::{Arc, Mutex};

#[derive(Clone)]
struct Cfg {
    levels: usize,
    tick: u32,
    trading: bool,
    t0: u64,
    trunc_every: usize, // run the truncation sweep on every n-th path that ends in a reload (0 = never)
}

#[derive(Default)]
struct Stats {
    lines: u64,
    ops: u64,
    mismatches: Vec<Value>,
    n_mismatch: u64,
    feats: BTreeMap<String, u64>,
    samples: Vec<Value>,
    trunc_snapshots: u64,
    trunc_offsets: u64,
    drains: u64,
    tlc_tail: Vec<String>,
    /// histories the code reproduces exactly and on which the SPECIFICATION's own state breaks a clause (the generator ran
    /// with a named deviation switched on, e.g. FollowF3): occurrences of a known finding, recognised by TLC, not by the harness
    flags: Vec<Value>,
    n_flags: u64,
}

fn feat(s: &mut Stats, k: &str) {
    *s.feats.entry(k.to_string()).or_insert(0) += 1;
}

fn features(path: &[Value], exp: &Value, s: &mut Stats) {
    let trades = exp["trades"].as_array().map(|a| a.len()).unwrap_or(0);
    if trades > 0 {
        feat(s, "has_trade");
    }
    if trades > 1 {
        feat(s, "multi_trade");
        // one aggressor at two prices
        let t = exp["trades"].as_array().unwrap();
        for i in 1..t.len() {
            if t[i][4] == t[i - 1][4] && t[i][2] != t[i - 1][2] {
                feat(s, "sweep_two_levels");
                break;
            }
        }
    }
    if let Some(os) = exp["orders"].as_array() {
        if os.iter().any(|o| o[1] == "Active" && o[4] != o[5]) {
            feat(s, "resting_partially_filled_or_resized");
        }
        if os.iter().any(|o| o[1] == "Rejected") {
            feat(s, "rejected_order");
        }
        if os.iter().any(|o| o[1] == "Cancelled") {
            feat(s, "cancelled_order");
        }
        if os.iter().any(|o| o[1] == "New") {
            feat(s, "unplaced_order");
        }
    }
    if exp["trading"] == json!(false) {
        feat(s, "trading_off");
    }
    let v = &exp["views"];
    if v["bvol"].as_i64().unwrap_or(0) > 0 && v["avol"].as_i64().unwrap_or(0) > 0 {
        feat(s, "two_sided");
        if v["bid"].as_i64() >= v["ask"].as_i64() {
            feat(s, "crossed");
        }
    }
    let mut seen = std::collections::BTreeSet::new();
    for l in path {
        if let Some(op) = l["op"].as_str() {
            if seen.insert(op.to_string()) {
                feat(s, &format!("op_{}", op));
            }
            if l.get("dt").and_then(|x| x.as_u64()) == Some(0) && seen.insert("dt0".into()) {
                feat(s, "dt0");
            }
            if l.get("ret").and_then(|x| x.as_i64()) == Some(-1) && seen.insert("rej".into()) {
                feat(s, "create_rejected");
            }
        }
    }
}

/// Every strict prefix of a snapshot must be rejected with an error.
fn trunc_sweep(b: &dyn BookDyn, s: &mut Stats) -> Option<String> {
    for pretty in [false, true] {
        let snap = b.snapshot(pretty);
        let bytes = snap.as_bytes();
        s.trunc_snapshots += 1;
        let stride = std::cmp::max(1, bytes.len() / 24);
        for k in 0..bytes.len() {
            s.trunc_offsets += 1;
            let through_file = k % stride == 0 || k + 8 >= bytes.len();
            let r = guarded(AssertUnwindSafe(|| {
                if through_file {
                    b.load_file_bytes(&bytes[..k]).is_ok()
                } else {
                    match std::str::from_utf8(&bytes[..k]) {
                        Ok(t) => b.load(t).is_ok(),
                        Err(_) => false,
                    }
                }
            }));
            match r {
                Ok(false) => {}
                Ok(true) => return Some(format!("snapshot (pretty={}) cut at byte {} of {} was accepted", pretty, k, bytes.len())),
                Err(m) => return Some(format!("snapshot (pretty={}) cut at byte {} of {}: panic {}", pretty, k, bytes.len(), m)),
            }
        }
    }
    None
}

/// The drain probe of BookOps!DrainF applied to the real book.
fn drain(b: &mut Box<dyn BookDyn>, d: &Value) -> Result<Value, String> {
    guarded(AssertUnwindSafe(|| {
        let now = b.proj()["now"].as_u64().unwrap_or(0);
        b.apply(&json!({"op": "enable"}));
        b.apply(&json!({"op": "settime", "t": now + 1}));
        let bv = d["bvol"].as_u64().unwrap_or(0);
        if bv > 0 {
            b.apply(&json!({"op": "cap", "side": "A", "vol": bv, "tr": 0, "price": -1}));
        }
        let av = d["avol"].as_u64().unwrap_or(0);
        if av > 0 {
            b.apply(&json!({"op": "cap", "side": "B", "vol": av, "tr": 0, "price": -1}));
        }
        b.proj()
    }))
}

fn replay_one(cfg: &Cfg, idx: u64, path: &[Value], exp: &Value, dr: &Value, f3: bool, s: &mut Stats) {
    let mut books: Vec<Box<dyn BookDyn>> = vec![new_book(cfg.levels, bourse_verif_harness::time_r(cfg.t0), cfg.tick * bourse_verif_harness::price_scale(), cfg.trading)];
    let mut problem: Option<String> = None;
    let mut last_ret = Value::Null;
    for (k, l) in path.iter().enumerate() {
        s.ops += 1;
        let op = l["op"].as_str().unwrap_or("?");
        if op == "reload" {
            let mode = l["mode"].as_str().unwrap_or("sc").to_string();
            let r = guarded(AssertUnwindSafe(|| match mode.as_str() {
                "sc" => books[0].load(&books[0].snapshot(false)),
                "sp" => books[0].load(&books[0].snapshot(true)),
                "fc" => books[0].reload_file(false),
                _ => books[0].reload_file(true),
            }));
            match r {
                Ok(Ok(nb)) => {
                    if books.len() < 4 {
                        books.push(nb);
                    } else {
                        books[3] = nb;
                    }
                }
                Ok(Err(e)) => problem = Some(format!("step {}: reload({}) failed: {}", k, mode, e)),
                Err(m) => problem = Some(format!("step {}: reload({}) panicked: {}", k, mode, m)),
            }
            if problem.is_none() && cfg.trunc_every > 0 && k + 1 == path.len() && (idx as usize) % cfg.trunc_every == 0 {
                if let Some(p) = trunc_sweep(books[0].as_ref(), s) {
                    problem = Some(format!("step {}: {}", k, p));
                }
            }
        } else {
            for (bi, b) in books.iter_mut().enumerate() {
                match guarded(AssertUnwindSafe(|| b.apply(l))) {
                    Ok(r) => {
                        if bi == 0 {
                            last_ret = r;
                        } else if r != last_ret {
                            problem = Some(format!("step {}: reloaded copy {} returned {} but original {}", k, bi, r, last_ret));
                        }
                    }
                    Err(m) => {
                        problem = Some(format!("step {}: panic in copy {}: {}", k, bi, m));
                    }
                }
            }
            if let Some(want) = l.get("ret") {
                if problem.is_none() && !last_ret.is_null() && want.as_i64() != last_ret.as_i64() {
                    problem = Some(format!("step {}: returned {} but specification says {}", k, last_ret, want));
                }
            }
        }
        if problem.is_some() {
            break;
        }
    }
    let mut got = Value::Null;
    if problem.is_none() {
        for (bi, b) in books.iter().enumerate() {
            match guarded(AssertUnwindSafe(|| b.proj())) {
                Ok(p) => {
                    if let Some(d) = first_diff(exp, &p, "exp") {
                        problem = Some(format!("final state of copy {} (0 = original, >0 = reloaded from snapshot) differs at {}", bi, d));
                        got = p;
                        break;
                    }
                }
                Err(m) => {
                    problem = Some(format!("panic while reading copy {}: {}", bi, m));
                    break;
                }
            }
        }
    }
    if problem.is_none() && dr.is_object() {
        s.drains += 1;
        for (bi, b) in books.iter_mut().enumerate() {
            match drain(b, dr) {
                Ok(p) => {
                    if let Some(d) = first_diff(&dr["exp"], &p, "drain") {
                        problem = Some(format!("after the drain probe (market orders for the whole resting volume) copy {} differs at {}", bi, d));
                        got = p;
                        break;
                    }
                }
                Err(m) => {
                    problem = Some(format!("panic during the drain probe on copy {}: {}", bi, m));
                    break;
                }
            }
        }
    }
    if let Some(p) = problem {
        s.n_mismatch += 1;
        // keep examples of both kinds: histories with an off-grid modify request (a listed known
        // finding lives there) and histories without, so that neither hides the other
        let offgrid = bourse_verif_harness::apply::has_offgrid_modify(path, &[cfg.tick]);
        let kept = s.mismatches.iter().filter(|m| m["offgrid_modify"] == json!(offgrid)).count();
        if kept < 12 {
            s.mismatches.push(json!({"what": p, "path": path, "exp": exp, "got": got, "offgrid_modify": offgrid,
                "drain": dr,
                "cfg": {"levels": cfg.levels, "tick": cfg.tick, "trading": cfg.trading, "t0": cfg.t0}}));
        }
    } else if f3 {
        s.n_flags += 1;
        if s.flags.len() < 4 {
            s.flags.push(json!({"spec_flag": "F3", "f3": true, "what": "the code does exactly what the specification does with FollowF3 = TRUE, and that state breaks C12_OnGrid",
                "path": path, "exp": exp, "cfg": {"levels": cfg.levels, "tick": cfg.tick, "trading": cfg.trading, "t0": cfg.t0}}));
        }
    }
}

fn main() {
    quiet_panics();
    let args: Vec<String> = std::env::args().collect();
    let mut cfg = Cfg { levels: 10, tick: 1, trading: true, t0: 0, trunc_every: 0 };
    let mut single: Option<String> = None;
    let mut i = 1;
    while i < args.len() {
        match args[i].as_str() {
            "--levels" => { cfg.levels = args[i + 1].parse().unwrap(); i += 1 }
            "--tick" => { cfg.tick = args[i + 1].parse().unwrap(); i += 1 }
            "--trading" => { cfg.trading = args[i + 1].parse().unwrap(); i += 1 }
            "--t0" => { cfg.t0 = args[i + 1].parse().unwrap(); i += 1 }
            "--price-offset" => {
                let k: u32 = args[i + 1].parse().unwrap();
                assert!(k % cfg.tick == 0, "harness: the price offset must be a multiple of the tick size (give --tick first)");
                bourse_verif_harness::PRICE_OFFSET.store(k, std::sync::atomic::Ordering::Relaxed);
                i += 1
            }
            "--time-scale" => { bourse_verif_harness::TIME_SCALE.store(args[i + 1].parse().unwrap(), std::sync::atomic::Ordering::Relaxed); i += 1 }
            "--time-offset" => { bourse_verif_harness::TIME_OFFSET.store(args[i + 1].parse().unwrap(), std::sync::atomic::Ordering::Relaxed); i += 1 }
            "--price-scale" => { bourse_verif_harness::PRICE_SCALE.store(args[i + 1].parse().unwrap(), std::sync::atomic::Ordering::Relaxed); i += 1 }
            "--vol-scale" => { bourse_verif_harness::VOL_SCALE.store(args[i + 1].parse().unwrap(), std::sync::atomic::Ordering::Relaxed); i += 1 }
            "--trunc-every" => { cfg.trunc_every = args[i + 1].parse().unwrap(); i += 1 }
            "--case" => { single = Some(args[i + 1].clone()); i += 1 }
            a => { eprintln!("unknown argument {}", a); std::process::exit(2) }
        }
        i += 1;
    }

    if let Some(f) = single {
        // replay one saved case {path, exp, cfg}
        let v: Value = serde_json::from_str(&std::fs::read_to_string(&f).expect("read case")).expect("case json");
        if let Some(c) = v.get("cfg") {
            cfg.levels = c["levels"].as_u64().unwrap() as usize;
            cfg.tick = c["tick"].as_u64().unwrap() as u32;
            cfg.trading = c["trading"].as_bool().unwrap();
            cfg.t0 = c["t0"].as_u64().unwrap();
        }
        cfg.trunc_every = 1;
        let mut s = Stats::default();
        replay_one(&cfg, 0, v["path"].as_array().unwrap(), &v["exp"], &v["drain"], v["f3"] == json!(true), &mut s);
        println!("{}", json!({"lines": 1, "n_mismatch": s.n_mismatch, "mismatches": s.mismatches}));
        return;
    }

    let nthreads = std::thread::available_parallelism().map(|n| n.get()).unwrap_or(4).min(12);
    let (tx, rx) = sync_channel::<Vec<(u64, String)>>(64);
    let rx = Arc::new(Mutex::new(rx));
    let mut handles = Vec::new();
    for _ in 0..nthreads {
        let rx = rx.clone();
        let cfg = cfg.clone();
        handles.push(std::thread::spawn(move || {
            let mut s = Stats::default();
            loop {
                let chunk = { rx.lock().unwrap().recv() };
                let chunk = match chunk { Ok(c) => c, Err(_) => break };
                for (idx, line) in chunk {
                    match parse_tagged(&line, "GEN") {
                        Some(Ok(v)) => {
                            s.lines += 1;
                            let path = v["path"].as_array().cloned().unwrap_or_default();
                            features(&path, &v["exp"], &mut s);
                            if s.samples.len() < 2 && path.len() >= 3 && v["exp"]["trades"].as_array().map(|a| !a.is_empty()).unwrap_or(false) {
                                s.samples.push(json!({"path": path, "exp_trades": v["exp"]["trades"], "exp_views": v["exp"]["views"]}));
                            }
                            replay_one(&cfg, idx, &path, &v["exp"], &v["drain"], v["f3"] == json!(true), &mut s);
                        }
                        Some(Err(e)) => {
                            s.n_mismatch += 1;
                            s.mismatches.push(json!({"what": format!("harness: {}", e), "harness_error": true}));
                        }
                        None => {}
                    }
                }
            }
            s
        }));
    }

    let stdin = std::io::stdin();
    let mut chunk = Vec::with_capacity(128);
    let mut idx = 0u64;
    let mut tail: Vec<String> = Vec::new();
    for line in stdin.lock().lines() {
        let line = match line { Ok(l) => l, Err(_) => break };
        if line.starts_with("<<\"GEN\"") {
            chunk.push((idx, line));
            idx += 1;
            if chunk.len() >= 128 {
                tx.send(std::mem::take(&mut chunk)).unwrap();
            }
        } else if !line.starts_with("Parsing file") && !line.starts_with("Semantic processing") && !line.starts_with("Linting of") {
            tail.push(line);
            if tail.len() > 600 {
                tail.drain(100..300);
            }
        }
    }
    if !chunk.is_empty() {
        tx.send(chunk).unwrap();
    }
    drop(tx);

    let mut tot = Stats::default();
    for h in handles {
        let s = h.join().expect("worker");
        tot.lines += s.lines;
        tot.ops += s.ops;
        tot.n_mismatch += s.n_mismatch;
        tot.trunc_snapshots += s.trunc_snapshots;
        tot.trunc_offsets += s.trunc_offsets;
        tot.drains += s.drains;
        tot.n_flags += s.n_flags;
        for x in s.flags { if tot.flags.len() < 4 { tot.flags.push(x) } }
        for m in s.mismatches {
            let kept = tot.mismatches.iter().filter(|x| x["offgrid_modify"] == m["offgrid_modify"]).count();
            if kept < 12 { tot.mismatches.push(m) }
        }
        for (k, v) in s.feats { *tot.feats.entry(k).or_insert(0) += v }
        for x in s.samples { if tot.samples.len() < 3 { tot.samples.push(x) } }
    }
    tot.tlc_tail = tail;
    println!("{}", json!({
        "lines": tot.lines, "ops": tot.ops, "n_mismatch": tot.n_mismatch, "mismatches": tot.mismatches,
        "features": tot.feats, "samples": tot.samples,
        "trunc_snapshots": tot.trunc_snapshots, "trunc_offsets": tot.trunc_offsets, "drains": tot.drains,
        "tlc_output": tot.tlc_tail, "spec_flags": tot.flags, "n_spec_flags": tot.n_flags,
    }));
}
