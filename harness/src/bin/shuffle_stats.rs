//! C15: histograms of the processing order of Env::step / MarketEnv::step over seeds.
//! Processing positions are read from the arrival times of the orders (all-new-order batches)
//! and from the verif_schedule hook (mixed batches).  Output: one JSON table per line.
//!
//! usage: shuffle_stats --out FILE --seed BASE --scale S   (S multiplies the trial counts)
use bourse_book::types::Side;
use bourse_de::agents::{AgentSet, MarketAgentSet};
use bourse_de::{market_sim_runner, sim_runner, Env, MarketEnv};
use rand::RngCore;
use rand::SeedableRng;
use rand_xoshiro::Xoroshiro128StarStar;
use serde_json::{json, Value};
use std::collections::BTreeMap;
use std::io::Write;

type R = Xoroshiro128StarStar;

/// positions of the n new orders of one step of a single-asset Env: perm[k] = submission index processed k-th
fn env_new_orders(n: usize, seed: u64, variant: u32) -> Vec<usize> {
    let mut env: Env<1> = Env::new(0, 1, 1_000_000, true);
    for i in 0..n {
        // variant changes what the instructions are (prices, sides, volumes), not how many there are
        let (side, price) = if (i as u32 + variant) % 2 == 0 { (Side::Bid, 100 - (i as u32 % 7)) } else { (Side::Ask, 200 + (i as u32 * variant) % 11) };
        env.place_order(side, 1 + (variant + i as u32) % 5, i as u32, Some(price)).unwrap();
    }
    let mut rng = R::seed_from_u64(seed);
    env.step(&mut rng);
    let mut perm = vec![usize::MAX; n];
    for o in env.get_orders() {
        perm[o.arr_time as usize] = o.order_id;
    }
    perm
}

/// mixed instruction kinds on a multi-asset environment, order read from the hook
fn menv_mixed(n: usize, seed: u64, variant: u32) -> Vec<usize> {
    let mut env: MarketEnv<2, 1> = MarketEnv::new(0, [1, 1], 1_000_000, true);
    let mut rng0 = R::seed_from_u64(999);
    // some resting orders to cancel / modify
    for i in 0..n {
        env.place_order(i % 2, Side::Bid, 5, 7, Some(50 + i as u32)).unwrap();
    }
    env.step(&mut rng0);
    // the batch: instruction i is identified by its distinct payload
    let mut expect: Vec<(u8, (usize, usize), Option<u32>, Option<u32>)> = Vec::new();
    for i in 0..n {
        match (i as u32 + variant) % 3 {
            0 => { let id = env.place_order(i % 2, Side::Ask, 1 + i as u32, 9, Some(500 + i as u32)).unwrap(); expect.push((0, id, None, None)); }
            1 => { env.cancel_order((i % 2, i / 2)); expect.push((1, (i % 2, i / 2), None, None)); }
            _ => { env.modify_order((i % 2, i / 2), Some(40 + i as u32), None); expect.push((2, (i % 2, i / 2), Some(40 + i as u32), None)); }
        }
    }
    let mut rng = R::seed_from_u64(seed);
    env.step(&mut rng);
    let sched = env.verif_schedule();
    let mut used = vec![false; n];
    sched.iter().map(|s| {
        let k = (0..n).find(|k| !used[*k] && expect[*k] == *s).expect("harness: schedule entry not in the batch");
        used[k] = true;
        k
    }).collect()
}

/// One step of a batch of `n` instructions with the generator freshly seeded with `seed`, on an
/// environment that has already taken `prior` steps with batches of `prior_size` instructions (driven by
/// another generator).  `content` selects what the instructions are:
///   0 / 1  all new orders (two different price / side / volume patterns)
///   2      new orders, each odd instruction cancelling the order placed by the instruction before it
///          (a cancellation of an order created in the same step)
///   3      new orders, each odd instruction modifying the order placed by the instruction before it
/// `opt` varies the environment and what the instructions address, none of which may influence the order:
///   1  trading disabled from construction      2  another assignment of instructions to assets ((i / 2) % 2 instead of i % 2)
///   4  every instruction addresses asset 1      8  step size 2 (the batch exceeds it)
///  16  start time 12 345                       32  the new orders are market orders
/// Returns the index permutation (perm[k] = submission index processed k-th), read from the hook.
fn batch_perm(multi: bool, n: usize, seed: u64, content: u32, prior: usize, prior_size: usize) -> Vec<usize> {
    batch_perm_opt(multi, n, seed, content, prior, prior_size, 0)
}

fn batch_perm_opt(multi: bool, n: usize, seed: u64, content: u32, prior: usize, prior_size: usize, opt: u32) -> Vec<usize> {
    let trading = opt & 1 == 0;
    let asset_of = move |i: usize| if opt & 4 != 0 { 1 } else if opt & 2 != 0 { (i / 2) % 2 } else { i % 2 };
    let step_size: u64 = if opt & 8 != 0 { 2 } else { 1_000_000 };
    let t0: u64 = if opt & 16 != 0 { 12_345 } else { 0 };
    let market = opt & 32 != 0;
    let mut rng0 = R::seed_from_u64(seed ^ 0xABCD_EF01);
    let mut rng = R::seed_from_u64(seed);
    macro_rules! drive {
        ($env:ident, $place:expr, $cancel:expr, $modify:expr, $sched:expr) => {{
            if opt & 64 != 0 {
                // a crossed book at the start of the step: crossing limit orders placed while trading is disabled (both assets), one
                // step, then trading as the variation asks for it
                $env.disable_trading();
                for i in 0..4usize { $place(&mut $env, i, if i == 0 || i == 3 { Side::Bid } else { Side::Ask }, 2, if i == 0 || i == 3 { 500 } else { 100 }); }
                $env.step(&mut rng0);
                if trading { $env.enable_trading(); }
            }
            for s in 0..prior {
                for i in 0..prior_size { $place(&mut $env, i, Side::Bid, 1 + (i + s) as u32 % 3, 10 + (i as u32 % 5)); }
                $env.step(&mut rng0);
            }
            // content 4: every odd instruction cancels an order that was placed and cancelled in EARLIER steps (a stale instruction)
            // (one such order per odd instruction, so that the instructions of the batch stay distinguishable)
            let mut stale = Vec::new();
            if content == 4 {
                for i in 0..n { let (id, _) = $place(&mut $env, i, Side::Bid, 1, 5); stale.push(id); }
                $env.step(&mut rng0);
                for id in stale.iter() { let _ = $cancel(&mut $env, *id); }
                $env.step(&mut rng0);
            }
            let mut expect = Vec::new();
            let mut last = None;
            for i in 0..n {
                if content == 4 && i % 2 == 1 {
                    expect.push($cancel(&mut $env, stale[i]));
                } else if content >= 2 && content < 4 && i % 2 == 1 {
                    let id = last.unwrap();
                    if content == 2 { expect.push($cancel(&mut $env, id)); } else { expect.push($modify(&mut $env, id, 300 + i as u32)); }
                } else {
                    let (side, price) = if content == 1 && i % 3 == 0 { (Side::Bid, 20 + i as u32 % 4) } else { (Side::Ask, 200 + (i as u32 * 7) % 13) };
                    let (id, e) = $place(&mut $env, i, side, 1 + (i as u32 + content) % 4, if market { u32::MAX } else { price });
                    last = Some(id);
                    expect.push(e);
                }
            }
            $env.step(&mut rng);
            let sched = $sched(&$env);
            let mut used = vec![false; n];
            sched.iter().map(|x| {
                let k = (0..n).find(|k| !used[*k] && expect[*k] == *x).expect("harness: schedule entry not in the batch");
                used[k] = true;
                k
            }).collect::<Vec<usize>>()
        }};
    }
    if multi {
        let mut env: MarketEnv<2, 1> = MarketEnv::new(t0, [1, 1], step_size, trading);
        drive!(env,
            |e: &mut MarketEnv<2, 1>, i: usize, side, vol, price: u32| { let id = e.place_order(asset_of(i), side, vol, 3, if price == u32::MAX { None } else { Some(price) }).unwrap(); (id, (0u8, id, None::<u32>, None::<u32>)) },
            |e: &mut MarketEnv<2, 1>, id: (usize, usize)| { e.cancel_order(id); (1u8, id, None::<u32>, None::<u32>) },
            |e: &mut MarketEnv<2, 1>, id: (usize, usize), p: u32| { e.modify_order(id, Some(p), None); (2u8, id, Some(p), None::<u32>) },
            |e: &MarketEnv<2, 1>| e.verif_schedule().to_vec())
    } else {
        let mut env: Env<1> = Env::new(t0, 1, step_size, trading);
        drive!(env,
            |e: &mut Env<1>, _i: usize, side, vol, price: u32| { let id = e.place_order(side, vol, 3, if price == u32::MAX { None } else { Some(price) }).unwrap(); (id, (0u8, id, None::<u32>, None::<u32>)) },
            |e: &mut Env<1>, id: usize| { e.cancel_order(id); (1u8, id, None::<u32>, None::<u32>) },
            |e: &mut Env<1>, id: usize, p: u32| { e.modify_order(id, Some(p), None); (2u8, id, Some(p), None::<u32>) },
            |e: &Env<1>| e.verif_schedule().to_vec())
    }
}

/// Probe agent set: every update submits `n` new limit orders (trader id = submission index) and takes `draws` words from the
/// generator, as real agents do.  Used to sample the processing order of the steps of a simulation driven through the public
/// runners, i.e. with the generator the RUNNER builds from the seed.
struct Probe { n: usize, draws: usize }
impl AgentSet for Probe {
    fn update<G: RngCore>(&mut self, env: &mut Env, rng: &mut G) {
        for _ in 0..self.draws { rng.next_u64(); }
        for i in 0..self.n { env.place_order(Side::Ask, 1, i as u32, Some(1000 + i as u32)).unwrap(); }
    }
}
impl MarketAgentSet for Probe {
    fn update<G: RngCore, const M: usize, const N: usize>(&mut self, env: &mut MarketEnv<M, N>, rng: &mut G) {
        for _ in 0..self.draws { rng.next_u64(); }
        for i in 0..self.n { env.place_order(i % M, Side::Ask, 1, i as u32, Some(1000 + i as u32)).unwrap(); }
    }
}

/// index permutation of step `k` (0-based) of a simulation of k + 1 steps through sim_runner / market_sim_runner with seed `seed`
fn runner_perm(multi: bool, n: usize, seed: u64, k: usize, draws: usize) -> Vec<usize> {
    let step_size = 1_000u64;
    let mut a = Probe { n, draws };
    // (arrival time, trader id) of every order; those of step k arrived at k * step_size + position
    let mut arrived: Vec<(u64, u32)> = Vec::new();
    if multi {
        let mut env: MarketEnv<2, 10> = MarketEnv::new(0, [1, 1], step_size, true);
        market_sim_runner(&mut env, &mut a, seed, (k + 1) as u64, false);
        for asset in 0..2 { for o in env.get_orders(asset) { arrived.push((o.arr_time, o.trader_id)); } }
    } else {
        let mut env = Env::new(0, 1, step_size, true);
        sim_runner(&mut env, &mut a, seed, (k + 1) as u64, false);
        for o in env.get_orders() { arrived.push((o.arr_time, o.trader_id)); }
    }
    let start = k as u64 * step_size;
    let mut perm = vec![usize::MAX; n];
    for (t, tr) in arrived {
        if t >= start && t < start + n as u64 { perm[(t - start) as usize] = tr as usize; }
    }
    perm
}

fn perm_table(env: &str, n: usize, trials: u64, base: u64, f: &dyn Fn(usize, u64, u32) -> Vec<usize>) -> Value {
    let mut counts: BTreeMap<Vec<usize>, u64> = BTreeMap::new();
    for t in 0..trials {
        *counts.entry(f(n, base.wrapping_add(t), (t % 3) as u32)).or_insert(0) += 1;
    }
    json!({"kind": "perm", "env": env, "n": n, "N": trials, "counts": counts.into_iter().map(|(p, c)| json!([p, c])).collect::<Vec<_>>()})
}

/// position-by-item and pairwise-order tables; the pairwise table also carries the number of EVEN permutations (a uniformly
/// distributed permutation of two or more items is even with probability exactly 1/2, whatever algorithm produced it)
fn pos_pair_tables(env: &str, n: usize, trials: u64, base: u64, f: &dyn Fn(usize, u64, u32) -> Vec<usize>) -> (Value, Value) {
    let mut pos = vec![vec![0u64; n]; n];
    let mut pair = vec![vec![0u64; n]; n];
    let mut where_ = vec![0usize; n];
    let mut even = 0u64;
    let mut seen = vec![false; n];
    for t in 0..trials {
        let p = f(n, base.wrapping_add(t), (t % 3) as u32);
        for (k, item) in p.iter().enumerate() { pos[*item][k] += 1; where_[*item] = k; }
        for i in 0..n { for j in 0..n { if i != j && where_[i] < where_[j] { pair[i][j] += 1; } } }
        // parity = parity of (n - number of cycles)
        for x in seen.iter_mut() { *x = false; }
        let mut cycles = 0usize;
        for i in 0..n { if !seen[i] { cycles += 1; let mut j = i; while !seen[j] { seen[j] = true; j = p[j]; } } }
        if (n - cycles) % 2 == 0 { even += 1; }
    }
    (json!({"kind": "pos", "env": env, "n": n, "N": trials, "counts": pos}), json!({"kind": "pair", "env": env, "n": n, "N": trials, "counts": pair, "even": even}))
}

/// Digits of three standard bijective codes of a permutation p (p[k] = item processed k-th).  Each code maps the n!
/// permutations one-to-one onto the digit vectors with digit i ranging over 0..=i, so under a uniformly distributed
/// permutation EVERY digit of EVERY code is uniform on its range - whatever algorithm drew the permutation:
///   0  the swap indices of a Fisher-Yates shuffle running from the last position down to the second,
///   1  the swap indices of a Fisher-Yates shuffle running from the first position up,
///   2  the Lehmer code (number of later entries that are smaller).
/// Returns per code a vector d with d[i] in 0..=i, i = 0..n-1 (d[0] = 0).
fn codes(p: &[usize]) -> [Vec<usize>; 3] {
    let n = p.len();
    // code 0: a = identity; for i = n-1 down to 1: j = index of p[i] in a; swap(a[i], a[j])
    let mut a: Vec<usize> = (0..n).collect();
    let mut at: Vec<usize> = (0..n).collect();      // at[item] = index in a
    let mut d0 = vec![0usize; n];
    for i in (1..n).rev() {
        let j = at[p[i]];
        d0[i] = j;
        let (x, y) = (a[i], a[j]);
        a.swap(i, j); at[x] = j; at[y] = i;
    }
    // code 1: for i = 0 up to n-2: j = index (>= i) of p[i]; digit = j - i in 0..=n-1-i, stored at index n-1-i
    let mut a: Vec<usize> = (0..n).collect();
    let mut at: Vec<usize> = (0..n).collect();
    let mut d1 = vec![0usize; n];
    for i in 0..n.saturating_sub(1) {
        let j = at[p[i]];
        d1[n - 1 - i] = j - i;
        let (x, y) = (a[i], a[j]);
        a.swap(i, j); at[x] = j; at[y] = i;
    }
    // code 2: Lehmer code, digit of position i stored at index n-1-i
    let mut d2 = vec![0usize; n];
    for i in 0..n { d2[n - 1 - i] = (i + 1..n).filter(|j| p[*j] < p[i]).count(); }
    [d0, d1, d2]
}

/// per code, per digit index i, the histogram over 0..=i
fn code_tables(env: &str, n: usize, trials: u64, base: u64, f: &dyn Fn(usize, u64, u32) -> Vec<usize>) -> Value {
    let mut h: Vec<Vec<Vec<u64>>> = (0..3).map(|_| (0..n).map(|i| vec![0u64; i + 1]).collect()).collect();
    for t in 0..trials {
        let p = f(n, base.wrapping_add(t), (t % 3) as u32);
        let c = codes(&p);
        for k in 0..3 { for i in 1..n { h[k][i][c[k][i]] += 1; } }
    }
    json!({"kind": "code", "env": env, "n": n, "N": trials, "counts": h})
}

fn main() {
    let args: Vec<String> = std::env::args().collect();
    let mut out = String::new();
    let (mut base, mut scale) = (1u64, 1u64);
    let mut i = 1;
    while i < args.len() {
        match args[i].as_str() {
            "--out" => { out = args[i + 1].clone(); i += 1 }
            "--seed" => { base = args[i + 1].parse::<u64>().unwrap().wrapping_mul(0x9E37_79B9_7F4A_7C15); i += 1 }
            "--scale" => { scale = args[i + 1].parse().unwrap(); i += 1 }
            a => { eprintln!("unknown argument {}", a); std::process::exit(2) }
        }
        i += 1;
    }
    let mut f = std::io::BufWriter::new(std::fs::File::create(&out).expect("create out"));
    let mut cells = 0u64;
    let mut tables = 0u64;
    let mut steps = 0u64;
    let mut emit = |v: Value, f: &mut std::io::BufWriter<std::fs::File>| {
        let n = v["n"].as_u64().unwrap();
        cells += match v["kind"].as_str().unwrap() { "perm" => (1..=n).product::<u64>(), "pos" => n * n, "pair" => n * (n - 1) / 2 + 1, "code" => 3 * (n * (n + 1) / 2), _ => 0 };
        tables += 1;
        steps += v["N"].as_u64().unwrap_or(3);
        writeln!(f, "{}", v).unwrap();
    };
    // all n! permutations, n = 2..6, >= 2*10^5 steps each (216000 = 300 * 6!)
    let trials = 216_000 * scale;
    for n in 2..=6usize {
        emit(perm_table("env", n, trials, base ^ (n as u64) << 32, &env_new_orders), &mut f);
        emit(perm_table("menv_mixed", n, trials, base ^ (0x55 + n as u64) << 32, &menv_mixed), &mut f);
    }
    // position-by-item and pairwise-order tables up to 64 (230400 = 3600 * 64)
    let trials = 230_400 * scale;
    for n in [8usize, 16, 32, 64] {
        let (a, b) = pos_pair_tables("env", n, trials, base ^ (0xA0 + n as u64) << 32, &env_new_orders);
        emit(a, &mut f); emit(b, &mut f);
    }
    for n in [8usize, 16] {
        let (a, b) = pos_pair_tables("menv_mixed", n, trials / 2, base ^ (0xB0 + n as u64) << 32, &menv_mixed);
        emit(a, &mut f); emit(b, &mut f);
    }
    // EVERY batch size 2..64 (a size-dependent shuffle can go wrong at any one of them): position-by-item and pairwise tables
    // with >= 2.3 * 10^5 steps per size (the count is rounded up to an even multiple of the size so that the expectation of
    // every cell is an integer); computed on all cores
    {
        let nthreads = std::thread::available_parallelism().map(|x| x.get()).unwrap_or(4).min(14);
        let sizes: Vec<usize> = (2..=64).collect();
        let results: std::sync::Mutex<Vec<(usize, Value, Value)>> = std::sync::Mutex::new(Vec::new());
        let next = std::sync::atomic::AtomicUsize::new(0);
        std::thread::scope(|sc| {
            for _ in 0..nthreads {
                sc.spawn(|| loop {
                    let i = next.fetch_add(1, std::sync::atomic::Ordering::Relaxed);
                    if i >= sizes.len() { break; }
                    let n = sizes[i];
                    let mut mult = (230_400 * scale + n as u64 - 1) / n as u64;
                    if mult % 2 == 1 { mult += 1; }
                    let fresh = ![8usize, 16, 32, 64].contains(&n);
                    let (a, b) = if fresh { pos_pair_tables("env_every_size", n, mult * n as u64, base ^ (0x300 + n as u64) << 32, &env_new_orders) } else { (Value::Null, Value::Null) };
                    // the digits of the three codes, every size: a step count of 2.3 * 10^5 (expectations need not be integers here)
                    let c = code_tables("env_every_size", n, 230_400 * scale, base ^ (0x400 + n as u64) << 32, &env_new_orders);
                    let mut r = results.lock().unwrap();
                    r.push((n, a, b));
                    r.push((n, c, Value::Null));
                });
            }
        });
        let mut r = results.into_inner().unwrap();
        r.sort_by_key(|x| x.0);
        for (_, a, b) in r { if !a.is_null() { emit(a, &mut f); } if !b.is_null() { emit(b, &mut f); } }
    }
    // same generator state, same size => same index permutation, whatever the instructions
    for n in [2usize, 3, 5, 8, 13, 64] {
        for s in 0..20u64 {
            let seed = base ^ (s * 7919 + n as u64);
            emit(json!({"kind": "det", "env": "env", "n": n, "seed": seed.to_string(), "perm_a": env_new_orders(n, seed, 0),
                "perm_a2": env_new_orders(n, seed, 0), "perm_b": env_new_orders(n, seed, 2)}), &mut f);
            if n <= 16 {
                emit(json!({"kind": "det", "env": "menv_mixed", "n": n, "seed": seed.to_string(), "perm_a": menv_mixed(n, seed, 0),
                    "perm_a2": menv_mixed(n, seed, 0), "perm_b": menv_mixed(n, seed, 1)}), &mut f);
            }
        }
    }
    // the same, for batches that refer to orders created in the same step and for environments with a
    // history: the index permutation is a function of the generator state and the batch size only
    for multi in [false, true] {
        for n in [2usize, 3, 4, 6, 9, 16] {
            for s in 0..12u64 {
                let seed = base ^ (s * 104_729 + n as u64 * 31 + multi as u64);
                let labels = ["fresh", "fresh again", "other new orders", "cancels of orders created in the same step",
                    "modifies of orders created in the same step", "after 1 step of the same batch size", "after 3 steps of the same batch size",
                    "after 2 steps of another batch size", "same-step cancels after 2 steps of the same batch size",
                    "trading disabled", "trading disabled, after 1 step", "another assignment of instructions to assets", "every instruction on asset 1",
                    "step size 2", "start time 12345", "market orders", "market orders, trading disabled, step size 2",
                    "cancellations of an order closed in an earlier step",
                    "crossed book (orders placed while trading was disabled), trading enabled again", "crossed book, same-step cancels",
                    "crossed book, trading still disabled, cancels of orders closed earlier", "crossed book, same-step modifies"];
                let perms = vec![batch_perm(multi, n, seed, 0, 0, 0), batch_perm(multi, n, seed, 0, 0, 0), batch_perm(multi, n, seed, 1, 0, 0),
                    batch_perm(multi, n, seed, 2, 0, 0), batch_perm(multi, n, seed, 3, 0, 0), batch_perm(multi, n, seed, 0, 1, n),
                    batch_perm(multi, n, seed, 1, 3, n), batch_perm(multi, n, seed, 0, 2, n + 1), batch_perm(multi, n, seed, 2, 2, n),
                    batch_perm_opt(multi, n, seed, 0, 0, 0, 1), batch_perm_opt(multi, n, seed, 1, 1, n, 1), batch_perm_opt(multi, n, seed, 0, 0, 0, 2),
                    batch_perm_opt(multi, n, seed, 0, 0, 0, 4), batch_perm_opt(multi, n, seed, 0, 0, 0, 8), batch_perm_opt(multi, n, seed, 0, 0, 0, 16),
                    batch_perm_opt(multi, n, seed, 0, 0, 0, 32), batch_perm_opt(multi, n, seed, 0, 0, 0, 1 | 8 | 32),
                    batch_perm(multi, n, seed, 4, 0, 0),
                    batch_perm_opt(multi, n, seed, 0, 0, 0, 64), batch_perm_opt(multi, n, seed, 2, 0, 0, 64), batch_perm_opt(multi, n, seed, 4, 0, 0, 64 | 1),
                    batch_perm_opt(multi, n, seed, 3, 1, n, 64)];
                emit(json!({"kind": "det2", "env": if multi { "menv" } else { "env" }, "n": n, "seed": seed.to_string(), "labels": labels, "perms": perms}), &mut f);
            }
        }
    }
    // all n! permutations of batches that cancel orders created in the same step (n = 2..4)
    let trials = 24_000 * scale;
    for n in 2..=4usize {
        emit(perm_table("env_same_step", n, trials, base ^ (0xC0 + n as u64) << 32, &|n, seed, _v| batch_perm(false, n, seed, 2, 0, 0)), &mut f);
        emit(perm_table("menv_same_step", n, trials, base ^ (0xD0 + n as u64) << 32, &|n, seed, _v| batch_perm(true, n, seed, 2, 1, n)), &mut f);
        // trading disabled; every instruction on one asset of two; batches larger than the step size
        emit(perm_table("env_trading_off", n, trials, base ^ (0xE0 + n as u64) << 32, &|n, seed, v| batch_perm_opt(false, n, seed, v % 2, 0, 0, 1)), &mut f);
        emit(perm_table("menv_trading_off_one_asset", n, trials, base ^ (0xF0 + n as u64) << 32, &|n, seed, v| batch_perm_opt(true, n, seed, v % 2, 0, 0, 1 | 4)), &mut f);
        emit(perm_table("menv_small_step", n, trials, base ^ (0x1F0 + n as u64) << 32, &|n, seed, _v| batch_perm_opt(true, n, seed, 0, 0, 0, 2 | 8)), &mut f);
    }
    // schedules induced by seeds THROUGH THE PUBLIC RUNNERS (the generator the runner builds from the seed): consecutive small
    // seeds 0, 1, 2, ... as a user would choose them, and consecutive seeds from the run's base; first, second and third step of
    // a simulation; agents that draw nothing and agents that draw before submitting
    let trials = 24_000 * scale;
    for multi in [false, true] {
        for k in 0..3usize {
            let name = format!("{}_step{}", if multi { "market_sim_runner" } else { "sim_runner" }, k);
            emit(perm_table(&format!("{}_small_seeds", name), 3, trials, 0, &|n, seed, v| runner_perm(multi, n, seed, k, v as usize)), &mut f);
            emit(perm_table(&format!("{}_small_seeds", name), 4, trials, 1 << 20, &|n, seed, v| runner_perm(multi, n, seed, k, (2 * v) as usize)), &mut f);
            emit(perm_table(&name, 3, trials, base ^ (0x2F0 + k as u64) << 32, &|n, seed, v| runner_perm(multi, n, seed, k, v as usize)), &mut f);
            let (a, b) = pos_pair_tables(&format!("{}_small_seeds", name), 8, 24_000 * scale, 0, &|n, seed, _v| runner_perm(multi, n, seed, k, 1));
            emit(a, &mut f); emit(b, &mut f);
        }
    }
    // the same seed through the runner again gives the same processing order (boundary seeds included)
    for multi in [false, true] {
        for n in [2usize, 3, 5, 8, 13] {
            for s in [0u64, 1, 2, 3, 101, u64::MAX, 1 << 63, base] {
                let labels = ["runner", "runner again", "runner, third time"];
                let perms = vec![runner_perm(multi, n, s, 1, 0), runner_perm(multi, n, s, 1, 0), runner_perm(multi, n, s, 1, 0)];
                emit(json!({"kind": "det2", "env": if multi { "market_sim_runner" } else { "sim_runner" }, "n": n, "seed": s.to_string(), "labels": labels, "perms": perms}), &mut f);
            }
        }
    }
    f.flush().unwrap();
    println!("{}", json!({"tables": tables, "cells": cells, "steps": steps}));
}
