//! Complete simulations recorded FROM INSIDE the real runners (sim_runner / market_sim_runner): the
//! agent set handed to the runner is a recording wrapper around built-in agents.  Each time the runner
//! calls `update` on it, the wrapper first logs what the preceding `env.step` did (one "step" event with
//! the processing order the hook reported), then calls each member's `update` in turn and logs one
//! "update" event per member: the submissions it queued (read from the instruction queue and the new
//! order records) and the delta of the environment's complete public projection.  The last step is
//! logged after the runner returns.  TLC validates the file against SimTrace.tla: the runner's loop
//! structure (every member once, in order, then one step; n_steps times), every step (EnvTrace /
//! MarketOps), every submission (C10) and every member's instructions against the agent relations of
//! Agents.tla, with the agent's observation derived by TLC from its own specification state.
//!
//! Runs are kept in the small-number regime (all prices < 2^29): the starting book is two-sided with
//! large far-away quotes; a run ends early when a quote leaves the regime (counted as `left_regime`).
//!
//! usage: record_sim --out FILE --seed N --runs R --ops STEPS --profile JSON
use bourse_book::types::Side;
use bourse_de::agents::{Agent, AgentSet, MarketAgent, MarketAgentSet, MomentumAgent, MomentumMarketAgent, MomentumParams, NoiseAgent,
    NoiseAgentParams, NoiseMarketAgent, RandomAgents, RandomMarketAgents};
use bourse_de::{market_sim_runner, sim_runner, Env, MarketEnv};
use bourse_verif_harness::envdyn::EnvDyn;
use bourse_verif_harness::obs::{merge, observe, Track};
use bourse_verif_harness::{guarded, quiet_panics};
use rand::{Rng, RngCore, SeedableRng};
use rand_xoshiro::Xoroshiro128StarStar;
use serde_json::{json, Value};
use std::collections::BTreeMap;
use std::io::Write;
use std::panic::AssertUnwindSafe;

type R = Xoroshiro128StarStar;
const LIMIT: i64 = 1 << 29;

enum Ag { R(RandomAgents), N(NoiseAgent), M(MomentumAgent) }
enum AgM { R(RandomMarketAgents), N(NoiseMarketAgent), M(MomentumMarketAgent) }

fn prob_class(p: f64) -> &'static str { if p <= 0.0 { "zero" } else if p >= 1.0 { "one" } else { "mid" } }

fn noise_params(c: &Value) -> NoiseAgentParams {
    NoiseAgentParams { tick_size: c["tick"].as_u64().unwrap() as u32, p_limit: c["p_limit_f"].as_f64().unwrap() as f32, p_market: c["p_market_f"].as_f64().unwrap() as f32,
        p_cancel: c["p_cancel_f"].as_f64().unwrap() as f32, trade_vol: c["vol"].as_u64().unwrap() as u32, price_dist_mu: 0.0, price_dist_sigma: c["sigma"].as_f64().unwrap() }
}
fn mom_params(c: &Value) -> MomentumParams {
    MomentumParams { tick_size: c["tick"].as_u64().unwrap() as u32, p_cancel: c["p_cancel_f"].as_f64().unwrap() as f32, trade_vol: c["vol"].as_u64().unwrap() as u32,
        decay: 0.5, demand: c["demand"].as_f64().unwrap(), scale: 0.5, order_ratio: c["order_ratio"].as_f64().unwrap(), price_dist_mu: 0.0, price_dist_sigma: c["sigma"].as_f64().unwrap() }
}

fn make(c: &Value) -> Ag {
    let (n, tick) = (c["n"].as_u64().unwrap(), c["tick"].as_u64().unwrap() as u32);
    match c["kind"].as_str().unwrap() {
        "random" => Ag::R(RandomAgents::new(n as usize, (c["tick_lo"].as_u64().unwrap() as u32, c["tick_hi"].as_u64().unwrap() as u32),
            (c["vol_lo"].as_u64().unwrap() as u32, c["vol_hi"].as_u64().unwrap() as u32), tick, c["rate_f"].as_f64().unwrap() as f32)),
        "noise" => Ag::N(NoiseAgent::new(c["id0"].as_u64().unwrap() as u32, n as u16, noise_params(c))),
        _ => Ag::M(MomentumAgent::new(c["id0"].as_u64().unwrap() as u32, n as u16, mom_params(c))),
    }
}
fn make_m(c: &Value) -> AgM {
    let (n, tick, a) = (c["n"].as_u64().unwrap(), c["tick"].as_u64().unwrap() as u32, c["asset"].as_u64().unwrap() as usize);
    match c["kind"].as_str().unwrap() {
        "random" => AgM::R(RandomMarketAgents::new(a, n as usize, (c["tick_lo"].as_u64().unwrap() as u32, c["tick_hi"].as_u64().unwrap() as u32),
            (c["vol_lo"].as_u64().unwrap() as u32, c["vol_hi"].as_u64().unwrap() as u32), tick, c["rate_f"].as_f64().unwrap() as f32)),
        "noise" => AgM::N(NoiseMarketAgent::new(a, c["id0"].as_u64().unwrap() as u32, n as u16, noise_params(c))),
        _ => AgM::M(MomentumMarketAgent::new(c["id0"].as_u64().unwrap() as u32, n as u16, a, mom_params(c))),
    }
}

/// what both wrappers share: the event log and the tracker of the previous projection
struct Log {
    events: Vec<Value>,
    track: Track,
    feats: BTreeMap<String, u64>,
    first: bool,
    steps_seen: u64,
    stop: Option<String>,
}

impl Log {
    fn step_event(&mut self, env: &dyn EnvDyn, last: bool) {
        let p = env.proj();
        self.steps_seen += 1;
        let audit = last || self.steps_seen % 15 == 0;
        let mut ev = merge(json!({"op": "step", "sched": env.schedule(), "audit": audit}), observe(&p, &mut self.track, audit, &mut self.feats));
        ev["audit"] = json!(audit);
        let n = ev["sched"].as_array().map(|a| a.len()).unwrap_or(0);
        if n >= 4 { *self.feats.entry("steps_with_batch_of_4_or_more".into()).or_insert(0) += 1; }
        *self.feats.entry("steps".into()).or_insert(0) += 1;
        self.events.push(ev);
    }

    /// submissions appended to the queue by one member's update, as EnvTrace submit labels
    fn update_event(&mut self, env: &dyn EnvDyn, j: usize, pend_before: usize) {
        let p = env.proj();
        let pend = p["pending"].as_array().unwrap();
        let mut subs = Vec::new();
        for x in pend[pend_before.min(pend.len())..].iter() {
            let (k, a, id) = (x[0].as_str().unwrap(), x[1].as_u64().unwrap() as usize, x[2].as_u64().unwrap() as usize);
            if k == "new" {
                let o = &p["books"][a]["orders"][id];
                let price = o[6].as_i64().unwrap();
                let mkt = (o[0] == "B" && price == bourse_verif_harness::SPEC_MAX_PRICE) || (o[0] == "A" && price == 0);
                if !mkt && price >= LIMIT { self.stop = Some(format!("a quote at {} left the small-number regime", price)); }
                subs.push(json!({"op": "submit", "k": "new", "a": a, "side": o[0], "vol": o[4], "tr": o[7], "price": if mkt { -1 } else { price }, "ret": id}));
            } else {
                subs.push(json!({"op": "submit", "k": k, "a": a, "id": id, "p": x[3], "v": x[4]}));
            }
        }
        if self.stop.is_some() { return; }
        if !subs.is_empty() { *self.feats.entry("updates_with_instructions".into()).or_insert(0) += 1; }
        if subs.iter().any(|s| s["k"] == "cancel") { *self.feats.entry("updates_with_cancels".into()).or_insert(0) += 1; }
        *self.feats.entry("updates".into()).or_insert(0) += 1;
        let ev = merge(json!({"op": "update", "agent": j, "subs": subs, "audit": false}), observe(&p, &mut self.track, false, &mut self.feats));
        self.events.push(ev);
    }
}

struct Rec1 { agents: Vec<Ag>, log: Log }
struct RecM { agents: Vec<AgM>, log: Log }

impl AgentSet for Rec1 {
    fn update<G: RngCore>(&mut self, env: &mut Env, rng: &mut G) {
        if self.log.stop.is_some() { return; }
        if !self.log.first { self.log.step_event(env, false); }
        self.log.first = false;
        for j in 0..self.agents.len() {
            let before = env.verif_pending().len();
            match &mut self.agents[j] { Ag::R(a) => a.update(env, rng), Ag::N(a) => a.update(env, rng), Ag::M(a) => a.update(env, rng) }
            self.log.update_event(env, j, before);
            if self.log.stop.is_some() { return; }
        }
    }
}

impl MarketAgentSet for RecM {
    fn update<G: RngCore, const M: usize, const N: usize>(&mut self, env: &mut MarketEnv<M, N>, rng: &mut G) {
        if self.log.stop.is_some() { return; }
        if !self.log.first { self.log.step_event(env, false); }
        self.log.first = false;
        for j in 0..self.agents.len() {
            let before = env.verif_pending().len();
            match &mut self.agents[j] { AgM::R(a) => a.update(env, rng), AgM::N(a) => a.update(env, rng), AgM::M(a) => a.update(env, rng) }
            self.log.update_event(env, j, before);
            if self.log.stop.is_some() { return; }
        }
    }
}

fn pick<'a, T>(rng: &mut R, xs: &'a [T]) -> &'a T { &xs[rng.gen_range(0..xs.len())] }

fn main() {
    quiet_panics();
    let args: Vec<String> = std::env::args().collect();
    let mut out = String::new();
    let (mut seed, mut runs, mut max_steps) = (0u64, 1usize, 30usize);
    let mut prof = json!({});
    let mut i = 1;
    while i < args.len() {
        match args[i].as_str() {
            "--out" => { out = args[i + 1].clone(); i += 1 }
            "--seed" => { seed = args[i + 1].parse().unwrap(); i += 1 }
            "--runs" => { runs = args[i + 1].parse().unwrap(); i += 1 }
            "--ops" => { max_steps = args[i + 1].parse().unwrap(); i += 1 }
            "--profile" => { prof = serde_json::from_str(&args[i + 1]).expect("profile json"); i += 1 }
            a => { eprintln!("unknown argument {}", a); std::process::exit(2) }
        }
        i += 1;
    }
    let probs: Vec<f64> = prof.get("probs").and_then(|x| x.as_array()).map(|a| a.iter().map(|x| x.as_f64().unwrap()).collect()).unwrap_or(vec![0.0, 0.3, 0.6, 1.0, 1.5]);
    let multi_opt: Vec<bool> = prof.get("multi").and_then(|x| x.as_array()).map(|a| a.iter().map(|x| x.as_bool().unwrap()).collect()).unwrap_or(vec![false, true]);
    let mut rng = R::seed_from_u64(seed);
    let mut f = std::io::BufWriter::new(std::fs::File::create(&out).expect("create out"));
    let mut feats: BTreeMap<String, u64> = BTreeMap::new();
    let mut n_events = 0u64;
    let mut panics: Vec<Value> = Vec::new();
    let mut samples: Vec<Value> = Vec::new();

    for run in 0..runs {
        let multi = *pick(&mut rng, &multi_opt);
        let tick = *pick(&mut rng, &[1u32, 1, 2, 5]);
        let step = *pick(&mut rng, &[10u64, 100, 1000]);
        let steps = rng.gen_range(2..=max_steps.max(2)) as u64;
        let sim_seed: u64 = rng.gen();
        let progress = rng.gen::<f64>() < 0.3;
        let level: u32 = (2000 + 10 * rng.gen_range(0..50u32)) * tick;
        // members: disjoint trader id ranges; at most one group of random agents per asset (they use ids 0..n)
        let na = rng.gen_range(2..=4usize);
        let mut used_random = [false; 2];
        let mut cfgs: Vec<Value> = Vec::new();
        for j in 0..na {
            let asset = if multi { rng.gen_range(0..2usize) } else { 0 };
            let mut kind = *pick(&mut rng, &["random", "noise", "noise", "momentum"]);
            if kind == "random" && used_random[asset] { kind = "noise"; }
            if kind == "random" { used_random[asset] = true; }
            let n = rng.gen_range(1..=5u64);
            let (p_limit, p_market, p_cancel, rate) = (*pick(&mut rng, &probs), *pick(&mut rng, &[0.0, 0.2, 1.0]), *pick(&mut rng, &probs), *pick(&mut rng, &probs));
            let tick_lo = level / tick - rng.gen_range(1..20u32);
            let order_ratio = *pick(&mut rng, &[0.0, 1.0, 2.0]);
            cfgs.push(json!({"kind": kind, "asset": asset, "n": n, "tick": tick, "id0": if kind == "random" { 0 } else { 100 * (j as u64 + 1) },
                "p_limit": prob_class(p_limit), "p_market": prob_class(p_market), "p_cancel": prob_class(p_cancel), "rate": prob_class(rate),
                "p_limit_f": p_limit, "p_market_f": p_market, "p_cancel_f": p_cancel, "rate_f": rate,
                "vol": rng.gen_range(1..40u32), "tick_lo": tick_lo, "tick_hi": tick_lo + rng.gen_range(2..40u32), "vol_lo": 1 + j as u32, "vol_hi": 10 + 3 * j as u32,
                "sigma": *pick(&mut rng, &[0.5, 1.0, 2.0]), "demand": *pick(&mut rng, &[2.0, 6.0]), "order_ratio": order_ratio,
                "limit_certain": order_ratio >= 1.0, "order_ratio_zero": order_ratio <= 0.0, "saturated": false, "multi": multi}));
        }
        let ticks: Vec<u32> = if multi { vec![tick, tick] } else { vec![tick] };
        let cfg = json!({"kind": if multi { "menv" } else { "env" }, "ticks": ticks, "step": step, "trading": true, "levels": 10, "t0": 0,
            "steps": steps, "seed": sim_seed.to_string(), "progress": progress, "agents": cfgs, "level": level});
        let log = Log { events: vec![], track: Track { prev_orders: vec![vec![]; ticks.len()], n_trades: vec![0; ticks.len()] }, feats: BTreeMap::new(), first: true, steps_seen: 0, stop: None };
        // starting book: two-sided, with large far-away quotes that keep both sides populated; made live by one
        // harness step (driven by another generator) before the runner starts
        let res = guarded(AssertUnwindSafe(|| {
            let mut hrng = R::seed_from_u64(sim_seed ^ 0x5555);
            if multi {
                let mut env: MarketEnv<2, 10> = MarketEnv::new(0, [tick, tick], step, true);
                let mut setup = Vec::new();
                for a in 0..2usize {
                    for (side, vol, price) in [(Side::Bid, 500u32, level - 3 * tick), (Side::Ask, 400, level + 3 * tick), (Side::Bid, 1_000_000, level - 200 * tick), (Side::Ask, 1_000_000, level + 200 * tick)] {
                        let id = env.place_order(a, side, vol, 900_000, Some(price)).unwrap();
                        setup.push(json!({"op": "submit", "k": "new", "a": a, "side": if matches!(side, Side::Bid) { "B" } else { "A" }, "vol": vol, "tr": 900_000, "price": price, "ret": id.1}));
                    }
                }
                env.step(&mut hrng);
                let setup_sched = EnvDyn::schedule(&env);
                let mut rec = RecM { agents: cfgs.iter().map(make_m).collect(), log };
                let p0 = EnvDyn::proj(&env);
                let e0 = merge(merge(json!({"op": "reset", "run": run, "audit": false, "setup": setup, "setup_sched": setup_sched}), cfg.clone()), observe(&p0, &mut rec.log.track, false, &mut rec.log.feats));
                rec.log.events.push(e0);
                market_sim_runner(&mut env, &mut rec, sim_seed, steps, progress);
                if rec.log.stop.is_none() { rec.log.step_event(&env, true); }
                rec.log
            } else {
                let mut env = Env::new(0, tick, step, true);
                let mut setup = Vec::new();
                for (side, vol, price) in [(Side::Bid, 500u32, level - 3 * tick), (Side::Ask, 400, level + 3 * tick), (Side::Bid, 1_000_000, level - 200 * tick), (Side::Ask, 1_000_000, level + 200 * tick)] {
                    let id = env.place_order(side, vol, 900_000, Some(price)).unwrap();
                    setup.push(json!({"op": "submit", "k": "new", "a": 0, "side": if matches!(side, Side::Bid) { "B" } else { "A" }, "vol": vol, "tr": 900_000, "price": price, "ret": id}));
                }
                env.step(&mut hrng);
                let setup_sched = EnvDyn::schedule(&env);
                let mut rec = Rec1 { agents: cfgs.iter().map(make).collect(), log };
                let p0 = EnvDyn::proj(&env);
                let e0 = merge(merge(json!({"op": "reset", "run": run, "audit": false, "setup": setup, "setup_sched": setup_sched}), cfg.clone()), observe(&p0, &mut rec.log.track, false, &mut rec.log.feats));
                rec.log.events.push(e0);
                sim_runner(&mut env, &mut rec, sim_seed, steps, progress);
                if rec.log.stop.is_none() { rec.log.step_event(&env, true); }
                rec.log
            }
        }));
        match res {
            Ok(log) => {
                let complete = log.stop.is_none();
                for e in log.events.iter() { writeln!(f, "{}", e).unwrap(); n_events += 1; }
                writeln!(f, "{}", json!({"op": "end", "complete": complete, "steps": log.steps_seen, "why": log.stop.clone().unwrap_or_default()})).unwrap();
                n_events += 1;
                for (k, v) in log.feats { *feats.entry(k).or_insert(0) += v; }
                *feats.entry(if complete { "complete_runs".to_string() } else { "left_regime".to_string() }).or_insert(0) += 1;
                if samples.is_empty() { if let Some(e) = log.events.iter().find(|e| e["op"] == "update" && e["subs"].as_array().map(|a| a.len() >= 2).unwrap_or(false)) {
                    samples.push(json!({"op": "update", "agent": e["agent"], "subs": e["subs"]})); } }
            }
            Err(m) => {
                panics.push(json!({"run": run, "what": format!("simulation aborted inside the runner: {}", m), "cfg": cfg}));
            }
        }
    }
    f.flush().unwrap();
    println!("{}", json!({"events": n_events, "runs": runs, "features": feats, "panics": panics, "samples": samples}));
}
