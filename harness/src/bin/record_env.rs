//! record-validate for the simulation environments, recording half: drives the real Env /
//! MarketEnv with long seeded random runs (batches of any size, several instructions per order,
//! instructions for orders created in the same step, trading toggles, off-grid prices, step sizes
//! smaller than the batch) and logs one ndjson event per public call: the call, and the delta of the
//! complete public projection per asset plus the environment's own observables.  Step events also
//! carry the processing order reported by the verif_schedule hook.  TLC validates the file against
//! EnvTrace.tla, with the hook (linear) or without it (schedule inference).
//!
//! usage: record_env --out FILE --seed N --runs R --ops K --profile JSON
use bourse_verif_harness::envdyn::{new_env, EnvDyn};
use bourse_verif_harness::obs::{merge, observe, Track};
use bourse_verif_harness::{guarded, quiet_panics};
use rand::{Rng, SeedableRng};
use rand_xoshiro::Xoroshiro128StarStar;
use serde_json::{json, Value};
use std::collections::BTreeMap;
use std::io::Write;
use std::panic::AssertUnwindSafe;

type R = Xoroshiro128StarStar;

fn pick<'a, T>(rng: &mut R, xs: &'a [T]) -> &'a T {
    &xs[rng.gen_range(0..xs.len())]
}

fn nums(v: &Value, k: &str, d: &[u64]) -> Vec<u64> {
    v.get(k).and_then(|x| x.as_array()).map(|a| a.iter().map(|x| x.as_u64().unwrap()).collect()).unwrap_or(d.to_vec())
}

fn main() {
    quiet_panics();
    let args: Vec<String> = std::env::args().collect();
    let mut out = String::new();
    let (mut seed, mut runs, mut ops) = (0u64, 1usize, 100usize);
    let mut prof = json!({});
    let mut i = 1;
    while i < args.len() {
        match args[i].as_str() {
            "--out" => { out = args[i + 1].clone(); i += 1 }
            "--seed" => { seed = args[i + 1].parse().unwrap(); i += 1 }
            "--runs" => { runs = args[i + 1].parse().unwrap(); i += 1 }
            "--ops" => { ops = args[i + 1].parse().unwrap(); i += 1 }
            "--profile" => { prof = serde_json::from_str(&args[i + 1]).expect("profile json"); i += 1 }
            a => { eprintln!("unknown argument {}", a); std::process::exit(2) }
        }
        i += 1;
    }
    let f64p = |k: &str, d: f64| prof.get(k).and_then(|x| x.as_f64()).unwrap_or(d);
    let assets_opts = nums(&prof, "assets", &[1, 2, 3]);
    let levels_opts = nums(&prof, "levels", &[1, 2, 4, 10]);
    let steps_opts = nums(&prof, "step_sizes", &[1, 3, 10, 1000]);
    let t0_opts = nums(&prof, "t0s", &[0, 0, 7, 1999, 34_200_251]);
    let ticks_opts = nums(&prof, "ticks", &[1, 1, 2, 5]);
    let max_batch = f64p("max_batch", 7.0) as usize;
    let min_batch = f64p("min_batch", 1.0) as usize;       // a step is taken only once the batch has this many instructions
    let p_empty_step = f64p("p_empty_step", 0.04);          // steps with nothing queued ("quiet" steps)
    let p_step = f64p("p_step", 0.2);
    let p_market = f64p("p_market", 0.15);
    let p_toggle = f64p("p_toggle", 0.02);
    let p_offgrid = f64p("p_offgrid", 0.05);
    let p_modify = f64p("p_modify", 0.15);
    let p_cancel = f64p("p_cancel", 0.2);
    let nprices = f64p("nprices", 8.0) as u32;
    let single = prof.get("kind").and_then(|x| x.as_str()).unwrap_or("any").to_string();
    let hook = prof.get("hook").and_then(|x| x.as_bool()).unwrap_or(true);

    let mut rng = R::seed_from_u64(seed);
    let mut f = std::io::BufWriter::new(std::fs::File::create(&out).expect("create out"));
    let mut feats: BTreeMap<String, u64> = BTreeMap::new();
    let mut n_events = 0u64;
    let mut panics: Vec<Value> = Vec::new();
    let mut samples: Vec<Value> = Vec::new();

    for run in 0..runs {
        let na = *pick(&mut rng, &assets_opts) as usize;
        let kind = if single == "env" || (single == "any" && na == 1 && rng.gen::<bool>()) { "env" } else { "menv" };
        let na = if kind == "env" { 1 } else { na };
        let levels = *pick(&mut rng, &levels_opts) as usize;
        let step = *pick(&mut rng, &steps_opts);
        let ticks: Vec<u32> = (0..na).map(|_| *pick(&mut rng, &ticks_opts) as u32).collect();
        let trading = rng.gen::<f64>() < 0.9;
        // start times that are not multiples of the step size (and 0)
        let t0: u64 = *pick(&mut rng, &t0_opts);
        let mut env: Box<dyn EnvDyn> = new_env(kind, levels, t0, &ticks, step, trading);
        let mut srng = R::seed_from_u64(rng.gen());
        let base: Vec<u32> = (0..na).map(|_| rng.gen_range(5..60)).collect();
        let mut t = Track { prev_orders: vec![vec![]; na], n_trades: vec![0; na] };
        let cfg = json!({"kind": kind, "ticks": ticks, "step": step, "trading": trading, "levels": levels, "t0": t0});
        let mut history: Vec<Value> = vec![merge(json!({"op": "reset"}), cfg.clone())];
        let p0 = env.proj();
        let ev = merge(merge(json!({"op": "reset", "run": run, "audit": false}), cfg.clone()), observe(&p0, &mut t, false, &mut feats));
        writeln!(f, "{}", ev).unwrap();
        n_events += 1;
        let mut trading_now = trading;
        let mut batch = 0usize;
        let n_ops = rng.gen_range(ops / 2..=ops.max(2));
        let mut n_steps = 0usize;
        for k in 0..n_ops {
            let last = k + 1 == n_ops;
            let r = rng.gen::<f64>();
            let n_orders: Vec<usize> = t.prev_orders.iter().map(|o| o.len()).collect();
            let tot_orders: usize = n_orders.iter().sum();
            let mut lbl: Value = if last || batch >= max_batch || (batch >= min_batch && r < p_step) || (batch == 0 && r < p_empty_step) {
                if batch == 0 { *feats.entry("quiet_steps".into()).or_insert(0) += 1; }
                if batch > 32 { *feats.entry("steps_with_batch_above_32".into()).or_insert(0) += 1; }
                if batch >= 1024 { *feats.entry("steps_with_batch_of_1024_or_more".into()).or_insert(0) += 1; }
                json!({"op": "step"})
            } else if r < p_step + p_toggle {
                trading_now = !trading_now;
                json!({"op": if trading_now { "enable" } else { "disable" }})
            } else if tot_orders > 0 && r < p_step + p_toggle + p_cancel {
                let a = loop { let a = rng.gen_range(0..na); if n_orders[a] > 0 { break a } };
                // bias towards recent orders (created in this very step) and active ones
                let id = if rng.gen::<f64>() < 0.4 { n_orders[a] - 1 - rng.gen_range(0..n_orders[a].min(3)) } else { rng.gen_range(0..n_orders[a]) };
                json!({"op": "submit", "k": "cancel", "a": a, "id": id, "p": -1, "v": -1})
            } else if tot_orders > 0 && r < p_step + p_toggle + p_cancel + p_modify {
                let a = loop { let a = rng.gen_range(0..na); if n_orders[a] > 0 { break a } };
                let id = if rng.gen::<f64>() < 0.4 { n_orders[a] - 1 - rng.gen_range(0..n_orders[a].min(3)) } else { rng.gen_range(0..n_orders[a]) };
                let p: i64 = if rng.gen::<bool>() { -1 } else { ((base[a] + rng.gen_range(0..nprices)) * ticks[a]) as i64 };
                let v: i64 = if p != -1 && rng.gen::<bool>() { -1 } else { rng.gen_range(1..30) };
                json!({"op": "submit", "k": "modify", "a": a, "id": id, "p": p, "v": v})
            } else {
                let a = rng.gen_range(0..na);
                let mkt = rng.gen::<f64>() < p_market;
                let mut p: i64 = if mkt { -1 } else { ((base[a] + rng.gen_range(0..nprices)) * ticks[a]) as i64 };
                if !mkt && ticks[a] > 1 && rng.gen::<f64>() < p_offgrid { p += rng.gen_range(1..ticks[a]) as i64; }
                json!({"op": "submit", "k": "new", "a": a, "side": if rng.gen::<bool>() { "B" } else { "A" }, "vol": rng.gen_range(1..30u32),
                       "tr": rng.gen_range(0..12u32), "price": p})
            };
            history.push(lbl.clone());
            let opn = lbl["op"].as_str().unwrap().to_string();
            let res = guarded(AssertUnwindSafe(|| match opn.as_str() {
                "submit" => env.submit(&lbl),
                "step" => { env.step(&mut srng); env.schedule() }
                "enable" => { env.enable(); Value::Null }
                _ => { env.disable(); Value::Null }
            }));
            let ret = match res {
                Ok(r) => r,
                Err(msg) => {
                    panics.push(json!({"run": run, "what": format!("panic in {}: {}", opn, msg), "history": history.clone(), "cfg": cfg.clone()}));
                    break;
                }
            };
            if opn == "submit" {
                if lbl["k"] == "new" {
                    lbl["ret"] = ret.clone();
                    if ret.as_i64() == Some(-1) { *feats.entry("rejected_creations".into()).or_insert(0) += 1; } else { batch += 1; }
                } else {
                    batch += 1;
                }
            }
            let p = match guarded(AssertUnwindSafe(|| env.proj())) {
                Ok(p) => p,
                Err(msg) => {
                    panics.push(json!({"run": run, "what": format!("panic while reading after {}: {}", opn, msg), "history": history.clone(), "cfg": cfg.clone()}));
                    break;
                }
            };
            let audit = last || (k + 1) % 40 == 0;
            let mut ev = merge(lbl.clone(), observe(&p, &mut t, audit && opn == "step", &mut feats));
            ev["audit"] = json!(audit);
            if opn == "step" {
                n_steps += 1;
                if hook { ev["sched"] = ret.clone(); }
                *feats.entry("steps".into()).or_insert(0) += 1;
                if batch as u64 > step { *feats.entry("batch_exceeds_step_size".into()).or_insert(0) += 1; }
                if batch >= 4 { *feats.entry("steps_with_batch_of_4_or_more".into()).or_insert(0) += 1; }
                if samples.len() < 1 && batch >= 3 { samples.push(json!({"op": "step", "batch": batch, "sched": ret, "now": ev["now"], "books": ev["books"]})); }
                batch = 0;
            }
            *feats.entry(format!("op_{}", if opn == "submit" { format!("submit_{}", lbl["k"].as_str().unwrap()) } else { opn.clone() })).or_insert(0) += 1;
            writeln!(f, "{}", ev).unwrap();
            n_events += 1;
        }
        let _ = n_steps;
    }
    f.flush().unwrap();
    println!("{}", json!({"events": n_events, "runs": runs, "features": feats, "panics": panics, "samples": samples}));
}
