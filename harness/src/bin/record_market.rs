//! record-validate for direct operations on bourse_book::Market (C14, C07): long seeded random
//! histories over 1..4 assets with per-asset tick sizes, one ndjson event per public call with the
//! delta of every asset's projection and the all-asset queries.  Validated by EnvTrace.tla (market
//! events): the specification is "independent books sharing one clock".
//!
//! usage: record_market --out FILE --seed N --runs R --ops K --profile JSON
use bourse_verif_harness::envdyn::{new_market, MarketDyn};
use bourse_verif_harness::{guarded, quiet_panics};
use rand::{Rng, SeedableRng};
use rand_xoshiro::Xoroshiro128StarStar;
use serde_json::{json, Value};
use std::collections::BTreeMap;
use std::io::Write;
use std::panic::AssertUnwindSafe;

type R = Xoroshiro128StarStar;

fn pick<'a, T>(rng: &mut R, xs: &'a [T]) -> &'a T { &xs[rng.gen_range(0..xs.len())] }

struct Track { prev_orders: Vec<Vec<Value>>, n_trades: Vec<usize> }

fn observe(p: &Value, t: &mut Track, feats: &mut BTreeMap<String, u64>) -> Value {
    let books = p["books"].as_array().unwrap();
    let mut eb = Vec::new();
    for (a, b) in books.iter().enumerate() {
        let orders = b["orders"].as_array().cloned().unwrap_or_default();
        let trades = b["trades"].as_array().cloned().unwrap_or_default();
        let d_o: Vec<Value> = orders.iter().enumerate().filter(|(i, o)| *i >= t.prev_orders[a].len() || t.prev_orders[a][*i] != **o).map(|(i, o)| json!([i, o])).collect();
        let d_t: Vec<Value> = trades[t.n_trades[a].min(trades.len())..].to_vec();
        if !d_t.is_empty() { *feats.entry("events_with_trades".into()).or_insert(0) += 1; }
        eb.push(json!({"trading": b["trading"], "tvol": b["tvol"], "no": orders.len(), "nt": trades.len(), "do": d_o, "newtr": d_t, "views": b["views"]}));
        t.prev_orders[a] = orders;
        t.n_trades[a] = trades.len();
    }
    json!({"now": p["mkt"]["now"], "books": eb, "mkt": p["mkt"]})
}

fn main() {
    quiet_panics();
    let args: Vec<String> = std::env::args().collect();
    let mut out = String::new();
    let (mut seed, mut runs, mut ops) = (0u64, 1usize, 100usize);
    let mut prof = json!({});
    let mut i = 1;
    while i < args.len() {
        match args[i].as_str() {
            "--out" => { out = args[i + 1].clone(); i += 1 }
            "--seed" => { seed = args[i + 1].parse().unwrap(); i += 1 }
            "--runs" => { runs = args[i + 1].parse().unwrap(); i += 1 }
            "--ops" => { ops = args[i + 1].parse().unwrap(); i += 1 }
            "--profile" => { prof = serde_json::from_str(&args[i + 1]).expect("profile json"); i += 1 }
            a => { eprintln!("unknown argument {}", a); std::process::exit(2) }
        }
        i += 1;
    }
    let p_reload = prof.get("p_reload").and_then(|x| x.as_f64()).unwrap_or(0.03);
    let p_toggle = prof.get("p_toggle").and_then(|x| x.as_f64()).unwrap_or(0.03);
    let mut rng = R::seed_from_u64(seed);
    let mut f = std::io::BufWriter::new(std::fs::File::create(&out).expect("create out"));
    let mut feats: BTreeMap<String, u64> = BTreeMap::new();
    let mut n_events = 0u64;
    let mut panics: Vec<Value> = Vec::new();
    let mut samples: Vec<Value> = Vec::new();
    for run in 0..runs {
        let na = rng.gen_range(1..=4usize);
        let levels = *pick(&mut rng, &[1usize, 2, 3, 4, 10]);
        let ticks: Vec<u32> = (0..na).map(|_| *pick(&mut rng, &[1u32, 2, 3, 5])).collect();
        let trading = rng.gen::<f64>() < 0.9;
        let t0 = rng.gen_range(0..500u64);
        let mut mk: Box<dyn MarketDyn> = new_market(levels, t0, &ticks, trading);
        let base: Vec<u32> = (0..na).map(|_| rng.gen_range(5..60)).collect();
        let mut t = Track { prev_orders: vec![vec![]; na], n_trades: vec![0; na] };
        let cfg = json!({"kind": "market", "ticks": ticks, "step": 1, "trading": trading, "levels": levels, "t0": t0});
        let mut history = vec![cfg.clone()];
        let p0 = mk.proj();
        let mut ev = observe(&p0, &mut t, &mut feats);
        for (k, v) in cfg.as_object().unwrap() { ev[k] = v.clone(); }
        ev["op"] = json!("reset"); ev["audit"] = json!(false); ev["run"] = json!(run);
        writeln!(f, "{}", ev).unwrap();
        n_events += 1;
        let mut now = t0;
        let mut trading_now = trading;
        let n_ops = rng.gen_range(ops / 2..=ops.max(2));
        for k in 0..n_ops {
            // the clock advances (market-wide) before most calls: documented usage
            if rng.gen::<f64>() < 0.85 {
                now += rng.gen_range(1..4);
                mk.apply(&json!({"op": "settime", "t": now}));
                let p = mk.proj();
                let mut e = observe(&p, &mut t, &mut feats);
                e["op"] = json!("settime"); e["t"] = json!(now); e["audit"] = json!(false);
                writeln!(f, "{}", e).unwrap();
                n_events += 1;
                history.push(json!({"op": "settime", "t": now}));
            }
            let r = rng.gen::<f64>();
            let a = rng.gen_range(0..na);
            let n_orders = t.prev_orders[a].len();
            let active: Vec<usize> = t.prev_orders[a].iter().enumerate().filter(|(_, o)| o[1] == "Active").map(|(i, _)| i).collect();
            let target = |rng: &mut R| -> usize { if !active.is_empty() && rng.gen::<f64>() < 0.85 { *pick(rng, &active) } else { rng.gen_range(0..n_orders) } };
            let price = |rng: &mut R| -> i64 { let mut p = ((base[a] + rng.gen_range(0..8)) * ticks[a]) as i64; if ticks[a] > 1 && rng.gen::<f64>() < 0.05 { p += 1; } p };
            let lbl: Value = if r < p_reload {
                json!({"op": "reload", "mode": *pick(&mut rng, &["sc", "sp", "fc", "fp"])})
            } else if r < p_reload + p_toggle {
                trading_now = !trading_now;
                json!({"op": if trading_now { "enable" } else { "disable" }})
            } else if r < p_reload + p_toggle + 0.02 {
                json!({"op": "resettv"})
            } else if n_orders > 0 && r < 0.25 {
                json!({"op": "cancel", "a": a, "id": target(&mut rng)})
            } else if n_orders > 0 && r < 0.42 {
                let id = target(&mut rng);
                let cur = t.prev_orders[a][id][4].as_u64().unwrap_or(1).max(1);
                let np: i64 = if rng.gen::<bool>() { -1 } else { ((base[a] + rng.gen_range(0..8)) * ticks[a]) as i64 };
                let nv: i64 = *pick(&mut rng, &[-1i64, (cur as i64 - 1).max(1), cur as i64, cur as i64 + 7]);
                if np == -1 && nv == -1 { json!({"op": "modify", "a": a, "id": id, "p": -1, "v": cur + 3}) } else { json!({"op": "modify", "a": a, "id": id, "p": np, "v": nv}) }
            } else if n_orders > 0 && r < 0.47 {
                json!({"op": "place", "a": a, "id": rng.gen_range(0..n_orders)})
            } else if n_orders > 0 && r < 0.52 {
                json!({"op": "event", "a": a, "k": *pick(&mut rng, &["new", "cancel"]), "id": target(&mut rng), "p": -1, "v": -1})
            } else {
                let mkt = rng.gen::<f64>() < 0.15;
                let op = if rng.gen::<f64>() < 0.15 { "create" } else { "cap" };
                json!({"op": op, "a": a, "side": if rng.gen::<bool>() { "B" } else { "A" }, "vol": rng.gen_range(1..40u32), "tr": rng.gen_range(0..15u32),
                       "price": if mkt { -1 } else { price(&mut rng) }})
            };
            let mut lbl = lbl;
            // now and then the request goes to the book the market hands out instead of through the market's own method
            if matches!(lbl["op"].as_str(), Some("create") | Some("cap") | Some("place") | Some("cancel") | Some("modify")) && rng.gen::<f64>() < 0.12 {
                lbl["via"] = json!("book");
                *feats.entry("calls_through_get_order_book_mut".into()).or_insert(0) += 1;
            }
            history.push(lbl.clone());
            let opn = lbl["op"].as_str().unwrap().to_string();
            let res = guarded(AssertUnwindSafe(|| {
                if opn == "reload" {
                    let nm = match lbl["mode"].as_str().unwrap() { "sc" => mk.load(&mk.snapshot(false)), "sp" => mk.load(&mk.snapshot(true)), "fc" => mk.reload_file(false), _ => mk.reload_file(true) };
                    match nm { Ok(nm) => { mk = nm; Ok(Value::Null) } Err(e) => Err(e) }
                } else { Ok(mk.apply(&lbl)) }
            }));
            let ret = match res {
                Ok(Ok(r)) => r,
                Ok(Err(e)) => { panics.push(json!({"run": run, "what": format!("reload failed: {}", e), "history": history.clone(), "cfg": cfg.clone()})); break; }
                Err(m) => { panics.push(json!({"run": run, "what": format!("panic in {}: {}", opn, m), "history": history.clone(), "cfg": cfg.clone()})); break; }
            };
            if opn == "create" || opn == "cap" {
                if ret.is_string() { panics.push(json!({"run": run, "what": ret, "history": history.clone(), "cfg": cfg.clone()})); break; }
                lbl["ret"] = ret.clone();
                if ret.as_i64() == Some(-1) { *feats.entry("rejected_creations".into()).or_insert(0) += 1; }
            }
            let p = match guarded(AssertUnwindSafe(|| mk.proj())) {
                Ok(p) => p,
                Err(m) => { panics.push(json!({"run": run, "what": format!("panic while reading after {}: {}", opn, m), "history": history.clone(), "cfg": cfg.clone()})); break; }
            };
            if let Some(bad) = p["books"].as_array().unwrap().iter().find(|b| b["orders"].is_object()) {
                panics.push(json!({"run": run, "what": format!("Market::get_orders / Market::order disagree with the book: {}", bad["orders"]), "history": history.clone(), "cfg": cfg.clone()}));
                break;
            }
            let mut e = observe(&p, &mut t, &mut feats);
            for (kk, v) in lbl.as_object().unwrap() { e[kk] = v.clone(); }
            e["audit"] = json!((k + 1) % 40 == 0 || k + 1 == n_ops);
            *feats.entry(format!("op_{}", opn)).or_insert(0) += 1;
            if na > 1 { *feats.entry("calls_on_multi_asset_markets".into()).or_insert(0) += 1; }
            if samples.is_empty() && !e["books"][a]["newtr"].as_array().unwrap().is_empty() { samples.push(json!({"label": lbl, "asset_delta": e["books"][a]})); }
            writeln!(f, "{}", e).unwrap();
            n_events += 1;
        }
    }
    f.flush().unwrap();
    println!("{}", json!({"events": n_events, "runs": runs, "features": feats, "panics": panics, "samples": samples}));
}
