//! Drives the built-in agents (random, noise, momentum; single- and multi-asset) on real
//! environments and records, for every `update` call, what the agent could observe and the
//! instructions it appended to the queue.  TLC validates the trace against the agent
//! relations of Agents.tla (C16, C17).
//!
//! Prices can be anywhere in 0..2^32 and twice the mid-price anywhere in 0..2^33, beyond TLC's
//! integers, so they are logged as base-2^16 digit pairs [hi, lo] (Big.tla).
//!
//! usage: record_agents --out FILE --seed N --runs R --profile JSON
use bourse_book::types::{Order, Side, Status};
use bourse_de::agents::{Agent, MarketAgent, MomentumAgent, MomentumMarketAgent, MomentumParams, NoiseAgent, NoiseAgentParams,
    NoiseMarketAgent, RandomAgents, RandomMarketAgents};
use bourse_de::{Env, MarketEnv};
use bourse_verif_harness::rngs::Scripted;
use bourse_verif_harness::{guarded, quiet_panics};
use rand::{Rng, SeedableRng};
use rand_xoshiro::Xoroshiro128StarStar;
use serde_json::{json, Value};
use std::collections::BTreeMap;
use std::io::Write;
use std::panic::AssertUnwindSafe;

type R = Xoroshiro128StarStar;
const HARNESS_TRADER: u32 = 900_000;

fn pair(x: u64) -> Value {
    json!([x >> 16, x & 0xffff])
}

fn status_s(s: Status) -> &'static str {
    match s { Status::New => "New", Status::Active => "Active", Status::Filled => "Filled", Status::Cancelled => "Cancelled", Status::Rejected => "Rejected" }
}

fn pick<'a, T>(rng: &mut R, xs: &'a [T]) -> &'a T { &xs[rng.gen_range(0..xs.len())] }

/// the environment under the agent, single- or multi-asset
enum World { W1(Env), W2(MarketEnv<2, 10>) }

impl World {
    fn orders(&self, a: usize) -> Vec<Order> {
        match self { World::W1(e) => e.get_orders().into_iter().cloned().collect(), World::W2(e) => e.get_orders(a).into_iter().cloned().collect() }
    }
    fn pending(&self) -> Vec<(u8, usize, usize, Option<u32>, Option<u32>)> {
        match self {
            World::W1(e) => e.verif_pending().into_iter().map(|(k, id, p, v)| (k, 0, id, p, v)).collect(),
            World::W2(e) => e.verif_pending().into_iter().map(|(k, id, p, v)| (k, id.0, id.1, p, v)).collect(),
        }
    }
    fn mid2(&self, a: usize) -> u64 {
        let (b, k) = match self { World::W1(e) => e.get_orderbook().bid_ask(), World::W2(e) => e.get_market().get_order_book(a).bid_ask() };
        b as u64 + k as u64
    }
    fn quote(&mut self, a: usize, side: Side, vol: u32, price: u32) {
        match self {
            World::W1(e) => { e.place_order(side, vol, HARNESS_TRADER, Some(price)).expect("harness quote on grid"); }
            World::W2(e) => { e.place_order(a, side, vol, HARNESS_TRADER, Some(price)).expect("harness quote on grid"); }
        }
    }
    fn reprice(&mut self, a: usize, id: usize, price: u32) {
        match self { World::W1(e) => { e.modify_order(id, Some(price), None); } World::W2(e) => { e.modify_order((a, id), Some(price), None); } }
    }
    fn cancel(&mut self, a: usize, id: usize) { match self { World::W1(e) => { e.cancel_order(id); } World::W2(e) => { e.cancel_order((a, id)); } } }
    fn step(&mut self, rng: &mut Scripted<R>) { match self { World::W1(e) => { e.step(rng); } World::W2(e) => { e.step(rng); } } }
    fn n_trades(&self, a: usize) -> usize { match self { World::W1(e) => e.get_trades().len(), World::W2(e) => e.get_trades(a).len() } }
}

enum AnyAgent {
    Rand(RandomAgents), RandM(RandomMarketAgents), Noise(NoiseAgent), NoiseM(NoiseMarketAgent), Mom(MomentumAgent), MomM(MomentumMarketAgent),
}

fn prob_class(p: f64) -> &'static str { if p <= 0.0 { "zero" } else if p >= 1.0 { "one" } else { "mid" } }

fn main() {
    quiet_panics();
    let args: Vec<String> = std::env::args().collect();
    let mut out = String::new();
    let (mut seed, mut runs) = (0u64, 1usize);
    let mut prof = json!({});
    let mut i = 1;
    while i < args.len() {
        match args[i].as_str() {
            "--out" => { out = args[i + 1].clone(); i += 1 }
            "--seed" => { seed = args[i + 1].parse().unwrap(); i += 1 }
            "--runs" => { runs = args[i + 1].parse().unwrap(); i += 1 }
            "--ops" => { i += 1 }
            "--profile" => { prof = serde_json::from_str(&args[i + 1]).expect("profile json"); i += 1 }
            a => { eprintln!("unknown argument {}", a); std::process::exit(2) }
        }
        i += 1;
    }
    let kinds: Vec<String> = prof.get("kinds").and_then(|x| x.as_array()).map(|a| a.iter().map(|x| x.as_str().unwrap().to_string()).collect())
        .unwrap_or(vec!["random".into(), "noise".into(), "momentum".into()]);
    let max_steps = prof.get("max_steps").and_then(|x| x.as_u64()).unwrap_or(40) as usize;
    let sigmas: Vec<f64> = prof.get("sigmas").and_then(|x| x.as_array()).map(|a| a.iter().map(|x| x.as_f64().unwrap()).collect()).unwrap_or(vec![1.0, 10.0]);
    let ticks: Vec<u32> = prof.get("ticks").and_then(|x| x.as_array()).map(|a| a.iter().map(|x| x.as_u64().unwrap() as u32).collect()).unwrap_or((1..=10).collect());
    let probs: Vec<f64> = prof.get("probs").and_then(|x| x.as_array()).map(|a| a.iter().map(|x| x.as_f64().unwrap()).collect()).unwrap_or(vec![0.0, 0.3, 1.0, 1.5]);
    let saturate = prof.get("saturate").and_then(|x| x.as_bool()).unwrap_or(false); // momentum: deterministic regime only
    let mirror = prof.get("mirror").and_then(|x| x.as_bool()).unwrap_or(false); // each run twice: path and its reflection
    let p_off = prof.get("p_off").and_then(|x| x.as_f64()).unwrap_or(0.15);
    let script_rate = prof.get("script_rate").and_then(|x| x.as_f64()).unwrap_or(0.5);
    let books: Vec<String> = prof.get("books").and_then(|x| x.as_array()).map(|a| a.iter().map(|x| x.as_str().unwrap().to_string()).collect())
        .unwrap_or(vec!["empty".into(), "bid_only".into(), "ask_only".into(), "two_sided".into()]);

    let mut rng = R::seed_from_u64(seed);
    let mut f = std::io::BufWriter::new(std::fs::File::create(&out).expect("create out"));
    let mut feats: BTreeMap<String, u64> = BTreeMap::new();
    let mut n_events = 0u64;
    let mut panics: Vec<Value> = Vec::new();
    let mut sample: Vec<Value> = Vec::new();

    let total_runs = if mirror { runs * 2 } else { runs };
    let mut cfg = json!(null);
    let mut path: Vec<i64> = Vec::new();
    let mut one_sided: Vec<u8> = Vec::new(); // per step of a controlled run: 0 two-sided quotes, 1 no ask quote, 2 no bid quote
    let p_one_sided = prof.get("p_one_sided").and_then(|x| x.as_f64()).unwrap_or(0.08);
    for run in 0..total_runs {
        let reflected = mirror && run % 2 == 1;
        if !reflected {
            // draw a fresh configuration
            let kind = pick(&mut rng, &kinds).clone();
            let multi = rng.gen::<bool>();
            let tick = *pick(&mut rng, &ticks);
            let n_agents = rng.gen_range(1..=6u16);
            let steps = rng.gen_range(1..=max_steps);
            let book = pick(&mut rng, &books).clone();
            let decay = *pick(&mut rng, &[1.0, 0.5, 0.25]);
            cfg = json!({
                "kind": kind, "multi": multi, "tick": tick, "n": n_agents, "steps": steps, "book": if saturate || mirror || kind == "momentum" { "two_sided".to_string() } else { book },
                "agent_seed": rng.gen::<u32>(), "asset": if multi { rng.gen_range(0..2usize) } else { 0 },
                "p_limit": *pick(&mut rng, &probs), "p_market": *pick(&mut rng, &probs), "p_cancel": *pick(&mut rng, &probs),
                "rate": *pick(&mut rng, &probs), "sigma": *pick(&mut rng, &sigmas), "mu": *pick(&mut rng, &[0.0, 2.0]),
                "vol": rng.gen_range(1..50u32), "tick_lo": if rng.gen::<f64>() < 0.15 { 0 } else { rng.gen_range(1..40u32) }, "tick_span": rng.gen_range(1..30u32),
                "vol_lo": rng.gen_range(1..20u32), "vol_span": rng.gen_range(1..20u32), "id0": rng.gen_range(0..50u32),
                "decay": decay, "order_ratio": *pick(&mut rng, &[0.0, 0.5, 1.0, 2.0]),
                "demand_mult": *pick(&mut rng, &[1.0, 2.0, 4.0]),
                // the propensity to trade is |demand * tanh(scale * M)| / n and the DIRECTION is the sign of M alone: negative demand or
                // scale parameters (finite, consistent with the environment) change nothing
                "demand_sign": *pick(&mut rng, &[1.0, 1.0, 1.0, -1.0]), "scale_sign": *pick(&mut rng, &[1.0, 1.0, 1.0, -1.0]),
                "scripted": rng.gen::<f64>() < script_rate,
                "script": (0..rng.gen_range(1..40)).map(|_| *pick(&mut rng, &[0u64, u64::MAX, 1u64 << 63, (1u64 << 40) - 1])).collect::<Vec<u64>>(),
                "level": 2000 + 10 * rng.gen_range(0..50u32),
                // trading disabled for the whole run and the book crossed (bids above asks): valid, nothing matches; the agents go on
                // quoting around the mid-price of the crossed touch
                "off": rng.gen::<f64>() < p_off,
            });
            // the mid-price path the harness imposes (in ticks around the level), for momentum runs
            path = (0..steps + 2).map(|_| rng.gen_range(-6..=6i64)).collect();
            // steps at which the harness quotes one side only: the other side is empty (unless the agents' own orders rest there) and
            // the observed mid-price is the one of the documented sentinel (0 / maximum price)
            one_sided = (0..steps + 2).map(|_| if mirror || rng.gen::<f64>() >= p_one_sided { 0 } else if rng.gen::<bool>() { 1 } else { 2 }).collect();
            if rng.gen::<f64>() < 0.2 { for x in path.iter_mut() { *x = 0; } } // flat
            if rng.gen::<f64>() < 0.2 { let mut acc = 0; for x in path.iter_mut() { acc += 1; *x = acc.min(40); } } // rising
            if rng.gen::<f64>() < 0.2 { let mut acc = 0; for x in path.iter_mut() { acc -= 1; *x = acc.max(-40); } } // falling
        }
        let c = cfg.clone();
        let kind = c["kind"].as_str().unwrap().to_string();
        let multi = c["multi"].as_bool().unwrap();
        let tick = c["tick"].as_u64().unwrap() as u32;
        let n = c["n"].as_u64().unwrap() as u16;
        let steps = c["steps"].as_u64().unwrap() as usize;
        let asset = c["asset"].as_u64().unwrap() as usize;
        let id0 = c["id0"].as_u64().unwrap() as u32;
        let level = c["level"].as_u64().unwrap() as i64 * tick as i64; // on the grid
        let controlled = kind == "momentum"; // the harness imposes the mid-price path, else the signal would stay 0 forever
        let saturated = controlled && (saturate || mirror);
        let sign: i64 = if reflected { -1 } else { 1 };

        let off = c["off"].as_bool().unwrap_or(false);
        // multi-asset: the asset the agent trades has the agent's tick size, the OTHER asset a tick size coprime to it (the assets of
        // a market are independent books: nothing an agent does may depend on another asset's configuration)
        let mut ticks2 = [tick, tick];
        ticks2[1 - asset.min(1)] = tick + 1;
        let mut world = if multi { World::W2(MarketEnv::<2, 10>::new(0, ticks2, 1000, !off)) } else { World::W1(Env::new(0, tick, 1000, !off)) };
        let inner = R::seed_from_u64(c["agent_seed"].as_u64().unwrap());
        let script: Vec<u64> = if c["scripted"].as_bool().unwrap() && !mirror { c["script"].as_array().unwrap().iter().map(|x| x.as_u64().unwrap()).collect() } else { vec![] };
        let mut arng = Scripted::new(script, inner);

        let noise_params = || NoiseAgentParams { tick_size: tick, p_limit: c["p_limit"].as_f64().unwrap() as f32, p_market: c["p_market"].as_f64().unwrap() as f32,
            p_cancel: c["p_cancel"].as_f64().unwrap() as f32, trade_vol: c["vol"].as_u64().unwrap() as u32, price_dist_mu: c["mu"].as_f64().unwrap(), price_dist_sigma: c["sigma"].as_f64().unwrap() };
        let mom_params = || MomentumParams { tick_size: tick, p_cancel: c["p_cancel"].as_f64().unwrap() as f32, trade_vol: c["vol"].as_u64().unwrap() as u32,
            decay: c["decay"].as_f64().unwrap(), demand: c["demand_sign"].as_f64().unwrap() * if saturated { n as f64 * c["demand_mult"].as_f64().unwrap() } else { c["demand_mult"].as_f64().unwrap() * 3.0 },
            scale: c["scale_sign"].as_f64().unwrap() * if saturated { 1.0e12 } else { 0.5 }, order_ratio: c["order_ratio"].as_f64().unwrap(), price_dist_mu: c["mu"].as_f64().unwrap(), price_dist_sigma: c["sigma"].as_f64().unwrap() };
        let tick_lo = c["tick_lo"].as_u64().unwrap() as u32;
        let tick_hi = tick_lo + c["tick_span"].as_u64().unwrap() as u32;
        let vol_lo = c["vol_lo"].as_u64().unwrap() as u32;
        let vol_hi = vol_lo + c["vol_span"].as_u64().unwrap() as u32;
        let rate = c["rate"].as_f64().unwrap() as f32;
        let mut agent = match (kind.as_str(), multi) {
            ("random", false) => AnyAgent::Rand(RandomAgents::new(n as usize, (tick_lo, tick_hi), (vol_lo, vol_hi), tick, rate)),
            ("random", true) => AnyAgent::RandM(RandomMarketAgents::new(asset, n as usize, (tick_lo, tick_hi), (vol_lo, vol_hi), tick, rate)),
            ("noise", false) => AnyAgent::Noise(NoiseAgent::new(id0, n, noise_params())),
            ("noise", true) => AnyAgent::NoiseM(NoiseMarketAgent::new(asset, id0, n, noise_params())),
            ("momentum", false) => AnyAgent::Mom(MomentumAgent::new(id0, n, mom_params())),
            (_, _) => AnyAgent::MomM(MomentumMarketAgent::new(id0, n, asset, mom_params())),
        };
        let own = |o: &Order| -> bool { if kind == "random" { o.trader_id < n as u32 } else { o.trader_id >= id0 && o.trader_id < id0 + n as u32 } };

        let ev = json!({"op": "reset", "run": run, "kind": kind, "multi": multi, "tick": tick, "n": n, "asset": asset, "id0": if kind == "random" { 0 } else { id0 },
            "p_limit": prob_class(c["p_limit"].as_f64().unwrap()), "p_market": prob_class(c["p_market"].as_f64().unwrap()),
            "p_cancel": prob_class(c["p_cancel"].as_f64().unwrap()), "rate": prob_class(c["rate"].as_f64().unwrap()),
            "vol": c["vol"], "tick_lo": tick_lo, "tick_hi": tick_hi, "vol_lo": vol_lo, "vol_hi": vol_hi,
            "decay4": (c["decay"].as_f64().unwrap() * 4.0) as u64, // at saturated demand the documented limit-order probability is order_ratio * demand / n = order_ratio * demand_mult
            "limit_certain": c["order_ratio"].as_f64().unwrap() * (if saturated { c["demand_mult"].as_f64().unwrap() } else { 1.0 }) >= 1.0,
            "order_ratio_zero": c["order_ratio"].as_f64().unwrap() <= 0.0,
            "saturated": saturated, "controlled": controlled, "reflected": reflected, "mirror": mirror, "cfg": c});
        writeln!(f, "{}", ev).unwrap();
        n_events += 1;
        *feats.entry(format!("runs_{}{}", kind, if multi { "_market" } else { "" })).or_insert(0) += 1;

        // starting book
        let mut quotes: Vec<usize> = Vec::new();
        let book = c["book"].as_str().unwrap();
        if !controlled {
            let base = level as u32;
            if off {
                // crossed: best bid above best ask
                if book != "ask_only" { world.quote(asset, Side::Bid, 500, base + 3 * tick); world.quote(asset, Side::Bid, 300, base + tick); }
                if book != "bid_only" { world.quote(asset, Side::Ask, 400, base - 3 * tick); world.quote(asset, Side::Ask, 300, base - 5 * tick); }
            } else {
                if book == "bid_only" || book == "two_sided" { world.quote(asset, Side::Bid, 500, base - 3 * tick); world.quote(asset, Side::Bid, 300, base - 6 * tick); }
                if book == "ask_only" || book == "two_sided" { world.quote(asset, Side::Ask, 400, base + 3 * tick); world.quote(asset, Side::Ask, 300, base + 7 * tick); }
            }
            world.step(&mut arng);
        }

        let mut aborted = false;
        for k in 0..steps {
            // every other step of a controlled run moves the harness quotes by MODIFYING their prices instead of cancelling and
            // re-placing them (the side that moves away first, one step each, so that the quotes never cross); the choice is a
            // function of the configuration, so a run and its mirror image make the same one
            let by_modify = controlled && !off && k > 0 && quotes.len() == 2 && one_sided[k] == 0 && one_sided[k - 1] == 0
                && (c["agent_seed"].as_u64().unwrap() + k as u64) % 2 == 0;
            if by_modify {
                let m = level + sign * path[k] * tick as i64;
                let m_prev = level + sign * path[k - 1] * tick as i64;
                let (nb, na) = ((m - tick as i64) as u32, (m + tick as i64) as u32);
                if m > m_prev {
                    world.reprice(asset, quotes[1], na); world.step(&mut arng);
                    world.reprice(asset, quotes[0], nb); world.step(&mut arng);
                } else if m < m_prev {
                    world.reprice(asset, quotes[0], nb); world.step(&mut arng);
                    world.reprice(asset, quotes[1], na); world.step(&mut arng);
                }
                *feats.entry("price_moves_by_modification".into()).or_insert(0) += 1;
            } else if controlled {
                // re-quote around the imposed mid: cancel the previous quotes, place fresh ones, one step to make them live
                if !quotes.is_empty() {
                    for q in quotes.drain(..) { world.cancel(asset, q); }
                    world.step(&mut arng); // old quotes gone before the new ones arrive (they could cross)
                }
                let m = level + sign * path[k] * tick as i64;
                let before = world.orders(asset).len();
                let cross: i64 = if off { -1 } else { 1 }; // trading disabled: the quotes cross (bid above ask), same mid-price
                if one_sided[k] != 2 { world.quote(asset, Side::Bid, 1_000_000, (m - cross * tick as i64) as u32); quotes.push(before); }
                if one_sided[k] != 1 { world.quote(asset, Side::Ask, 1_000_000, (m + cross * tick as i64) as u32); quotes.push(before + quotes.len()); }
                world.step(&mut arng);
            }
            // observation
            let orders = world.orders(asset);
            let own_active: Vec<usize> = orders.iter().filter(|o| own(o) && o.status == Status::Active).map(|o| o.order_id).collect();
            let own_live_by_trader: Vec<Value> = {
                let mut m: BTreeMap<u32, u64> = BTreeMap::new();
                for o in orders.iter().filter(|o| own(o) && (o.status == Status::Active || o.status == Status::New)) { *m.entry(o.trader_id).or_insert(0) += 1; }
                m.into_iter().map(|(t, c)| json!([t, c])).collect()
            };
            let active_traders: Vec<u32> = { let mut v: Vec<u32> = orders.iter().filter(|o| own(o) && o.status == Status::Active).map(|o| o.trader_id).collect(); v.sort(); v.dedup(); v };
            let mid2 = world.mid2(asset);
            let pend_before = world.pending().len();
            let n_orders_before: Vec<usize> = (0..if multi { 2 } else { 1 }).map(|a| world.orders(a).len()).collect();
            let draws_before = arng.draws;
            // the call
            let res = guarded(AssertUnwindSafe(|| {
                match (&mut agent, &mut world) {
                    (AnyAgent::Rand(a), World::W1(e)) => a.update(e, &mut arng),
                    (AnyAgent::Noise(a), World::W1(e)) => a.update(e, &mut arng),
                    (AnyAgent::Mom(a), World::W1(e)) => a.update(e, &mut arng),
                    (AnyAgent::RandM(a), World::W2(e)) => a.update(e, &mut arng),
                    (AnyAgent::NoiseM(a), World::W2(e)) => a.update(e, &mut arng),
                    (AnyAgent::MomM(a), World::W2(e)) => a.update(e, &mut arng),
                    _ => panic!("harness: agent / environment kinds do not match"),
                }
            }));
            if let Err(m) = res {
                panics.push(json!({"run": run, "what": format!("{} agent aborted the simulation in update (step {}): {}", kind, k, m), "cfg": c, "step": k,
                    "recorder_seed": seed, "mid2": mid2.to_string()}));
                writeln!(f, "{}", json!({"op": "abort", "run": run, "step": k})).unwrap();
                n_events += 1;
                aborted = true;
                break;
            }
            // instructions appended
            let pend = world.pending();
            let mut instrs: Vec<Value> = Vec::new();
            for (kk, a, id, p, v) in pend[pend_before.min(pend.len())..].iter() {
                let o = world.orders(*a)[*id];
                match kk {
                    0 => {
                        let is_mkt = (matches!(o.side, Side::Bid) && o.price == u32::MAX) || (matches!(o.side, Side::Ask) && o.price == 0);
                        instrs.push(json!({"k": "new", "a": a, "id": id, "side": if matches!(o.side, Side::Bid) { "B" } else { "A" }, "vol": o.vol, "tr": o.trader_id,
                            "price": pair(o.price as u64), "price2": pair(2 * o.price as u64), "mkt": is_mkt, "fresh": *id >= n_orders_before[*a], "status": status_s(o.status)}));
                    }
                    1 => instrs.push(json!({"k": "cancel", "a": a, "id": id, "tr": o.trader_id, "own": own(&o), "was_active": own_active.contains(id) && *a == asset})),
                    _ => instrs.push(json!({"k": "modify", "a": a, "id": id, "p": p.map(|x| x as i64).unwrap_or(-1), "v": v.map(|x| x as i64).unwrap_or(-1)})),
                }
            }
            // creations that did not come with a queued instruction would be a defect too
            let created: usize = (0..n_orders_before.len()).map(|a| world.orders(a).len() - n_orders_before[a]).sum();
            let ev = json!({"op": "update", "run": run, "step": k, "mid2": pair(mid2), "own_active": own_active, "own_live_by_trader": own_live_by_trader,
                "active_traders": active_traders, "instrs": instrs, "created": created, "draws": arng.draws - draws_before});
            writeln!(f, "{}", ev).unwrap();
            n_events += 1;
            *feats.entry("updates".into()).or_insert(0) += 1;
            if !ev["instrs"].as_array().unwrap().is_empty() { *feats.entry("updates_with_instructions".into()).or_insert(0) += 1; }
            if off { *feats.entry("updates_on_crossed_book_trading_off".into()).or_insert(0) += 1; }
            if ev["instrs"].as_array().unwrap().iter().any(|x| x["k"] == "cancel") { *feats.entry("updates_with_cancels".into()).or_insert(0) += 1; }
            if sample.len() < 3 && ev["instrs"].as_array().unwrap().len() >= 2 { sample.push(ev.clone()); }
            world.step(&mut arng);
        }
        if !aborted {
            writeln!(f, "{}", json!({"op": "end", "run": run, "trades": world.n_trades(asset)})).unwrap();
            n_events += 1;
        }
    }
    f.flush().unwrap();
    println!("{}", json!({"events": n_events, "runs": total_runs, "features": feats, "panics": panics, "samples": sample}));
}

