//! C09: one complete simulation through the public runners (sim_runner / market_sim_runner) with
//! agent sets combined through the derive macros, dumping the complete outcome (orders, trades,
//! recorded level-2 history, per-step traded volume) as ndjson.  The orchestrator runs this binary
//! as separate OS processes with identical / different seeds and progress-bar settings and TLC
//! compares the outputs (SimEq.tla).
//!
//! usage: sim_run --configs FILE --out FILE --progress true|false [--seed-shift K] [--order reverse-twice] [--expansion second]
//!
//! `--order reverse-twice`: the configurations are run in reverse order and each one twice in a row inside this process; the
//! output of the SECOND run of each is written, in the original order of the configurations.  A simulation that depends on
//! anything the process carries over from earlier simulations (statics, thread-locals, allocator state) then differs from
//! process A, which ran every configuration once, first to last.
use bourse_de::agents::{Agent, AgentSet, MarketAgent, MarketAgentSet, MomentumAgent, MomentumMarketAgent, MomentumParams, NoiseAgent,
    NoiseAgentParams, NoiseMarketAgent, RandomAgents, RandomMarketAgents};
use bourse_de::{market_sim_runner, sim_runner, Env, MarketEnv};
use bourse_verif_harness::proj::{order_tuple, trade_tuple, price_s};
use serde_json::{json, Value};
use std::io::Write;

// The agent sets are declared TWICE, in two modules, from the same text: two independent expansions of the derive macros.
// Processes that run "the same simulation" with the other expansion (--expansion second) must produce the same outcome -
// whatever a derive expansion takes from its environment (the iteration order of a hash map inside the macro crate, say) must
// not reach the simulation.
macro_rules! agent_sets {
    ($m:ident) => {
        pub mod $m {
            use super::*;
            #[derive(AgentSet)]
            pub struct Mixed { pub r: RandomAgents, pub n: NoiseAgent, pub m: MomentumAgent }

            #[derive(AgentSet)]
            pub struct TwoNoise { pub n1: NoiseAgent, pub n2: NoiseAgent }

            #[derive(AgentSet)]
            pub struct Nested { pub inner: TwoNoise, pub r: RandomAgents, pub m: MomentumAgent }

            #[derive(AgentSet)]
            pub struct OnlyRandom { pub r: RandomAgents }

            #[derive(MarketAgentSet)]
            pub struct MMixed { pub r0: RandomMarketAgents, pub n1: NoiseMarketAgent, pub m0: MomentumMarketAgent, pub r1: RandomMarketAgents }

            #[derive(MarketAgentSet)]
            pub struct MInner { pub n0: NoiseMarketAgent, pub n1: NoiseMarketAgent }

            #[derive(MarketAgentSet)]
            pub struct MNested { pub inner: MInner, pub m1: MomentumMarketAgent }

            pub fn run_market(comp: &str, env: &mut MarketEnv<2, 10>, seed: u64, steps: u64, progress: bool, tick: u32, z: u32) {
                match comp {
                    "MMixed" => {
                        let mut a = MMixed { r0: RandomMarketAgents::new(0, 6 * z as usize, (20, 40), (1, 20), tick, 0.5), n1: NoiseMarketAgent::new(1, 100000, (5 * z) as u16, noise(tick, 1)),
                            m0: MomentumMarketAgent::new(200000, (4 * z) as u16, 0, mom(tick, 0)), r1: RandomMarketAgents::new(1, 4 * z as usize, (10, 30), (5, 9), tick, 0.8) };
                        market_sim_runner(env, &mut a, seed, steps, progress);
                    }
                    _ => {
                        let mut a = MNested { inner: MInner { n0: NoiseMarketAgent::new(0, 0, (6 * z) as u16, noise(tick, 0)), n1: NoiseMarketAgent::new(1, 50000, (6 * z) as u16, noise(tick, 2)) },
                            m1: MomentumMarketAgent::new(300000, (3 * z) as u16, 1, mom(tick, 1)) };
                        market_sim_runner(env, &mut a, seed, steps, progress);
                    }
                }
            }

            pub fn run_single(comp: &str, env: &mut Env, seed: u64, steps: u64, progress: bool, tick: u32, z: u32, rate: f32) {
                match comp {
                    "Mixed" => {
                        let mut a = Mixed { r: RandomAgents::new(8 * z as usize, (20, 40), (1, 20), tick, 0.6), n: NoiseAgent::new(100000, (6 * z) as u16, noise(tick, 0)), m: MomentumAgent::new(200000, (5 * z) as u16, mom(tick, 0)) };
                        sim_runner(env, &mut a, seed, steps, progress);
                    }
                    "Nested" => {
                        let mut a = Nested { inner: TwoNoise { n1: NoiseAgent::new(0, (4 * z) as u16, noise(tick, 1)), n2: NoiseAgent::new(10000, (4 * z) as u16, noise(tick, 2)) },
                            r: RandomAgents::new(5 * z as usize, (15, 25), (2, 6), tick, 0.9), m: MomentumAgent::new(300000, (3 * z) as u16, mom(tick, 2)) };
                        sim_runner(env, &mut a, seed, steps, progress);
                    }
                    "TwoNoise" => {
                        let mut a = TwoNoise { n1: NoiseAgent::new(0, (10 * z) as u16, noise(tick, 0)), n2: NoiseAgent::new(10000, (10 * z) as u16, noise(tick, 1)) };
                        sim_runner(env, &mut a, seed, steps, progress);
                    }
                    _ => {
                        let mut a = OnlyRandom { r: RandomAgents::new(12 * z as usize, (20, 40), (1, 20), tick, rate) };
                        sim_runner(env, &mut a, seed, steps, progress);
                    }
                }
            }
        }
    };
}
agent_sets!(first);
agent_sets!(second);
static SECOND: std::sync::atomic::AtomicBool = std::sync::atomic::AtomicBool::new(false);

// price-distribution width: the configuration's "sigma" when given (the documentation's heavy-tailed 10.0 among them), else per member
static SIGMA: std::sync::atomic::AtomicU32 = std::sync::atomic::AtomicU32::new(0);
fn sigma_or(d: f64) -> f64 {
    let s = SIGMA.load(std::sync::atomic::Ordering::Relaxed);
    if s == 0 { d } else { s as f64 / 10.0 }
}
fn noise(tick: u32, k: u32) -> NoiseAgentParams {
    NoiseAgentParams { tick_size: tick, p_limit: 0.3 + 0.1 * (k % 3) as f32, p_market: 0.1, p_cancel: 0.05 + 0.05 * (k % 2) as f32, trade_vol: 10 + k,
        price_dist_mu: 0.0, price_dist_sigma: sigma_or(if k % 2 == 0 { 1.0 } else { 3.0 }) }
}
fn mom(tick: u32, k: u32) -> MomentumParams {
    MomentumParams { tick_size: tick, p_cancel: 0.1, trade_vol: 5 + k, decay: 0.5, demand: 4.0, scale: 0.3, order_ratio: 1.0, price_dist_mu: 0.0, price_dist_sigma: sigma_or(2.0) }
}

fn dump_book(f: &mut impl Write, tag: &str, asset: usize, orders: Vec<Value>, trades: Vec<Value>) {
    for (i, o) in orders.iter().enumerate() { writeln!(f, "{}", json!({"op": "order", "cfg": tag, "a": asset, "i": i, "v": o})).unwrap(); }
    for (i, t) in trades.iter().enumerate() { writeln!(f, "{}", json!({"op": "trade", "cfg": tag, "a": asset, "i": i, "v": t})).unwrap(); }
}

fn main() {
    let args: Vec<String> = std::env::args().collect();
    let (mut cfgs, mut out, mut progress, mut shift) = (String::new(), String::new(), false, 0u64);
    let mut reverse_twice = false;
    let mut i = 1;
    while i < args.len() {
        match args[i].as_str() {
            "--configs" => { cfgs = args[i + 1].clone(); i += 1 }
            "--out" => { out = args[i + 1].clone(); i += 1 }
            "--progress" => { progress = args[i + 1] == "true"; i += 1 }
            "--seed-shift" => { shift = args[i + 1].parse().unwrap(); i += 1 }
            "--order" => { reverse_twice = args[i + 1] == "reverse-twice"; i += 1 }
            "--expansion" => { SECOND.store(args[i + 1] == "second", std::sync::atomic::Ordering::Relaxed); i += 1 }
            a => { eprintln!("unknown argument {}", a); std::process::exit(2) }
        }
        i += 1;
    }
    let configs: Vec<Value> = serde_json::from_str(&std::fs::read_to_string(&cfgs).expect("configs")).expect("configs json");
    let mut file = std::io::BufWriter::new(std::fs::File::create(&out).expect("create out"));
    let mut outputs: Vec<Vec<u8>> = vec![Vec::new(); configs.len()];
    let order: Vec<usize> = if reverse_twice { (0..configs.len()).rev().flat_map(|i| [i, i]).collect() } else { (0..configs.len()).collect() };
    for ci in order {
        let c = &configs[ci];
        let mut buf: Vec<u8> = Vec::new();
        run_one(&mut buf, ci, c, shift, progress);
        outputs[ci] = buf;
    }
    for o in outputs {
        file.write_all(&o).unwrap();
    }
    file.flush().unwrap();
}

fn run_one(f: &mut Vec<u8>, ci: usize, c: &Value, shift: u64, progress: bool) {
    {
        let tag = format!("c{}", ci);
        let seed = c["seed"].as_u64().unwrap().wrapping_add(shift);
        let steps = c["steps"].as_u64().unwrap();
        let step_size = c["step_size"].as_u64().unwrap();
        let tick = c["tick"].as_u64().unwrap() as u32;
        let comp = c["comp"].as_str().unwrap();
        // population scale: every member's agent count is multiplied by it (large populations: thousands of instructions per step)
        let z = c.get("scale").and_then(|x| x.as_u64()).unwrap_or(1) as u32;
        // activity rate of the OnlyRandom population (1.0: every agent submits exactly one instruction in every step)
        let rate = c.get("rate").and_then(|x| x.as_f64()).unwrap_or(0.5) as f32;
        SIGMA.store((c.get("sigma").and_then(|x| x.as_f64()).unwrap_or(0.0) * 10.0) as u32, std::sync::atomic::Ordering::Relaxed);
        // "pre": the environment has a history before the runner is called - far-away quotes are placed and `pre` steps taken by hand
        // (as the crate's own agent tests open a book), then the simulation runs on it; every process does the same
        let pre = c.get("pre").and_then(|x| x.as_u64()).unwrap_or(0);
        writeln!(f, "{}", json!({"op": "config", "cfg": tag, "comp": comp, "steps": steps, "step_size": step_size, "tick": tick, "pre": pre})).unwrap();
        if comp.starts_with('M') {
            let mut env: MarketEnv<2, 10> = MarketEnv::new(0, [tick, tick], step_size, true);
            if pre > 0 {
                use rand::SeedableRng;
                let mut r0 = rand_xoshiro::Xoroshiro128StarStar::seed_from_u64(seed ^ 0x5EED);
                for a in 0..2 {
                    env.place_order(a, bourse_book::types::Side::Bid, 50, 999_999, Some(10 * tick)).unwrap();
                    env.place_order(a, bourse_book::types::Side::Ask, 50, 999_999, Some(60 * tick)).unwrap();
                }
                for _ in 0..pre { env.step(&mut r0); }
            }
            if SECOND.load(std::sync::atomic::Ordering::Relaxed) { second::run_market(comp, &mut env, seed, steps, progress, tick, z) }
            else { first::run_market(comp, &mut env, seed, steps, progress, tick, z) }
            for a in 0..2 {
                dump_book(f, &tag, a, env.get_orders(a).iter().map(|o| order_tuple(o)).collect(), env.get_trades(a).iter().map(trade_tuple).collect());
                let (p, v) = (env.get_prices(a), env.get_volumes(a));
                let h = env.get_level_2_data_history(a);
                for k in 0..p.0.len() {
                    writeln!(f, "{}", json!({"op": "rec", "cfg": tag, "a": a, "i": k, "v": [price_s(p.0[k]), price_s(p.1[k]), v.0[k], v.1[k],
                        h.volumes_at_levels.0.iter().map(|x| x[k]).collect::<Vec<_>>(), h.orders_at_levels.0.iter().map(|x| x[k]).collect::<Vec<_>>(),
                        h.volumes_at_levels.1.iter().map(|x| x[k]).collect::<Vec<_>>(), h.orders_at_levels.1.iter().map(|x| x[k]).collect::<Vec<_>>(),
                        env.get_trade_vols(a)[k]]})).unwrap();
                }
            }
        } else {
            let mut env = Env::new(0, tick, step_size, true);
            if pre > 0 {
                use rand::SeedableRng;
                let mut r0 = rand_xoshiro::Xoroshiro128StarStar::seed_from_u64(seed ^ 0x5EED);
                env.place_order(bourse_book::types::Side::Bid, 50, 999_999, Some(10 * tick)).unwrap();
                env.place_order(bourse_book::types::Side::Ask, 50, 999_999, Some(60 * tick)).unwrap();
                for _ in 0..pre { env.step(&mut r0); }
            }
            if SECOND.load(std::sync::atomic::Ordering::Relaxed) { second::run_single(comp, &mut env, seed, steps, progress, tick, z, rate) }
            else { first::run_single(comp, &mut env, seed, steps, progress, tick, z, rate) }
            dump_book(f, &tag, 0, env.get_orders().iter().map(|o| order_tuple(o)).collect(), env.get_trades().iter().map(trade_tuple).collect());
            let (p, v) = (env.get_prices(), env.get_volumes());
            let h = env.get_level_2_data_history();
            for k in 0..p.0.len() {
                writeln!(f, "{}", json!({"op": "rec", "cfg": tag, "a": 0, "i": k, "v": [price_s(p.0[k]), price_s(p.1[k]), v.0[k], v.1[k],
                    h.volumes_at_levels.0.iter().map(|x| x[k]).collect::<Vec<_>>(), h.orders_at_levels.0.iter().map(|x| x[k]).collect::<Vec<_>>(),
                    h.volumes_at_levels.1.iter().map(|x| x[k]).collect::<Vec<_>>(), h.orders_at_levels.1.iter().map(|x| x[k]).collect::<Vec<_>>(),
                    env.get_trade_vols()[k]]})).unwrap();
            }
        }
    }
}
