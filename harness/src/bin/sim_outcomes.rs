//! Outcome sets at the level of a complete simulation (Sim.tla): the real public runners
//! (sim_runner / market_sim_runner) with the real random agents, through a derived agent set, are run
//! for n_steps = 1..K under many seeds; every outcome (orders, trades, clock, recorded prices / volumes,
//! per-step traded volume) must be one of the outcomes TLC printed for a simulation of that many rounds.
//! No hook, no steering of the generator.  Also reports how many of the allowed outcomes were produced.
//!
//! usage: sim_outcomes --allowed FILE --cfg JSON
//!   FILE: TLC output containing the `<<"OUT", "...">>` lines of Sim.tla
//!   JSON: {tick, step, t0, n_agents, tick_lo, tick_hi, vol_lo, vol_hi, rate, n_steps, seeds, base_seed, assets, asset}
use bourse_de::agents::{Agent, AgentSet, MarketAgent, MarketAgentSet, RandomAgents, RandomMarketAgents};
use bourse_de::{market_sim_runner, sim_runner, Env, MarketEnv};
use bourse_verif_harness::proj::{order_tuple, price_s, trade_tuple};
use bourse_verif_harness::{guarded, quiet_panics};
use serde_json::{json, Value};
use std::collections::{HashMap, HashSet};
use std::panic::AssertUnwindSafe;

#[derive(AgentSet)]
struct Single { agents: RandomAgents }

#[derive(MarketAgentSet)]
struct Multi { agents: RandomMarketAgents }

fn u(c: &Value, k: &str) -> u64 { c[k].as_u64().unwrap_or_else(|| panic!("harness: cfg field {}", k)) }

fn outcome_single(c: &Value, seed: u64, n_steps: u64, progress: bool) -> Value {
    let tick = u(c, "tick") as u32;
    let mut env = Env::new(u(c, "t0"), tick, u(c, "step"), true);
    let mut a = Single { agents: RandomAgents::new(u(c, "n_agents") as usize, (u(c, "tick_lo") as u32, u(c, "tick_hi") as u32),
        (u(c, "vol_lo") as u32, u(c, "vol_hi") as u32), tick, c["rate"].as_f64().unwrap() as f32) };
    sim_runner(&mut env, &mut a, seed, n_steps, progress);
    let (p, v) = (env.get_prices(), env.get_volumes());
    json!({"k": n_steps, "now": env.get_orderbook().get_time(),
        "orders": [env.get_orders().iter().map(|o| order_tuple(o)).collect::<Vec<_>>()],
        "trades": [env.get_trades().iter().map(trade_tuple).collect::<Vec<_>>()],
        "prices": [[p.0.iter().map(|x| price_s(*x)).collect::<Vec<_>>(), p.1.iter().map(|x| price_s(*x)).collect::<Vec<_>>()]],
        "volumes": [[v.0.clone(), v.1.clone()]],
        "tvols": [env.get_trade_vols().clone()]})
}

fn outcome_multi(c: &Value, seed: u64, n_steps: u64, progress: bool) -> Value {
    let tick = u(c, "tick") as u32;
    let mut env: MarketEnv<2, 10> = MarketEnv::new(u(c, "t0"), [tick, tick], u(c, "step"), true);
    let mut a = Multi { agents: RandomMarketAgents::new(u(c, "asset") as usize, u(c, "n_agents") as usize, (u(c, "tick_lo") as u32, u(c, "tick_hi") as u32),
        (u(c, "vol_lo") as u32, u(c, "vol_hi") as u32), tick, c["rate"].as_f64().unwrap() as f32) };
    market_sim_runner(&mut env, &mut a, seed, n_steps, progress);
    let per = |f: &dyn Fn(usize) -> Value| (0..2).map(|x| f(x)).collect::<Vec<_>>();
    json!({"k": n_steps, "now": env.get_market().get_time(),
        "orders": per(&|x| Value::Array(env.get_orders(x).iter().map(|o| order_tuple(o)).collect())),
        "trades": per(&|x| Value::Array(env.get_trades(x).iter().map(trade_tuple).collect())),
        "prices": per(&|x| { let p = env.get_prices(x); json!([p.0.iter().map(|y| price_s(*y)).collect::<Vec<_>>(), p.1.iter().map(|y| price_s(*y)).collect::<Vec<_>>()]) }),
        "volumes": per(&|x| { let v = env.get_volumes(x); json!([v.0.clone(), v.1.clone()]) }),
        "tvols": per(&|x| json!(env.get_trade_vols(x).clone()))})
}

fn main() {
    quiet_panics();
    let args: Vec<String> = std::env::args().collect();
    let (mut allowed, mut cfg) = (String::new(), json!({}));
    let mut i = 1;
    while i < args.len() {
        match args[i].as_str() {
            "--allowed" => { allowed = args[i + 1].clone(); i += 1 }
            "--cfg" => { cfg = serde_json::from_str(&args[i + 1]).expect("cfg json"); i += 1 }
            a => { eprintln!("unknown argument {}", a); std::process::exit(2) }
        }
        i += 1;
    }
    // allowed outcomes per number of rounds, as canonical strings
    let mut sets: HashMap<u64, HashSet<String>> = HashMap::new();
    for line in std::fs::read_to_string(&allowed).expect("allowed file").lines() {
        if let Some(rest) = line.strip_prefix("<<\"OUT\", ") {
            let lit = &rest[..rest.len() - 2];
            let inner: String = serde_json::from_str(lit).expect("harness: OUT line is not a TLA+ string literal");
            let v: Value = serde_json::from_str(&inner).expect("harness: OUT payload is not JSON");
            sets.entry(v["k"].as_u64().unwrap()).or_default().insert(v.to_string());
        }
    }
    let n_steps = u(&cfg, "n_steps");
    let seeds = u(&cfg, "seeds");
    let base = u(&cfg, "base_seed");
    let multi = u(&cfg, "assets") == 2;
    let mut seen: HashMap<u64, HashSet<String>> = HashMap::new();
    let mut bad: Vec<Value> = Vec::new();
    let mut runs = 0u64;
    for k in 1..=n_steps {
        let allowed_k = sets.get(&k).cloned().unwrap_or_default();
        for s in 0..seeds {
            // small consecutive seeds, seeds from the run's base, and the extremes
            let seed = match s % 3 { 0 => s / 3, 1 => base.wrapping_mul(0x9E37_79B9_7F4A_7C15).wrapping_add(s), _ => u64::MAX - s / 3 };
            let progress = s % 50 == 7;
            runs += 1;
            let got = guarded(AssertUnwindSafe(|| if multi { outcome_multi(&cfg, seed, k, progress) } else { outcome_single(&cfg, seed, k, progress) }));
            match got {
                Err(msg) => { if bad.len() < 8 { bad.push(json!({"what": format!("the simulation aborted: {}", msg), "seed": seed.to_string(), "n_steps": k, "cfg": cfg})); } }
                Ok(v) => {
                    let key = v.to_string();
                    if allowed_k.contains(&key) {
                        seen.entry(k).or_default().insert(key);
                    } else if bad.len() < 8 {
                        // nearest allowed outcome: same orders, else same number of orders
                        let near = allowed_k.iter().map(|x| serde_json::from_str::<Value>(x).unwrap())
                            .max_by_key(|x| (x["orders"] == v["orders"]) as u32 * 4 + (x["trades"] == v["trades"]) as u32 * 2 + (x["orders"][0].as_array().map(|a| a.len()) == v["orders"][0].as_array().map(|a| a.len())) as u32);
                        let d = near.as_ref().and_then(|x| bourse_verif_harness::proj::first_diff(x, &v, "outcome")).unwrap_or_default();
                        bad.push(json!({"what": format!("the outcome of a simulation of {} round(s) under seed {} is not among the {} outcomes the specification allows; against the nearest allowed outcome it differs at {}", k, seed, allowed_k.len(), d),
                            "seed": seed.to_string(), "n_steps": k, "cfg": cfg, "got": v}));
                    } else {
                        bad.push(Value::Null);
                    }
                }
            }
        }
    }
    let n_bad = bad.len();
    bad.retain(|x| !x.is_null());
    let allowed_n: usize = (1..=n_steps).map(|k| sets.get(&k).map(|s| s.len()).unwrap_or(0)).sum();
    let seen_n: usize = seen.values().map(|s| s.len()).sum();
    println!("{}", json!({"runs": runs, "n_mismatch": n_bad, "mismatches": bad, "allowed": allowed_n, "seen": seen_n,
        "allowed_per_k": (1..=n_steps).map(|k| sets.get(&k).map(|s| s.len()).unwrap_or(0)).collect::<Vec<_>>(),
        "seen_per_k": (1..=n_steps).map(|k| seen.get(&k).map(|s| s.len()).unwrap_or(0)).collect::<Vec<_>>()}));
}
