//! gen-replay for the simulation environments: reads EnvGen.tla output
//! (`{path, outs: [{sched, exp}]}` per line: every outcome the specification allows for the
//! path), runs the real Env / MarketEnv on the path under several seeds and requires
//!  (a) hook-free: the real outcome is a member of the allowed set;
//!  (b) with the verif_schedule hook: the outcome equals the one the specification gives for
//!      the schedule the real steps report.
use bourse_verif_harness::envdyn::{new_env, EnvDyn};
use bourse_verif_harness::lines::parse_tagged;
use bourse_verif_harness::proj::first_diff;
use bourse_verif_harness::{guarded, quiet_panics};
use rand::SeedableRng;
use rand_xoshiro::Xoroshiro128StarStar;
use serde_json::{json, Value};
use std::collections::{BTreeMap, BTreeSet};
use std::io::BufRead;
use std::panic::AssertUnwindSafe;
use std::sync::mpsc::sync_channel;
use std::sync::{Arc, Mutex};

#[derive(Clone)]
struct Cfg {
    kind: String,
    levels: usize,
    ticks: Vec<u32>,
    step: u64,
    trading: bool,
    seeds: u64,
    base_seed: u64,
    t0: u64,
}

#[derive(Default)]
struct Stats {
    lines: u64,
    runs: u64,
    ops: u64,
    n_mismatch: u64,
    mismatches: Vec<Value>,
    feats: BTreeMap<String, u64>,
    samples: Vec<Value>,
    allowed: u64,
    seen: u64,
    flags: Vec<Value>,
    n_flags: u64,
}

fn feat(s: &mut Stats, k: &str) {
    *s.feats.entry(k.to_string()).or_insert(0) += 1;
}

fn run_path(cfg: &Cfg, path: &[Value], seed: u64) -> Result<(Value, Vec<Value>), String> {
    guarded(AssertUnwindSafe(|| {
        let mut env: Box<dyn EnvDyn> = new_env(&cfg.kind, cfg.levels, bourse_verif_harness::time_r(cfg.t0), &cfg.ticks, cfg.step, cfg.trading);
        let mut rng = Xoroshiro128StarStar::seed_from_u64(seed);
        let mut sched = Vec::new();
        for l in path {
            match l["op"].as_str() {
                Some("submit") => {
                    let r = env.submit(l);
                    if let Some(want) = l.get("ret") {
                        if r.as_i64() != want.as_i64() {
                            return Err(format!("submission {} returned {} but the specification says {}", l, r, want));
                        }
                    }
                }
                Some("step") => {
                    env.step(&mut rng);
                    sched.push(env.schedule());
                }
                Some("enable") => env.enable(),
                Some("disable") => env.disable(),
                _ => panic!("harness: bad env label {}", l),
            }
        }
        Ok((env.proj(), sched))
    }))
    .unwrap_or_else(|m| Err(format!("panic: {}", m)))
}

fn replay_line(cfg: &Cfg, idx: u64, v: &Value, s: &mut Stats) {
    let path = v["path"].as_array().cloned().unwrap_or_default();
    let outs = v["outs"].as_array().cloned().unwrap_or_default();
    s.lines += 1;
    s.allowed += outs.len() as u64;
    // features
    let nsteps = path.iter().filter(|l| l["op"] == "step").count();
    if nsteps > 0 { feat(s, "has_step"); }
    if nsteps > 1 { feat(s, "multi_step"); }
    if outs.len() > 1 { feat(s, "schedule_matters"); }
    if outs.iter().any(|o| o["exp"]["books"].as_array().map(|b| b.iter().any(|x| x["trades"].as_array().map(|t| !t.is_empty()).unwrap_or(false))).unwrap_or(false)) { feat(s, "has_trade"); }
    if path.iter().any(|l| l["k"] == "cancel") { feat(s, "has_cancel"); }
    if path.iter().any(|l| l["k"] == "modify") { feat(s, "has_modify"); }
    if path.iter().any(|l| l.get("ret").and_then(|r| r.as_i64()) == Some(-1)) { feat(s, "create_rejected"); }
    if path.last().map(|l| l["op"] == "submit").unwrap_or(false) && nsteps > 0 { feat(s, "submit_after_step"); }
    {
        // a step whose batch is larger than the step size
        let mut batch = 0u64;
        for l in &path {
            if l["op"] == "submit" && l.get("ret").and_then(|r| r.as_i64()) != Some(-1) { batch += 1; }
            if l["op"] == "step" { if batch > cfg.step { feat(s, "batch_exceeds_step_size"); } batch = 0; }
        }
    }
    if path.iter().any(|l| l["op"] == "disable") { feat(s, "trading_toggled"); }
    if s.samples.len() < 2 && nsteps > 0 && outs.len() > 1 {
        s.samples.push(json!({"path": path, "allowed_outcomes": outs.len(), "one_schedule": outs[0]["sched"]}));
    }
    let mut seen: BTreeSet<usize> = BTreeSet::new();
    let nseeds = if nsteps == 0 { 1 } else { cfg.seeds };
    for k in 0..nseeds {
        let seed = cfg.base_seed.wrapping_mul(1_000_003).wrapping_add(idx.wrapping_mul(7919)).wrapping_add(k);
        s.runs += 1;
        s.ops += path.len() as u64;
        let problem: Option<(String, Value)> = match run_path(cfg, &path, seed) {
            Err(m) => Some((m, Value::Null)),
            Ok((got, sched)) => {
                let member = outs.iter().position(|o| o["exp"] == got || first_diff(&o["exp"], &got, "").is_none());
                match member {
                    None => {
                        // say how it differs from the outcome of the reported schedule, if any
                        let same_sched = outs.iter().find(|o| o["sched"] == Value::Array(sched.clone()));
                        let d = match same_sched {
                            Some(o) => format!("differs from the specification's outcome for the schedule the step reported at {}", first_diff(&o["exp"], &got, "exp").unwrap_or_default()),
                            None => "and the schedule the step reported is not a permutation of the queued instructions".to_string(),
                        };
                        Some((format!("outcome under seed {} is not among the {} outcomes the specification allows; {}", seed, outs.len(), d), got))
                    }
                    Some(i) => {
                        seen.insert(i);
                        if outs[i]["f3"] == json!(true) {
                            // the code's outcome is one the specification allows with FollowF3 = TRUE, and that outcome breaks C12_OnGrid
                            s.n_flags += 1;
                            if s.flags.len() < 4 {
                                s.flags.push(json!({"spec_flag": "F3", "what": "the code's outcome is an outcome of the specification with FollowF3 = TRUE, and that outcome breaks C12_OnGrid",
                                    "path": path, "seed": seed, "cfg": {"kind": cfg.kind, "levels": cfg.levels, "ticks": cfg.ticks, "step": cfg.step}}));
                            }
                        }
                        // hook: the reported schedule must be one whose specified outcome is this outcome
                        let ok = outs.iter().any(|o| o["sched"] == Value::Array(sched.clone()) && first_diff(&o["exp"], &got, "").is_none());
                        if ok { None } else {
                            Some((format!("seed {}: outcome is allowed, but not for the processing order the step reported ({})", seed, Value::Array(sched.clone())), got))
                        }
                    }
                }
            }
        };
        if let Some((what, got)) = problem {
            s.n_mismatch += 1;
            let offgrid = bourse_verif_harness::apply::has_offgrid_modify(&path[..], &cfg.ticks);
            if s.mismatches.iter().filter(|m| m["offgrid_modify"] == json!(offgrid)).count() < 8 {
                s.mismatches.push(json!({"what": what, "offgrid_modify": offgrid, "path": path, "seed": seed, "got": got, "n_allowed": outs.len(),
                    "allowed_first": outs.get(0).cloned().unwrap_or(Value::Null),
                    "cfg": {"kind": cfg.kind, "levels": cfg.levels, "ticks": cfg.ticks, "step": cfg.step, "trading": cfg.trading, "t0": cfg.t0}}));
            }
            break;
        }
    }
    s.seen += seen.len() as u64;
}

fn main() {
    quiet_panics();
    let args: Vec<String> = std::env::args().collect();
    let mut cfg = Cfg { kind: "env".into(), levels: 2, ticks: vec![1], step: 10, trading: true, seeds: 8, base_seed: 1, t0: 0 };
    let mut single: Option<String> = None;
    let mut i = 1;
    while i < args.len() {
        match args[i].as_str() {
            "--kind" => { cfg.kind = args[i + 1].clone(); i += 1 }
            "--levels" => { cfg.levels = args[i + 1].parse().unwrap(); i += 1 }
            "--ticks" => { cfg.ticks = args[i + 1].split(',').map(|x| x.parse().unwrap()).collect(); i += 1 }
            "--step" => { cfg.step = args[i + 1].parse().unwrap(); i += 1 }
            "--t0" => { cfg.t0 = args[i + 1].parse().unwrap(); i += 1 }
            // the environment runs at real time = specification time + offset (intra-step stamps advance by one unit, so no scaling)
            "--time-offset" => { bourse_verif_harness::TIME_OFFSET.store(args[i + 1].parse().unwrap(), std::sync::atomic::Ordering::Relaxed); i += 1 }
            "--trading" => { cfg.trading = args[i + 1].parse().unwrap(); i += 1 }
            "--seeds" => { cfg.seeds = args[i + 1].parse().unwrap(); i += 1 }
            "--base-seed" => { cfg.base_seed = args[i + 1].parse().unwrap(); i += 1 }
            "--case" => { single = Some(args[i + 1].clone()); i += 1 }
            a => { eprintln!("unknown argument {}", a); std::process::exit(2) }
        }
        i += 1;
    }
    if let Some(f) = single {
        let v: Value = serde_json::from_str(&std::fs::read_to_string(&f).expect("read case")).expect("case json");
        let c = &v["cfg"];
        cfg.kind = c["kind"].as_str().unwrap().to_string();
        cfg.levels = c["levels"].as_u64().unwrap() as usize;
        cfg.ticks = c["ticks"].as_array().unwrap().iter().map(|x| x.as_u64().unwrap() as u32).collect();
        cfg.step = c["step"].as_u64().unwrap();
        cfg.t0 = c.get("t0").and_then(|x| x.as_u64()).unwrap_or(0);
        cfg.trading = c["trading"].as_bool().unwrap();
        let path = v["path"].as_array().unwrap().clone();
        let r = run_path(&cfg, &path, v["seed"].as_u64().unwrap_or(1));
        let same = match &r { Ok((got, _)) => *got == v["got"], Err(_) => false };
        println!("{}", json!({"lines": 1, "n_mismatch": if same || r.is_err() { 1 } else { 0 },
            "note": "n_mismatch = 1 when the real environment still produces the recorded (disallowed) outcome",
            "outcome": match r { Ok((g, s)) => json!({"proj": g, "sched": s}), Err(m) => json!(m) }}));
        return;
    }

    let nthreads = std::thread::available_parallelism().map(|n| n.get()).unwrap_or(4).min(12);
    let (tx, rx) = sync_channel::<Vec<(u64, String)>>(64);
    let rx = Arc::new(Mutex::new(rx));
    let mut handles = Vec::new();
    for _ in 0..nthreads {
        let rx = rx.clone();
        let cfg = cfg.clone();
        handles.push(std::thread::spawn(move || {
            let mut s = Stats::default();
            loop {
                let chunk = { rx.lock().unwrap().recv() };
                let chunk = match chunk { Ok(c) => c, Err(_) => break };
                for (idx, line) in chunk {
                    match parse_tagged(&line, "GEN") {
                        Some(Ok(v)) => replay_line(&cfg, idx, &v, &mut s),
                        Some(Err(e)) => { s.n_mismatch += 1; s.mismatches.push(json!({"what": format!("harness: {}", e), "harness_error": true})); }
                        None => {}
                    }
                }
            }
            s
        }));
    }
    let stdin = std::io::stdin();
    let mut chunk = Vec::with_capacity(32);
    let mut idx = 0u64;
    let mut tail: Vec<String> = Vec::new();
    for line in stdin.lock().lines() {
        let line = match line { Ok(l) => l, Err(_) => break };
        if line.starts_with("<<\"GEN\"") {
            chunk.push((idx, line));
            idx += 1;
            if chunk.len() >= 32 { tx.send(std::mem::take(&mut chunk)).unwrap(); }
        } else if !line.starts_with("Parsing file") && !line.starts_with("Semantic processing") && !line.starts_with("Linting of") {
            tail.push(line);
            if tail.len() > 600 { tail.drain(100..300); }
        }
    }
    if !chunk.is_empty() { tx.send(chunk).unwrap(); }
    drop(tx);
    let mut tot = Stats::default();
    for h in handles {
        let s = h.join().expect("worker");
        tot.lines += s.lines; tot.runs += s.runs; tot.ops += s.ops; tot.n_mismatch += s.n_mismatch;
        tot.allowed += s.allowed; tot.seen += s.seen; tot.n_flags += s.n_flags;
        for x in s.flags { if tot.flags.len() < 4 { tot.flags.push(x) } }
        for m in s.mismatches { if tot.mismatches.iter().filter(|x| x["offgrid_modify"] == m["offgrid_modify"]).count() < 8 { tot.mismatches.push(m) } }
        for (k, v) in s.feats { *tot.feats.entry(k).or_insert(0) += v }
        for x in s.samples { if tot.samples.len() < 2 { tot.samples.push(x) } }
    }
    println!("{}", json!({"lines": tot.lines, "ops": tot.ops, "seeds_run": tot.runs, "n_mismatch": tot.n_mismatch, "mismatches": tot.mismatches,
        "features": tot.feats, "samples": tot.samples, "outcome_sets": tot.lines, "allowed_outcomes": tot.allowed,
        "distinct_outcomes_seen": tot.seen, "tlc_output": tail,
        "spec_flags": tot.flags, "n_spec_flags": tot.n_flags}));
}
