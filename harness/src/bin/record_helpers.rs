//! Drives the public helper functions of `bourse_de::agents::common` directly - the functions the noise and momentum
//! agents are made of (C16 anchors: round_price_up/down, place_buy/sell_limit_order[_market], cancel_live_orders[_market]).
//! The helpers are generic in the price distribution, so the harness hands them a distribution that returns a value of its
//! own choosing (any multiple of 1/4, either sign) and a mid-price of its own choosing (any multiple of 1/2 in the price
//! range): distances of 0, distances beyond the mid-price, mid-prices at both ends of the price range, none of which depends
//! on how a generator's draws are mapped to samples.  TLC validates every call against HelperTrace.tla.
//!
//! usage: record_helpers --out FILE --seed N --runs R --profile JSON
use bourse_book::types::{Order, Side, Status};
use bourse_de::agents::common;
use bourse_de::{Env, MarketEnv};
use bourse_verif_harness::rngs::Scripted;
use bourse_verif_harness::{guarded, quiet_panics};
use rand::distributions::Distribution;
use rand::{Rng, SeedableRng};
use rand_xoshiro::Xoroshiro128StarStar;
use serde_json::{json, Value};
use std::collections::BTreeMap;
use std::io::Write;
use std::panic::AssertUnwindSafe;

type R = Xoroshiro128StarStar;

/// a "distribution" with one value
struct Fixed(f64);
impl Distribution<f64> for Fixed {
    fn sample<G: Rng + ?Sized>(&self, _rng: &mut G) -> f64 { self.0 }
}

fn pair(x: u64) -> Value { json!([x >> 16, x & 0xffff]) }

fn status_s(s: Status) -> &'static str {
    match s { Status::New => "New", Status::Active => "Active", Status::Filled => "Filled", Status::Cancelled => "Cancelled", Status::Rejected => "Rejected" }
}

enum World { W1(Env), W2(MarketEnv<2, 3>) }

impl World {
    fn orders(&self, a: usize) -> Vec<Order> {
        match self { World::W1(e) => e.get_orders().into_iter().cloned().collect(), World::W2(e) => e.get_orders(a).into_iter().cloned().collect() }
    }
    fn n_assets(&self) -> usize { match self { World::W1(_) => 1, World::W2(_) => 2 } }
    fn n_trades(&self) -> usize { match self { World::W1(e) => e.get_trades().len(), World::W2(e) => e.get_trades(0).len() + e.get_trades(1).len() } }
    fn pending(&self) -> Vec<(u8, usize, usize)> {
        match self {
            World::W1(e) => e.verif_pending().into_iter().map(|(k, id, _, _)| (k, 0, id)).collect(),
            World::W2(e) => e.verif_pending().into_iter().map(|(k, id, _, _)| (k, id.0, id.1)).collect(),
        }
    }
    fn step(&mut self, rng: &mut R) { match self { World::W1(e) => { e.step(rng); } World::W2(e) => { e.step(rng); } } }
    fn place(&mut self, a: usize, side: Side, vol: u32, tr: u32, price: Option<u32>) {
        match self { World::W1(e) => { e.place_order(side, vol, tr, price).expect("harness order on grid"); } World::W2(e) => { e.place_order(a, side, vol, tr, price).expect("harness order on grid"); } }
    }
    fn cancel(&mut self, a: usize, id: usize) { match self { World::W1(e) => { e.cancel_order(id); } World::W2(e) => { e.cancel_order((a, id)); } } }
}

fn key(o: &Order) -> (usize, bool, u8, u64, u64, u32, u32, u32, u32) {
    (o.order_id, matches!(o.side, Side::Bid), o.status as u8, o.arr_time, o.end_time, o.vol, o.start_vol, o.price, o.trader_id)
}
fn same(a: &[Order], b: &[Order]) -> bool { a.len() == b.len() && a.iter().zip(b.iter()).all(|(x, y)| key(x) == key(y)) }

fn instrs_json(w: &World, from: usize) -> Vec<Value> {
    let p = w.pending();
    p[from.min(p.len())..].iter().map(|(k, a, id)| json!({"k": match k { 0 => "new", 1 => "cancel", _ => "modify" }, "a": a, "id": id})).collect()
}

fn main() {
    quiet_panics();
    let args: Vec<String> = std::env::args().collect();
    let mut out = String::new();
    let (mut seed, mut runs) = (0u64, 1usize);
    let mut prof = json!({});
    let mut i = 1;
    while i < args.len() {
        match args[i].as_str() {
            "--out" => { out = args[i + 1].clone(); i += 1 }
            "--seed" => { seed = args[i + 1].parse().unwrap(); i += 1 }
            "--runs" => { runs = args[i + 1].parse().unwrap(); i += 1 }
            "--ops" => { i += 1 }
            "--profile" => { prof = serde_json::from_str(&args[i + 1]).expect("profile json"); i += 1 }
            a => { eprintln!("unknown argument {}", a); std::process::exit(2) }
        }
        i += 1;
    }
    let calls = prof.get("calls").and_then(|x| x.as_u64()).unwrap_or(40) as usize;
    let mut rng = R::seed_from_u64(seed);
    let mut f = std::io::BufWriter::new(std::fs::File::create(&out).expect("create out"));
    let mut feats: BTreeMap<String, u64> = BTreeMap::new();
    let mut n_events = 0u64;
    let mut panics: Vec<Value> = Vec::new();
    let mut sample: Vec<Value> = Vec::new();
    const MAX: u64 = u32::MAX as u64;

    for run in 0..runs {
        let tick: u32 = *[1u32, 1, 2, 3, 4, 5, 6, 7, 8, 9, 10, 25, 1000].get(rng.gen_range(0..13)).unwrap();
        let multi = rng.gen_bool(0.4);
        let asset = if multi { rng.gen_range(0..2) } else { 0 };
        let other_tick = if tick % 7 == 0 { 3 } else { 7 };
        // regime of the mid-prices of this run: small numbers (TLC recomputes the documented rounding exactly), the lower end of
        // the price range, the upper end, anywhere
        let regime = *["small", "small", "small", "low", "top", "any"].get(rng.gen_range(0..6)).unwrap();
        let mut world = if multi {
            let ticks = if asset == 0 { [tick, other_tick] } else { [other_tick, tick] };
            World::W2(MarketEnv::<2, 3>::new(0, ticks, 1000, true))
        } else {
            World::W1(Env::new(0, tick, 1000, true))
        };
        writeln!(f, "{}", json!({"op": "reset", "run": run, "tick": tick, "multi": multi, "asset": asset, "regime": regime})).unwrap();
        n_events += 1;
        let mut known: Vec<usize> = Vec::new(); // ids on the addressed asset, any status
        for _call in 0..calls {
            let what = rng.gen_range(0..10);
            if what < 6 {
                // ---- place_buy_limit_order / place_sell_limit_order ----
                let buy = rng.gen_bool(0.5);
                let m2: u64 = match regime {
                    "small" => match rng.gen_range(0..6) { 0 => rng.gen_range(0..40), 1 => 2 * (tick as u64) * rng.gen_range(0..2000u64), _ => rng.gen_range(0..(1u64 << 26)) },
                    "low" => rng.gen_range(0..(8 * tick as u64 + 4)),
                    "top" => 2 * MAX - rng.gen_range(0..(16 * tick as u64 + 8)),
                    _ => rng.gen_range(0..=2 * MAX),
                };
                let a4: u64 = match rng.gen_range(0..8) {
                    0 => 0,
                    1 => rng.gen_range(0..8),
                    2 => 4 * (tick as u64) * rng.gen_range(0..6u64),
                    3 => 2 * m2.min(1 << 25) + rng.gen_range(0..8),           // at or just beyond the mid-price
                    4 => rng.gen_range(0..(1u64 << 26)),
                    _ => rng.gen_range(0..(40 * tick as u64 + 1)),
                };
                let neg = rng.gen_bool(0.3); // the helpers take the absolute value of the sample
                // a heavy-tailed distribution with finite parameters can return infinity (exp of a large normal sample overflows)
                let inf = rng.gen_bool(0.04);
                let dist = if inf { f64::INFINITY } else { (a4 as f64) / 4.0 } * if neg { -1.0 } else { 1.0 };
                let mid = (m2 as f64) / 2.0;
                let vol: u32 = rng.gen_range(1..1000);
                let tr: u32 = rng.gen_range(0..50);
                let before: Vec<Vec<Order>> = (0..world.n_assets()).map(|a| world.orders(a)).collect();
                let (pend_before, trades_before) = (world.pending().len(), world.n_trades());
                let mut hr = R::seed_from_u64(rng.gen());
                let res = guarded(AssertUnwindSafe(|| -> Result<usize, String> {
                    match &mut world {
                        World::W1(e) => if buy { common::place_buy_limit_order(e, &mut hr, Fixed(dist), mid, tick as f64, vol, tr) }
                                        else { common::place_sell_limit_order(e, &mut hr, Fixed(dist), mid, tick as f64, vol, tr) }.map_err(|x| format!("{}", x)),
                        World::W2(e) => if buy { common::place_buy_limit_order_market(e, &mut hr, Fixed(dist), mid, tick as f64, vol, asset, tr) }
                                        else { common::place_sell_limit_order_market(e, &mut hr, Fixed(dist), mid, tick as f64, vol, asset, tr) }
                                        .map(|id| { if id.0 != asset { usize::MAX } else { id.1 } }).map_err(|x| format!("{}", x)),
                    }
                }));
                let (ret, err): (i64, String) = match res {
                    Err(m) => {
                        panics.push(json!({"run": run, "what": format!("place_{}_limit_order{} aborted: {} (tick {}, mid-price {}, sampled distance {})",
                            if buy { "buy" } else { "sell" }, if multi { "_market" } else { "" }, m, tick, mid, dist), "cfg": {"tick": tick, "multi": multi}, "recorder_seed": seed}));
                        writeln!(f, "{}", json!({"op": "abort", "run": run})).unwrap();
                        n_events += 1;
                        break;
                    }
                    Ok(Ok(id)) => (if id == usize::MAX { -2 } else { id as i64 }, String::new()),
                    Ok(Err(m)) => (-1, m),
                };
                let after: Vec<Vec<Order>> = (0..world.n_assets()).map(|a| world.orders(a)).collect();
                let created: usize = (0..after.len()).map(|a| after[a].len() - before[a].len()).sum();
                let untouched = (0..after.len()).all(|a| same(&after[a][..before[a].len()], &before[a][..])) && world.n_trades() == trades_before;
                let order = if ret >= 0 && (ret as usize) < after[asset].len() {
                    let o = after[asset][ret as usize];
                    json!({"id": o.order_id, "side": if matches!(o.side, Side::Bid) { "B" } else { "A" }, "status": status_s(o.status), "vol": o.vol, "start": o.start_vol,
                           "tr": o.trader_id, "price": pair(o.price as u64), "topgap": (MAX - o.price as u64).min(1 << 20), "fresh": (ret as usize) >= before[asset].len()})
                } else { json!({"id": -1}) };
                if ret >= 0 { known.push(ret as usize); }
                let ev = json!({"op": "quote", "run": run, "buy": buy, "m2": pair(m2), "a4": pair(a4), "inf": inf, "neg": neg, "vol": vol, "tr": tr, "ret": ret, "err": err,
                                "created": created, "untouched": untouched, "order": order, "instrs": instrs_json(&world, pend_before)});
                writeln!(f, "{}", ev).unwrap();
                n_events += 1;
                *feats.entry("quote_calls".into()).or_insert(0) += 1;
                if inf { *feats.entry("infinite_sampled_distances".into()).or_insert(0) += 1; }
                if a4 == 0 { *feats.entry("quotes_at_distance_zero".into()).or_insert(0) += 1; }
                if buy && a4 > 2 * m2 { *feats.entry("buy_distance_beyond_mid_price".into()).or_insert(0) += 1; }
                if !buy && 2 * m2 + a4 > 4 * MAX { *feats.entry("sell_beyond_the_price_range".into()).or_insert(0) += 1; }
                if m2 % 2 == 1 { *feats.entry("half_integer_mid_prices".into()).or_insert(0) += 1; }
                if sample.len() < 2 { sample.push(ev.clone()); }
            } else if what < 8 {
                // ---- cancel_live_orders ----
                let mut ids: Vec<usize> = known.iter().cloned().filter(|_| rng.gen_bool(0.7)).collect();
                if rng.gen_bool(0.3) { ids.reverse(); }
                let p: f32 = *[0.0f32, 0.0, 0.3, 0.7, 1.0, 1.5].get(rng.gen_range(0..6)).unwrap();
                let before: Vec<Vec<Order>> = (0..world.n_assets()).map(|a| world.orders(a)).collect();
                let (pend_before, trades_before) = (world.pending().len(), world.n_trades());
                let given: Vec<Value> = ids.iter().map(|id| json!([id, status_s(before[asset][*id].status)])).collect();
                // boundary draws first (all-zero and all-one words), then a seeded stream
                let script: Vec<u64> = (0..rng.gen_range(0..4)).map(|_| if rng.gen_bool(0.5) { 0 } else { u64::MAX }).collect();
                let mut hr = Scripted::new(script, R::seed_from_u64(rng.gen()));
                let res = guarded(AssertUnwindSafe(|| -> Vec<i64> {
                    match &mut world {
                        World::W1(e) => common::cancel_live_orders(e, &mut hr, &ids, p).into_iter().map(|x| x as i64).collect(),
                        World::W2(e) => { let mids: Vec<(usize, usize)> = ids.iter().map(|x| (asset, *x)).collect();
                                          common::cancel_live_orders_market(e, &mut hr, &mids, p).into_iter().map(|x| if x.0 == asset { x.1 as i64 } else { -2 }).collect() }
                    }
                }));
                let kept = match res {
                    Err(m) => {
                        panics.push(json!({"run": run, "what": format!("cancel_live_orders{} aborted: {} (p_cancel {})", if multi { "_market" } else { "" }, m, p),
                                           "cfg": {"tick": tick, "multi": multi}, "recorder_seed": seed}));
                        writeln!(f, "{}", json!({"op": "abort", "run": run})).unwrap();
                        n_events += 1;
                        break;
                    }
                    Ok(v) => v,
                };
                let after: Vec<Vec<Order>> = (0..world.n_assets()).map(|a| world.orders(a)).collect();
                let untouched = (0..after.len()).all(|a| same(&after[a], &before[a])) && world.n_trades() == trades_before;
                let ev = json!({"op": "cancel_live", "run": run, "given": given, "p": if p <= 0.0 { "zero" } else if p >= 1.0 { "one" } else { "mid" }, "kept": kept,
                                "untouched": untouched, "instrs": instrs_json(&world, pend_before)});
                writeln!(f, "{}", ev).unwrap();
                n_events += 1;
                *feats.entry("cancel_live_calls".into()).or_insert(0) += 1;
                if given.iter().any(|g| g[1] == "Active") { *feats.entry("cancel_live_calls_with_active_orders".into()).or_insert(0) += 1; }
                if given.iter().any(|g| g[1] != "Active") { *feats.entry("cancel_live_calls_with_orders_that_are_not_active".into()).or_insert(0) += 1; }
            } else {
                // ---- let time pass: a step (queued quotes become active, queued cancels take effect), now and then a harness
                //      market order or cancel so that Filled / Cancelled orders are among the ids handed to cancel_live_orders ----
                if rng.gen_bool(0.3) && !known.is_empty() { let id = known[rng.gen_range(0..known.len())]; world.cancel(asset, id); }
                if rng.gen_bool(0.3) { world.place(asset, if rng.gen_bool(0.5) { Side::Bid } else { Side::Ask }, rng.gen_range(1..500), 777, None); }
                let mut sr = R::seed_from_u64(rng.gen());
                world.step(&mut sr);
                for a in 0..world.n_assets() { if a == asset { known = (0..world.orders(a).len()).collect(); } }
                writeln!(f, "{}", json!({"op": "step", "run": run})).unwrap();
                n_events += 1;
            }
        }
    }
    f.flush().unwrap();
    println!("{}", json!({"events": n_events, "runs": runs, "features": feats, "panics": panics, "samples": sample}));
}
