//! gen-replay for direct operations on Market<A, L> (C14, market half of C07/C12/C13):
//! reads MarketGen.tla output (`{path, exp}`), replays every path into a fresh real Market and
//! compares ProjMkt.  Reloaded copies (snapshot -> load) are driven on alongside the original.
use bourse_verif_harness::envdyn::{new_market, MarketDyn};
use bourse_verif_harness::lines::parse_tagged;
use bourse_verif_harness::proj::first_diff;
use bourse_verif_harness::{guarded, quiet_panics};
use serde_json::{json, Value};
use std::collections::BTreeMap;
use std::io::BufRead;
use std::panic::AssertUnwindSafe;
use std::sync::mpsc::sync_channel;
use std::sync::{Arc, Mutex};

#[derive(Clone)]
struct Cfg { levels: usize, ticks: Vec<u32>, trading: bool, trunc_every: usize }

#[derive(Default)]
struct Stats { lines: u64, ops: u64, n_mismatch: u64, mismatches: Vec<Value>, feats: BTreeMap<String, u64>, samples: Vec<Value>,
               trunc_snapshots: u64, trunc_offsets: u64 }

fn feat(s: &mut Stats, k: &str) { *s.feats.entry(k.to_string()).or_insert(0) += 1; }

fn trunc_sweep(m: &dyn MarketDyn, s: &mut Stats) -> Option<String> {
    for pretty in [false, true] {
        let snap = m.snapshot(pretty);
        let bytes = snap.as_bytes();
        s.trunc_snapshots += 1;
        let stride = std::cmp::max(1, bytes.len() / 16);
        for k in 0..bytes.len() {
            s.trunc_offsets += 1;
            let through_file = k % stride == 0 || k + 4 >= bytes.len();
            let r = guarded(AssertUnwindSafe(|| {
                if through_file { m.load_file_bytes(&bytes[..k]).is_ok() }
                else { match std::str::from_utf8(&bytes[..k]) { Ok(t) => m.load(t).is_ok(), Err(_) => false } }
            }));
            match r {
                Ok(false) => {}
                Ok(true) => return Some(format!("market snapshot (pretty={}) cut at byte {} of {} was accepted", pretty, k, bytes.len())),
                Err(e) => return Some(format!("market snapshot (pretty={}) cut at byte {} of {}: panic {}", pretty, k, bytes.len(), e)),
            }
        }
    }
    None
}

fn replay_one(cfg: &Cfg, idx: u64, path: &[Value], exp: &Value, s: &mut Stats) {
    let mut ms: Vec<Box<dyn MarketDyn>> = vec![new_market(cfg.levels, 0, &cfg.ticks, cfg.trading)];
    let mut problem: Option<String> = None;
    let mut last_ret = Value::Null;
    for (k, l) in path.iter().enumerate() {
        s.ops += 1;
        if l["op"] == "reload" {
            let mode = l["mode"].as_str().unwrap_or("sc").to_string();
            let r = guarded(AssertUnwindSafe(|| match mode.as_str() {
                "sc" => ms[0].load(&ms[0].snapshot(false)),
                "sp" => ms[0].load(&ms[0].snapshot(true)),
                "fc" => ms[0].reload_file(false),
                _ => ms[0].reload_file(true),
            }));
            match r {
                Ok(Ok(nm)) => { if ms.len() < 3 { ms.push(nm) } else { ms[2] = nm } }
                Ok(Err(e)) => problem = Some(format!("step {}: market reload({}) failed: {}", k, mode, e)),
                Err(e) => problem = Some(format!("step {}: market reload({}) panicked: {}", k, mode, e)),
            }
            if problem.is_none() && cfg.trunc_every > 0 && k + 1 == path.len() && (idx as usize) % cfg.trunc_every == 0 {
                if let Some(p) = trunc_sweep(ms[0].as_ref(), s) { problem = Some(format!("step {}: {}", k, p)); }
            }
        } else {
            for (mi, m) in ms.iter_mut().enumerate() {
                match guarded(AssertUnwindSafe(|| m.apply(l))) {
                    Ok(r) => { if mi == 0 { last_ret = r } else if r != last_ret { problem = Some(format!("step {}: reloaded copy {} returned {} but original {}", k, mi, r, last_ret)); } }
                    Err(e) => problem = Some(format!("step {}: panic in copy {}: {}", k, mi, e)),
                }
            }
            if let Some(want) = l.get("ret") {
                if problem.is_none() && !last_ret.is_null() && (last_ret.is_string() || want.as_i64() != last_ret.as_i64()) {
                    problem = Some(format!("step {}: returned {} but specification says {}", k, last_ret, want));
                }
            }
        }
        if problem.is_some() { break; }
    }
    let mut got = Value::Null;
    if problem.is_none() {
        for (mi, m) in ms.iter().enumerate() {
            match guarded(AssertUnwindSafe(|| m.proj())) {
                Ok(p) => if let Some(d) = first_diff(exp, &p, "exp") {
                    problem = Some(format!("final state of copy {} (0 = original, >0 = reloaded) differs at {}", mi, d)); got = p; break;
                },
                Err(e) => { problem = Some(format!("panic while reading copy {}: {}", mi, e)); break; }
            }
        }
    }
    if let Some(p) = problem {
        s.n_mismatch += 1;
        let offgrid = bourse_verif_harness::apply::has_offgrid_modify(&path[..], &cfg.ticks);
            if s.mismatches.iter().filter(|m| m["offgrid_modify"] == json!(offgrid)).count() < 8 {
            s.mismatches.push(json!({"what": p, "offgrid_modify": offgrid, "path": path, "exp": exp, "got": got,
                "cfg": {"levels": cfg.levels, "ticks": cfg.ticks, "tick": cfg.ticks.iter().max(), "trading": cfg.trading}}));
        }
    }
}

fn features(path: &[Value], exp: &Value, s: &mut Stats) {
    let books = exp["books"].as_array().cloned().unwrap_or_default();
    let traded: Vec<bool> = books.iter().map(|b| b["trades"].as_array().map(|t| !t.is_empty()).unwrap_or(false)).collect();
    if traded.iter().any(|x| *x) { feat(s, "has_trade"); }
    if traded.iter().filter(|x| **x).count() > 1 { feat(s, "trades_on_two_assets"); }
    let used: std::collections::BTreeSet<u64> = path.iter().filter_map(|l| l.get("a").and_then(|a| a.as_u64())).collect();
    if used.len() > 1 { feat(s, "ops_on_two_assets"); }
    if path.iter().any(|l| l["op"] == "reload") { feat(s, "op_reload"); }
    if path.iter().any(|l| l.get("ret").and_then(|r| r.as_i64()) == Some(-1)) { feat(s, "create_rejected"); }
    if path.iter().any(|l| l["op"] == "disable") { feat(s, "trading_toggled"); }
    if path.iter().any(|l| l["op"] == "modify") { feat(s, "op_modify"); }
}

fn main() {
    quiet_panics();
    let args: Vec<String> = std::env::args().collect();
    let mut cfg = Cfg { levels: 2, ticks: vec![1, 2], trading: true, trunc_every: 0 };
    let mut single: Option<String> = None;
    let mut i = 1;
    while i < args.len() {
        match args[i].as_str() {
            "--levels" => { cfg.levels = args[i + 1].parse().unwrap(); i += 1 }
            "--ticks" => { cfg.ticks = args[i + 1].split(',').map(|x| x.parse().unwrap()).collect(); i += 1 }
            "--trading" => { cfg.trading = args[i + 1].parse().unwrap(); i += 1 }
            "--trunc-every" => { cfg.trunc_every = args[i + 1].parse().unwrap(); i += 1 }
            "--case" => { single = Some(args[i + 1].clone()); i += 1 }
            a => { eprintln!("unknown argument {}", a); std::process::exit(2) }
        }
        i += 1;
    }
    if let Some(f) = single {
        let v: Value = serde_json::from_str(&std::fs::read_to_string(&f).expect("read case")).expect("case json");
        let c = &v["cfg"];
        cfg.levels = c["levels"].as_u64().unwrap() as usize;
        cfg.ticks = c["ticks"].as_array().unwrap().iter().map(|x| x.as_u64().unwrap() as u32).collect();
        cfg.trading = c["trading"].as_bool().unwrap();
        cfg.trunc_every = 1;
        let mut s = Stats::default();
        replay_one(&cfg, 0, v["path"].as_array().unwrap(), &v["exp"], &mut s);
        println!("{}", json!({"lines": 1, "n_mismatch": s.n_mismatch, "mismatches": s.mismatches}));
        return;
    }
    let nthreads = std::thread::available_parallelism().map(|n| n.get()).unwrap_or(4).min(12);
    let (tx, rx) = sync_channel::<Vec<(u64, String)>>(64);
    let rx = Arc::new(Mutex::new(rx));
    let mut handles = Vec::new();
    for _ in 0..nthreads {
        let rx = rx.clone();
        let cfg = cfg.clone();
        handles.push(std::thread::spawn(move || {
            let mut s = Stats::default();
            loop {
                let chunk = { rx.lock().unwrap().recv() };
                let chunk = match chunk { Ok(c) => c, Err(_) => break };
                for (idx, line) in chunk {
                    match parse_tagged(&line, "GEN") {
                        Some(Ok(v)) => {
                            s.lines += 1;
                            let path = v["path"].as_array().cloned().unwrap_or_default();
                            features(&path, &v["exp"], &mut s);
                            if s.samples.len() < 1 && path.len() >= 3 { s.samples.push(json!({"path": path, "exp_mkt": v["exp"]["mkt"]})); }
                            replay_one(&cfg, idx, &path, &v["exp"], &mut s);
                        }
                        Some(Err(e)) => { s.n_mismatch += 1; s.mismatches.push(json!({"what": format!("harness: {}", e), "harness_error": true})); }
                        None => {}
                    }
                }
            }
            s
        }));
    }
    let stdin = std::io::stdin();
    let mut chunk = Vec::with_capacity(64);
    let mut idx = 0u64;
    let mut tail: Vec<String> = Vec::new();
    for line in stdin.lock().lines() {
        let line = match line { Ok(l) => l, Err(_) => break };
        if line.starts_with("<<\"GEN\"") {
            chunk.push((idx, line)); idx += 1;
            if chunk.len() >= 64 { tx.send(std::mem::take(&mut chunk)).unwrap(); }
        } else if !line.starts_with("Parsing file") && !line.starts_with("Semantic processing") && !line.starts_with("Linting of") {
            tail.push(line);
            if tail.len() > 600 { tail.drain(100..300); }
        }
    }
    if !chunk.is_empty() { tx.send(chunk).unwrap(); }
    drop(tx);
    let mut tot = Stats::default();
    for h in handles {
        let s = h.join().expect("worker");
        tot.lines += s.lines; tot.ops += s.ops; tot.n_mismatch += s.n_mismatch;
        tot.trunc_snapshots += s.trunc_snapshots; tot.trunc_offsets += s.trunc_offsets;
        for m in s.mismatches { if tot.mismatches.iter().filter(|x| x["offgrid_modify"] == m["offgrid_modify"]).count() < 8 { tot.mismatches.push(m) } }
        for (k, v) in s.feats { *tot.feats.entry(k).or_insert(0) += v }
        for x in s.samples { if tot.samples.len() < 2 { tot.samples.push(x) } }
    }
    println!("{}", json!({"lines": tot.lines, "ops": tot.ops, "n_mismatch": tot.n_mismatch, "mismatches": tot.mismatches,
        "features": tot.feats, "samples": tot.samples, "trunc_snapshots": tot.trunc_snapshots, "trunc_offsets": tot.trunc_offsets,
        "tlc_output": tail}));
}
