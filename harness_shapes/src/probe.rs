//! Probe agents and the counting generator used to observe what a derived agent set does:
//! every probe takes exactly one draw and submits exactly one order tagged with its leaf id, so
//! order ids reveal the call sequence on the shared environment and draws reveal generator sharing.
use bourse_book::types::Side;
use bourse_de::agents::{Agent, MarketAgent};
use bourse_de::{Env, MarketEnv};
use rand::RngCore;

pub struct Counting(pub u64);
impl RngCore for Counting {
    fn next_u32(&mut self) -> u32 { self.next_u64() as u32 }
    fn next_u64(&mut self) -> u64 { self.0 += 1; self.0 - 1 }
    fn fill_bytes(&mut self, dest: &mut [u8]) { for b in dest.iter_mut() { *b = self.next_u64() as u8; } }
    fn try_fill_bytes(&mut self, dest: &mut [u8]) -> Result<(), rand::Error> { self.fill_bytes(dest); Ok(()) }
}

pub struct ProbeA { pub leaf: u32 }
pub struct ProbeB { pub leaf: u32 }

fn act<R: RngCore>(leaf: u32, env: &mut Env, rng: &mut R) {
    let d = rng.next_u64();
    env.place_order(Side::Bid, 1 + d as u32, leaf, Some(100)).unwrap();
}
fn act_m<R: RngCore, const M: usize, const N: usize>(leaf: u32, env: &mut MarketEnv<M, N>, rng: &mut R) {
    let d = rng.next_u64();
    env.place_order(0, Side::Bid, 1 + d as u32, leaf, Some(100)).unwrap();
}
impl Agent for ProbeA { fn update<R: RngCore>(&mut self, env: &mut Env, rng: &mut R) { act(self.leaf, env, rng) } }
impl Agent for ProbeB { fn update<R: RngCore>(&mut self, env: &mut Env, rng: &mut R) { act(self.leaf, env, rng) } }
pub struct ProbeMA { pub leaf: u32 }
pub struct ProbeMB { pub leaf: u32 }
impl MarketAgent for ProbeMA { fn update<R: RngCore, const M: usize, const N: usize>(&mut self, env: &mut MarketEnv<M, N>, rng: &mut R) { act_m(self.leaf, env, rng) } }
impl MarketAgent for ProbeMB { fn update<R: RngCore, const M: usize, const N: usize>(&mut self, env: &mut MarketEnv<M, N>, rng: &mut R) { act_m(self.leaf, env, rng) } }

/// what one update call did: [leaf, draw, order id] per order created, in creation order
pub fn observe(env: &Env, from: usize) -> Vec<[u64; 3]> {
    env.get_orders()[from..].iter().map(|o| [o.trader_id as u64, (o.vol - 1) as u64, o.order_id as u64]).collect()
}
pub fn observe_m<const M: usize, const N: usize>(env: &MarketEnv<M, N>, from: usize) -> Vec<[u64; 3]> {
    env.get_orders(0)[from..].iter().map(|o| [o.trader_id as u64, (o.vol - 1) as u64, o.order_id as u64]).collect()
}
