"""Matching of violations against the committed list of known findings.

A known finding is identified by the specific input shape / call site that fails
(`signature.matcher` names one of the predicates below, `signature.args` its
parameters).  A violation that no listed finding explains is reported as new.
Nothing here is ever written at run time."""


def _labels(v):
    p = v.get("payload", {})
    return p.get("path") or p.get("history") or []


def _tick(v):
    p = v.get("payload", {})
    c = p.get("cfg") or {}
    if "tick" in c:
        return c["tick"]
    for l in _labels(v):
        if isinstance(l, dict) and l.get("op") == "reset" and "tick" in l:
            return l["tick"]
    return None


def _ticks(v):
    c = v.get("payload", {}).get("cfg") or {}
    if isinstance(c.get("ticks"), list):
        return c["ticks"]
    for l in _labels(v):
        if isinstance(l, dict) and l.get("op") == "reset" and isinstance(l.get("ticks"), list):
            return l["ticks"]
    t = _tick(v)
    return [t] if t else None


def m_offgrid_modify(v, args):
    """The history contains a modify request (direct, as an event, or as a queued instruction) whose
    new price is not a multiple of the tick size of the book it addresses."""
    ticks = _ticks(v)
    if not ticks:
        return False
    for l in _labels(v):
        if not isinstance(l, dict):
            continue
        if l.get("op") == "modify" or (l.get("op") in ("event", "submit") and l.get("k") == "modify"):
            a = l.get("a", 0) if isinstance(l.get("a", 0), int) else 0
            t = ticks[a] if a < len(ticks) else ticks[0]
            p = l.get("p")
            if t and t > 1 and isinstance(p, int) and p >= 0 and p % t != 0:
                return True
    return False


def m_payload_field(v, args):
    """payload[field] == value (used for findings pinned to one call site / one layout slot)."""
    p = v.get("payload", {})
    return all(p.get(k) == val for k, val in args.items())


def m_spec_flag(v, args):
    """The violation was raised by the SPECIFICATION: run with the finding's named deviation switched on (e.g. FollowF3 = TRUE in
    BookOps.tla) it reproduced the code's behaviour exactly, and a clause failed on the specification's own state.  Anything the
    deviation does not explain is a mismatch between code and specification and is reported as a new violation."""
    return v.get("payload", {}).get("spec_flag") == args.get("flag")


MATCHERS = {"offgrid_modify": m_offgrid_modify, "payload_field": m_payload_field, "spec_flag": m_spec_flag}


def match(v, known):
    for k in known:
        sig = k.get("signature", {})
        f = MATCHERS.get(sig.get("matcher"))
        if f and f(v, sig.get("args", {})):
            return k
    return None
