"""The property checks.  Each function runs the stages that decide one property and
returns the exit code.  See DESIGN.md section 6 for what each stage contributes."""
import json, os, subprocess, sys
from . import core
from .core import MAXPRICE, ToolError, log
from .runner import Check

ALL_INV = ["Inv_C01_QueueSorted", "Inv_C02_ViewsAgree", "Inv_C02_ViewsConsistent", "Inv_C02_NotCrossed",
           "Inv_C03_WellFormed", "Inv_C03_Conservation", "Inv_C03_Counter", "Inv_C04_State",
           "Inv_C12_OnGrid", "Inv_C12_LevelsAccount"]
ALL_ACT = ["Act_C01_TradesTakeHead", "Act_C01_Exhaustive", "Act_C01_RestsLast", "Act_C03_AppendOnly",
           "Act_C03_Admitted", "Act_C04_Transitions", "Act_C04_NoOps", "Act_C06_Modify",
           "Act_C12_RejectedCreate", "Act_C13_NoTradesOff", "Act_C13_MarketRejected", "Act_C13_ToggleStutters"]

GEN = ("INIT GInit", "NEXT GNext", "INVARIANT Emit", "CONSTRAINT Constr")
GEN_DRAIN = ("INIT GInit", "NEXT GNext", "INVARIANT EmitDrain", "CONSTRAINT Constr")

LEVEL_TEXT = ("TLC model-checks the TLA+ specification (invariants and action properties named per clause) and the "
              "specification is bound to the code in both directions: every TLC-generated history is replayed into the "
              "real object with full-projection comparison, and traces recorded from the real code are validated by TLC.")


MODV = ["none", "smaller", "equal", "larger"]


def bc(**kw):
    """Constants of Book.tla with defaults (3 grid prices x 2 volumes x both sides x limit/market)."""
    c = dict(MaxPrice=MAXPRICE, NLevels=4, Tick=1, Trading0=True, Ops=["cap", "cancel"], Dts=[1],
             Sides=["B", "A"], Kinds=["L", "M"], Prices=[10, 11, 12], Vols=[1, 2], Traders=[7],
             ModPrices=[-1], ModVols=[], MaxOrders=3, MaxOps=4, Discipline=True, VolCap=0)
    c.update(kw)
    return c


def rb_args(c, **kw):
    a = ["--levels", c["NLevels"], "--tick", c["Tick"], "--trading", "true" if c["Trading0"] else "false"]
    for k, v in kw.items():
        a += ["--" + k.replace("_", "-"), v]
    return a


def book_gen(ck, name, cfg=GEN_DRAIN, need=(), timeout=600, workers=12, spec_flags=True, **kw):
    c = bc(**kw)
    extra = {}
    if "trunc_every" in kw:
        extra["trunc_every"] = c.pop("trunc_every")
    if "price_offset" in kw:
        extra["price_offset"] = c.pop("price_offset")
    if "vol_scale" in kw:
        extra["vol_scale"] = c.pop("vol_scale")
    for k in ("time_scale", "time_offset", "price_scale"):
        if k in kw:
            extra[k] = c.pop(k)
    return ck.gen(name, "BookGen", c, "replay_book", rb_args(c, **extra), cfg=cfg, need=need, timeout=timeout, workers=workers, spec_flags=spec_flags)


def high(tick, pmax):
    """Offset of the high-price regime: the largest multiple of the tick size that keeps every price of the
    alphabet strictly below Price::MAX (the top price of the alphabet lands on the last grid point below it)."""
    return ((2 ** 32 - 2 - pmax) // tick) * tick


def book_mc(ck, name, inv=ALL_INV, act=ALL_ACT, timeout=600, workers=12, **kw):
    return ck.mc(name, "Book", bc(**kw), invariants=inv, properties=act, timeout=timeout, workers=workers)


IMPL_INV = ["Inv_Refines", "Inv_ImplConsistent", "Inv_Keys"]


def impl_mc(ck, name, timeout=600, workers=12, **kw):
    """Refinement check: the implementation-shaped model (BookImpl.tla: keyed priority map, per-price map, total volume,
    matching loop) driven in lock-step with the reference engine; TLC checks Matches / ImplConsistent after every call."""
    c = bc(**dict(dict(FixTies=True, NLevels=2), **kw))
    return ck.mc(name, "BookImplMC", c, invariants=IMPL_INV, properties=(), timeout=timeout, workers=workers)


# ---------------------------------------------------------------------------------------------
# Cross-feature stages.  The book-level properties quantify over EVERY operation sequence; a change can need the feature
# one property is about combined with the feature another is about (equal timestamps under a modify, a snapshot after a
# counter reset, a re-priced order on a book that was crossed while trading was off, ...).  Each stage below is one such
# combination as a compact exhaustive generator config; the checks of the properties whose text covers the combination
# include it (section 13 of DESIGN.md says which seeded change motivated which).
def cross(ck, q, *names):
    for nm in names:
        if nm == "ties":
            # every queue insertion ties (the clock never advances): placements, market orders, cancels on one or two levels
            book_gen(ck, "x_ties", Ops=["cap", "cancel"], Dts=[0], Discipline=False, Prices=[10, 11], Vols=[1, 2], Kinds=["L", "M"],
                     MaxOrders=3 if q else 4, MaxOps=4 if q else 5, need=("has_trade", "dt0", "cancelled_order"), timeout=300 if q else 1500)
        elif nm == "ties_deep":
            # one price level, up to four orders per side queued in one instant or one tick apart, removals from the front and
            # the middle, later arrivals: the queue order behind a removed order
            book_gen(ck, "x_ties_deep", Ops=["cap", "cancel"], Dts=[0, 1], Discipline=False, Prices=[10], Vols=[1], Kinds=["L", "M"],
                     Sides=["B", "A"], MaxOrders=4 if q else 5, MaxOps=5 if q else 6, need=("has_trade", "dt0", "cancelled_order"),
                     timeout=300 if q else 1500)
        elif nm == "ties_modify":
            # re-queuing modifications that tie with placements (clock advance 0 or 1)
            book_gen(ck, "x_ties_modify", Ops=["cap", "modify"], Dts=[0, 1], Discipline=False, Kinds=["L"], Prices=[10, 11], Vols=[1, 2],
                     ModPrices=[-1, 11] if q else [-1, 10, 11], ModVols=["none", "smaller", "equal"], MaxOrders=3, MaxOps=4,
                     need=("op_modify", "dt0", "has_trade"), timeout=300 if q else 1500)
        elif nm == "off_modify":
            # books that were crossed while trading was disabled, trading re-enabled, then every modify shape
            book_gen(ck, "x_off_modify", Ops=["cap", "modify", "enable"], Trading0=False, Kinds=["L"], Prices=[10, 11], Vols=[1, 2],
                     ModPrices=[-1, 10, 11], ModVols=["none", "smaller", "larger"], MaxOrders=2 if q else 3, MaxOps=4 if q else 5,
                     need=("op_modify", "op_enable", "crossed", "has_trade"), timeout=300 if q else 1500)
        elif nm == "reload_resettv":
            # snapshots after a reset of the traded-volume counter
            book_gen(ck, "x_reload_resettv", cfg=GEN, Ops=["cap", "resettv", "reload"], Prices=[10], Vols=[1, 2], Kinds=["L"], MaxOrders=3,
                     MaxOps=4 if q else 5, need=("op_reload", "op_resettv", "has_trade"), timeout=300 if q else 1500)
        elif nm == "split_modify":
            # requests against orders that were created but not placed yet (modify / cancel before the placement), as a shuffled
            # step can produce them
            book_gen(ck, "x_split_modify", Ops=["create", "place", "modify", "cancel", "cap"], Kinds=["L"], Prices=[10, 11], Vols=[1, 2],
                     ModPrices=[-1, 11], ModVols=["none", "smaller", "larger"], MaxOrders=2 if q else 3, MaxOps=4 if q else 5,
                     need=("op_modify", "unplaced_order", "has_trade"), timeout=300 if q else 1500)
        elif nm == "market_toggle_reload":
            # the trading switch of a multi-asset market across snapshots
            mkt_gen(ck, "x_market_toggle_reload", Ticks=(1, 1), Ops=["cap", "disable", "enable", "reload"], Kinds=["L", "M"], Prices=[10],
                    Vols=[1], MaxOrders=2, MaxOps=4 if q else 5, need=("op_reload", "has_trade"), timeout=300 if q else 1500)
        elif nm == "ties_modify_reload":
            # snapshots of levels whose queue order differs from the order of the ids (an order re-queued by a modification behind a
            # later one, all in one instant), then further tied placements: what is rebuilt on load must continue the queue exactly
            book_gen(ck, "x_ties_modify_reload", Ops=["cap", "modify", "reload"], Dts=[0], Discipline=False, Kinds=["L"], Prices=[10], Vols=[1, 2],
                     ModPrices=[-1, 10], ModVols=["none", "equal"], MaxOrders=3 if q else 4, MaxOps=5 if q else 6,
                     need=("op_modify", "op_reload", "dt0", "has_trade"), timeout=300 if q else 1500)
        elif nm == "edge_prices":
            # both ends of the price range as LIMIT prices: bids resting at price 0 (also what an empty bid side shows, and the price a
            # market sell carries) and asks resting at 2^32 - 1 (also what an empty ask side shows, and the price a market buy
            # carries), with market orders that reach them, cancellations, re-pricings to 0, two published levels, drain probe
            book_gen(ck, "x_edge_prices", cfg=GEN_DRAIN, Ops=["cap", "cancel", "modify"], Tick=1, NLevels=2, Prices=[0, 1, MAXPRICE], ModPrices=[-1, 0],
                     ModVols=["smaller"], Kinds=["L", "M"], MaxOrders=3, MaxOps=3 if q else 4, need=("two_sided", "has_trade", "op_modify"), timeout=300 if q else 1500)
            # ... and several orders queued at such a price in one instant
            book_gen(ck, "x_edge_ties", Ops=["cap", "cancel"], Dts=[0], Discipline=False, Tick=1, NLevels=2, Prices=[0, MAXPRICE], Vols=[1, 2], Kinds=["L", "M"],
                     MaxOrders=3 if q else 4, MaxOps=4 if q else 5, need=("has_trade", "dt0", "cancelled_order"), timeout=300 if q else 1500)
        elif nm == "env_edge_prices":
            # the same through the environments: instructions for orders resting at price 0 / 2^32 - 1, cached level-2 data and records
            env_gen(ck, "x_env_edge_prices", kind="env", seeds=4, StepSize=3, T0=5, NLevels=3, Ops=["new", "cancel", "modify", "step"], Kinds=["L", "M"],
                    Prices=[0, MAXPRICE], Vols=[1, 2], ModPrices=[0], ModVolsAbs=[-1, 1], MaxSubmits=3, MaxBatch=3, MaxSteps=2, MaxOrders=2,
                    need=("has_trade", "has_cancel", "has_modify"), timeout=400 if q else 1800)
            env_gen(ck, "x_menv_edge_prices", kind="menv", seeds=4, Ticks=(1, 1), StepSize=3, NLevels=3, Ops=["new", "cancel", "step"], Kinds=["L"],
                    Prices=[0, MAXPRICE], Vols=[1], MaxSubmits=3, MaxBatch=3, MaxSteps=2, MaxOrders=2, need=("has_cancel",), timeout=400 if q else 1800)
        elif nm == "env_overflow":
            # the book under an environment whose step carries more instructions than the step size has time units: arrival and
            # trade times run past the end of the step, the clock then steps back (the environment does that, not the caller),
            # and orders that arrived "in the future" are cancelled, filled or modified before the clock has caught up
            env_gen(ck, "x_env_overflow", kind="env", seeds=8 if q else 32, StepSize=1, Ops=["new", "cancel", "step"], Kinds=["L", "M"], Prices=[10],
                    Vols=[1, 2], MaxSubmits=4, MaxBatch=2, MaxSteps=2 if q else 3, MaxOrders=4,
                    need=("batch_exceeds_step_size", "has_trade", "multi_step"), timeout=400 if q else 1800)
            env_traces(ck, "x_rand_env_overflow", {"step_sizes": [1, 2, 3], "max_batch": 12, "p_step": 0.1, "nprices": 4}, files=4 if q else 32, runs=3 if q else 6, ops=200)
        elif nm == "big_clock":
            # large-clock regime (DESIGN.md 3.6): an epoch-like clock (1.7 * 10^18) whose successive values differ by 2^33, so that
            # queue times of resting orders differ in their upper 32 bits; several price levels per side, aggressors sweeping them
            book_gen(ck, "x_big_clock", Ops=["cap", "cancel", "modify"], Prices=[10, 11, 12], Vols=[1, 2], Kinds=["L", "M"], ModPrices=[-1, 11],
                     ModVols=["none", "smaller"], MaxOrders=3 if q else 4, MaxOps=4 if q else 5, time_scale=1 << 33, time_offset=1700000000123456789,
                     need=("has_trade", "sweep_two_levels", "op_modify"), timeout=300 if q else 1500)
        elif nm == "long_queue":
            # a touch level that holds ten orders (a size-dependent matching path would be taken), swept exactly by the drain probe's
            # market order for the whole resting volume; both sides
            for side in ("B", "A"):
                book_gen(ck, "x_long_queue_" + side, Ops=["cap"], Sides=[side], Prices=[10], Vols=[1, 2], Kinds=["L"], MaxOrders=10, MaxOps=10,
                         need=(), timeout=300)
        elif nm == "coarse_grid":
            # coarse-grid regime (DESIGN.md 3.6): a tick size of 2 * 10^9 (prices 2, 3 and 4 * 10^9, the middle one off the grid; level walks that leave
            # the 32-bit range after the first step), off-grid creations next to on-grid ones
            book_gen(ck, "x_coarse_grid", cfg=GEN, Ops=["cap", "cancel", "modify"], Tick=2, NLevels=3, Prices=[2, 3, 4], Vols=[1, 2], Kinds=["L", "M"], ModPrices=[-1, 4],
                     ModVols=["none", "smaller"], price_scale=1000000000, MaxOrders=3, MaxOps=4 if q else 5, need=("has_trade", "two_sided", "op_modify", "create_rejected"),
                     timeout=300 if q else 1500)
        elif nm == "big_volumes":
            # large-volume regime (DESIGN.md 3.6): one specification unit of volume is 1.3 * 10^9 in the real book, so single volumes
            # and volume changes exceed 2^31 while per-side totals and the traded volume stay below 2^32 (VolCap = 3 units)
            book_gen(ck, "x_big_volumes", cfg=GEN, Ops=["cap", "cancel", "modify"], Prices=[10, 11], Vols=[1, 2], Kinds=["L", "M"], ModPrices=[-1, 11],
                     ModVols=["smaller", "larger"], MaxOrders=3, MaxOps=4 if q else 5, VolCap=3, vol_scale=1300000000,
                     need=("has_trade", "op_modify", "resting_partially_filled_or_resized"), timeout=300 if q else 1500)
            # volume CHANGES above 2^31 next to another order at the same price (one unit = 10^8: volumes 1 and 30 units, a change of
            # 29 units = 2.9 * 10^9; per-side totals and traded volume stay below 42 units = 4.2 * 10^9 < 2^32): a pure reduction keeps
            # its place, an increase loses it - a later one-unit aggressor shows which order is at the front
            book_gen(ck, "x_big_volume_changes", cfg=GEN, Ops=["cap", "modify"], Prices=[10], Vols=[1, 30], Kinds=["L"], ModPrices=[-1],
                     ModVols=["min", "max", "smaller"], MaxOrders=3 if q else 4, MaxOps=4 if q else 5, VolCap=42, vol_scale=100000000,
                     need=("has_trade", "op_modify"), timeout=300 if q else 1500)
        elif nm == "top_price":
            # the last grid price below 2^32 - 1 for a tick size that does not divide it (tick 2: 4294967294) as a limit price of
            # placements and modifications, next to market orders (which carry 2^32 - 1)
            book_gen(ck, "x_top_price", Ops=["cap", "cancel", "modify"], Tick=2, NLevels=2, Prices=[12, 14] if q else [10, 12, 14], ModPrices=[-1, 14], ModVols=["none", "smaller"],
                     Kinds=["L", "M"], price_offset=high(2, 14), MaxOrders=3, MaxOps=4 if q else 5, need=("has_trade", "op_modify", "two_sided"),
                     timeout=300 if q else 1500)
        else:
            raise ToolError("unknown cross stage " + nm)


def python_view(ck, q, kinds=("book",)):
    """The property as seen through the Python layer: every observable of the book-level properties is also reported by the
    Python classes (tuples from get_orders / get_trades, the scalar getters), so a change in the bindings breaks what a Python
    user sees of the property.  Random call sequences through the compiled extension, validated by TLC against the same trace
    specifications (BookTrace.tla with the Python clauses; PyEnvTrace.tla for the environments)."""
    if "book" in kinds:
        py_traces(ck, "py_view_book", "book", files=2 if q else 16, runs=3 if q else 6, ops=150)
    if "env" in kinds:
        py_traces(ck, "py_view_env", "env", files=2 if q else 16, runs=2 if q else 4, ops=100, engine=True)
    if "numpy" in kinds:
        py_traces(ck, "py_view_numpy", "numpy", files=2 if q else 16, runs=2 if q else 4, ops=100, engine=True)


def inductive(ck, q, n_quick=3, n_thorough=4, bg=True):
    """Unbounded-in-the-numbers half of C01 / C02 / C04 / C12: BookInd.tla's invariant (queues sorted by price then queuing order,
    queues = the active limit orders, never crossed while trading was never off, volumes / statuses, on grid) is inductive for
    every state of <= N orders with prices, volumes and counters ranging over all integers (Apalache); TLC ties BookInd.tla to
    the reference engine BookOps.tla in lock-step (BookIndMC.tla)."""
    ck.mc("mc_ind_lockstep", "BookIndMC", dict(N=3, Tick=1, MaxPrice=MAXPRICE, Prices=[10, 11], Vols=[1, 2], MaxOps=4 if q else 5),
          invariants=["Inv_Agree", "Inv_IndInv"], constraint=None, spec=("INIT MInit", "NEXT MNext"), timeout=300 if q else 1200)
    ck.apalache("apa_base", "BookInd", "ConstInit3", "IndInv", length=0, timeout=300, what="Init => IndInv")
    ck.apalache("apa_hypothesis_is_rich", "BookInd", "ConstInit3", "Sanity_FewQueued", init="IndInit", length=0, timeout=300, expect="Error",
                what="vacuity guard: IndInit admits three queued bids at distinct prices with large volumes (the sanity invariant must be refuted)")
    n = n_quick if q else n_thorough
    (ck.apalache_bg if bg else ck.apalache)("apa_inductive_step", "BookInd", "ConstInit%d" % n, "IndInv", init="IndInit", length=1,
                                            timeout=900 if q else 7200, what="IndInv /\\ Next => IndInv', N = %d orders, Tick in {1, 2, 5}" % n)


def setup():
    core.build_harness()
    core.build_pyext()
    return 0


# ---------------------------------------------------------------------------------------------
def c01(tier, seed):
    ck = Check("C01", tier, seed)
    q = ck.quick
    # the specification itself: declarative priority clauses hold on the operational matching engine
    book_mc(ck, "mc_api", Ops=["cap", "create", "place", "cancel", "event", "settime"], Dts=[0, 1],
            Prices=[10, 11], MaxOrders=3, MaxOps=3 if q else 4, timeout=300 if q else 900)
    # deep random walks of the all-actions model (up to 40 calls, 12 orders, 4 prices x 3 volumes), every clause on every state
    ck.mc_sim("mc_walks", "Book", bc(Ops=["cap", "create", "place", "cancel", "modify", "event", "settime", "enable", "disable", "resettv", "reload"],
                                      Dts=[0, 1], Prices=[10, 11, 12, 13], Vols=[1, 2, 3], ModPrices=[-1, 10, 12], ModVols=MODV, MaxOrders=12, MaxOps=40),
              invariants=ALL_INV, properties=ALL_ACT, num=12 if q else 300, depth=41, timeout=120 if q else 900)
    # every history of create-and-place / cancel over 3 prices x 2 volumes x 2 sides x limit/market
    book_gen(ck, "gen_cap_cancel", Ops=["cap", "cancel"], MaxOrders=3 if q else 4, MaxOps=4 if q else 6,
             need=("has_trade", "sweep_two_levels", "resting_partially_filled_or_resized", "cancelled_order"),
             timeout=300 if q else 1500)
    # the split API (create, place, process_event, set_time) with clock advance 0 or 1, ticks 3 and level count 2
    book_gen(ck, "gen_split_api", Ops=["create", "place", "cancel", "event", "settime"], Dts=[0, 1], Tick=3, NLevels=2,
             Prices=[9, 12], Vols=[1, 2] if q else [1, 2, 3], Kinds=["L", "M"], MaxOrders=2 if q else 3, MaxOps=4 if q else 5,
             need=("has_trade", "unplaced_order"), timeout=300 if q else 1500)
    cross(ck, q, "ties", "ties_deep", "split_modify", "big_volumes", "top_price", "big_clock", "long_queue", "off_modify", "reload_resettv", "env_overflow", "coarse_grid", "edge_prices")
    # long random histories over wide alphabets, recorded from the real code and validated by TLC
    ck.traces_stage("rand", "record_book", {"discipline": True}, files=8 if q else 64, runs=2 if q else 4, ops=300)
    # the same without the clock discipline: half of the queue insertions tie
    ck.traces_stage("rand_ties", "record_book", {"discipline": False, "p_tie": 0.5, "nprices": 6, "audit_every": 25, "w": {"modify": 2}},
                    files=4 if q else 32, runs=2 if q else 4, ops=300)
    python_view(ck, q)
    return ck.finish("model_checking", LEVEL_TEXT,
                     "histories: every path of the bounded generator configs (one TLC state = one history) plus seeded random "
                     "runs; non-trivial = generated histories containing at least one trade + recorded events with trades",
                     ("gen_cap_cancel.has_trade", "gen_split_api.has_trade", "rand.events_with_trades"))


RULE = ("histories: every path of the bounded generator configs (one TLC state = one history, every intermediate state "
        "compared) plus seeded random runs recorded from the real code; non-trivial = ")


def c02(tier, seed):
    ck = Check("C02", tier, seed)
    q = ck.quick
    inv = ["Inv_C02_ViewsAgree", "Inv_C02_ViewsConsistent", "Inv_C02_NotCrossed", "Inv_C12_LevelsAccount", "Inv_C01_QueueSorted"]
    inductive(ck, q)
    book_mc(ck, "mc_views", inv=inv, act=[], Ops=["cap", "cancel", "modify", "disable", "enable"], Dts=[1], NLevels=3,
            ModPrices=[-1, 10, 12], ModVols=MODV, MaxOrders=3, MaxOps=4 if q else 5, timeout=300 if q else 1200)
    # the views as the getters compute them from the incrementally maintained structures (BookImpl.tla) equal the
    # views of the reference engine after every call
    impl_mc(ck, "mc_impl_views", Ops=["cap", "cancel", "modify", "disable", "enable"], Dts=[1], Discipline=True, Tick=2, NLevels=3,
            Prices=[10, 12, 14], ModPrices=[-1, 14], ModVols=["smaller", "larger"], MaxOrders=3, MaxOps=4, timeout=300 if q else 1200)
    # views are part of the projection: every state of every history, levels spanning the alphabet, tick 2
    book_gen(ck, "gen_views", cfg=GEN, Ops=["cap", "cancel", "modify", "disable", "enable"], Tick=2, NLevels=3,
             Prices=[10, 12, 14], ModPrices=[-1, 14], ModVols=["smaller", "larger"], Kinds=["L"] if q else ["L", "M"],
             MaxOrders=3, MaxOps=4 if q else 5, need=("two_sided", "crossed", "resting_partially_filled_or_resized"),
             timeout=300 if q else 1500)
    # the same alphabet at the top of the price range (prices 2^32 - 6 .. 2^32 - 2): key arithmetic (bids keyed by
    # MAX - price), level walks that wrap past the maximum price, the mid-price of two large prices, snapshots
    book_gen(ck, "gen_views_high", cfg=GEN_DRAIN, Ops=["cap", "cancel", "modify", "reload"], Tick=2, NLevels=3,
             Prices=[10, 12, 14], ModPrices=[-1, 10], ModVols=["smaller"], Kinds=["L", "M"], price_offset=high(2, 14),
             MaxOrders=3, MaxOps=3 if q else 5, need=("two_sided", "has_trade"), timeout=300 if q else 1500)
    # limit prices that coincide with a sentinel: bids and asks at price 0 (= "no bid", and the price carried by a market sell)
    book_gen(ck, "gen_views_edge_prices", cfg=GEN_DRAIN, Ops=["cap", "cancel", "modify"], Tick=1, NLevels=2,
             Prices=[0, 1, 2], ModPrices=[-1, 0], ModVols=["smaller"], Kinds=["L", "M"],
             MaxOrders=3, MaxOps=3 if q else 4, need=("two_sided", "has_trade"), timeout=300 if q else 1500)
    book_gen(ck, "gen_views_reload", cfg=GEN, Ops=["cap", "cancel", "reload"], NLevels=1, Prices=[10, 11], Vols=[1, 3],
             MaxOrders=3, MaxOps=4 if q else 5, need=("two_sided", "op_reload"), timeout=300 if q else 1500)
    cross(ck, q, "ties_deep", "ties_modify", "split_modify", "big_volumes", "coarse_grid", "ties", "off_modify", "reload_resettv", "top_price", "big_clock", "long_queue", "env_overflow", "edge_prices")
    # views of books that hold orders at prices off the tick grid.  Such orders exist (modify_order accepts any price: known
    # finding F3 of C12), and C02 speaks of every moment of every book: levels are the tick multiples counted from the touch, an
    # order elsewhere belongs to no level.  The specification runs with its named deviation FollowF3 = TRUE (BookOps.tla), i.e.
    # it accepts the request as the code does; the deviation itself is C12's business and is not reported here.
    book_gen(ck, "x_offgrid_resting", Ops=["cap", "modify"], Tick=2, Prices=[10, 12], Vols=[1, 2], Kinds=["L"], NLevels=3,
             ModPrices=[-1, 10, 11, 13], ModVols=["none", "larger"], MaxOrders=3, MaxOps=4 if q else 5,
             need=("op_modify",), timeout=300 if q else 1500, FollowF3=True, spec_flags=False)
    # every event of random histories: logged views = views recomputed by TLC from the logged order table alone
    prof = {"discipline": True, "audit_every": 1, "p_high_prices": 0.3, "w": {"toggle": 0.6, "reload": 0.4, "modify": 4}}
    ck.traces_stage("rand_views", "record_book", prof, files=8 if q else 64, runs=3 if q else 6, ops=120)
    if not q:
        # a deep book: several hundred orders queued at one price level (level counts and order ids above 255), partial sweeps
        deep = {"discipline": True, "nprices": 2, "p_passive": 0.97, "p_market": 0.02, "audit_every": 400, "levels": [3],
                "w": {"cancel": 0.5, "modify": 0.5, "event": 0.5, "create": 0.5, "place": 0.5, "resettv": 0.1, "settime": 0.1}}
        ck.traces_stage("rand_deep_book", "record_book", deep, files=2, runs=1, ops=1400, timeout=3000)
    ck.assumptions.append("ViewsO (recomputation from the order table alone) is evaluated by TLC on the logged order table at every event (audit_every = 1)")
    python_view(ck, q)
    return ck.finish("model_checking", LEVEL_TEXT, RULE + "two-sided book states",
                     ("gen_views.two_sided", "gen_views_reload.two_sided", "rand_views.two_sided_states"))


def c03(tier, seed):
    ck = Check("C03", tier, seed)
    q = ck.quick
    inv = ["Inv_C03_WellFormed", "Inv_C03_Conservation", "Inv_C03_Counter"]
    act = ["Act_C03_AppendOnly", "Act_C03_Admitted"]
    book_mc(ck, "mc_ledger", inv=inv, act=act, Ops=["cap", "cancel", "modify", "disable", "enable", "resettv"], Dts=[1],
            ModPrices=[-1, 10, 12], ModVols=MODV, MaxOrders=3, MaxOps=4 if q else 5, timeout=300 if q else 1200)
    book_gen(ck, "gen_ledger", cfg=GEN, Ops=["cap", "cancel", "modify", "resettv"], Prices=[10, 11], Vols=[1, 3],
             ModPrices=[-1, 10, 11], ModVols=["smaller", "larger"], MaxOrders=3, MaxOps=4 if q else 5,
             need=("has_trade", "multi_trade", "op_resettv", "op_modify"), timeout=300 if q else 1500)
    cross(ck, q, "reload_resettv", "ties", "off_modify", "big_volumes", "big_clock", "long_queue", "env_overflow", "ties_deep", "split_modify", "top_price", "coarse_grid", "edge_prices")
    prof = {"discipline": True, "audit_every": 10, "w": {"toggle": 0.5, "resettv": 1.5, "modify": 5, "reload": 0.5}}
    ck.traces_stage("rand_ledger", "record_book", prof, files=8 if q else 64, runs=2 if q else 4, ops=300)
    # the ledger of a book that is driven by an environment: partial fills and price-only / volume-only modifications of the same
    # order inside one step, every schedule (what an order has lost other than through the volume modifications the CALLER asked
    # for equals its logged trades - an instruction must reach the book as it was submitted), and long random runs whose every
    # processed instruction is audited by the C03 clauses (EnvTrace.tla)
    env_gen(ck, "gen_env_ledger", kind="env", seeds=8 if q else 32, StepSize=3, Ops=["new", "modify", "step"], Kinds=["L"], Prices=[10, 11],
            Vols=[1, 2], ModPrices=[-1, 10, 11], ModVolsAbs=[-1, 1, 3], MaxSubmits=3 if q else 4, MaxBatch=2, MaxSteps=2, MaxOrders=2,
            need=("has_modify", "has_trade", "schedule_matters"), timeout=400 if q else 1800)
    env_gen(ck, "gen_menv_ledger", kind="menv", seeds=4 if q else 32, Ticks=(1, 1), StepSize=2, Ops=["new", "modify", "step"], Kinds=["L"], Prices=[10, 11],
            Vols=[1, 2], ModPrices=[10, 11], ModVolsAbs=[-1], MaxSubmits=3, MaxBatch=2, MaxSteps=2, MaxOrders=2,
            need=("has_modify", "has_trade"), timeout=400 if q else 1800)
    env_traces(ck, "rand_env_ledger", {"p_modify": 0.35, "nprices": 5, "max_batch": 8, "p_step": 0.15}, files=4 if q else 32, runs=3 if q else 6, ops=160, hook=False)
    python_view(ck, q)
    return ck.finish("model_checking", LEVEL_TEXT, RULE + "histories / events with at least one trade",
                     ("gen_ledger.has_trade", "rand_ledger.events_with_trades"))


def c04(tier, seed):
    ck = Check("C04", tier, seed)
    q = ck.quick
    inv = ["Inv_C04_State"]
    act = ["Act_C04_Transitions", "Act_C04_NoOps"]
    ops = ["cap", "create", "place", "cancel", "modify", "event", "settime"]
    book_mc(ck, "mc_lifecycle", inv=inv, act=act, Ops=ops + ["disable", "enable"], Dts=[0, 1], Prices=[10], Vols=[2] if q else [1, 2],
            ModPrices=[-1, 10], ModVols=MODV, MaxOrders=2, MaxOps=4 if q else 5, timeout=300 if q else 1200)
    # liveness-style sanity under fairness, no state constraint: with cancel requests weakly fair per order, every order that is
    # ever active reaches a terminal status and stays there, and the book quiesces (BookLive.tla)
    ck.mc("mc_liveness", "BookLive", dict(MaxPrice=MAXPRICE, Tick=1, MaxOrders=3 if q else 4, Prices=[10, 11], Vols=[1, 2], Sides=["B", "A"], Kinds=["L", "M"]),
          invariants=(), properties=("Progress", "Final", "Quiesce"), constraint=None, spec=("SPECIFICATION Spec",), timeout=300 if q else 1200)
    # every request against every order in every status (trading on: New/Active/Filled/Cancelled)
    book_gen(ck, "gen_requests", cfg=GEN, Ops=ops, Dts=[1], Prices=[10], Vols=[2] if q else [1, 2], ModPrices=[-1, 10], ModVols=MODV,
             MaxOrders=2, MaxOps=4 if q else 5, need=("cancelled_order", "unplaced_order", "has_trade"), timeout=300 if q else 1500)
    # the same with trading off from the start: rejected market orders, then every request against them
    book_gen(ck, "gen_requests_off", cfg=GEN, Ops=["cap", "place", "cancel", "modify", "event", "enable"], Trading0=False,
             Prices=[10], Vols=[1], ModPrices=[-1, 10], ModVols=["none", "equal", "larger"], MaxOrders=2, MaxOps=4 if q else 5,
             need=("rejected_order",), timeout=300 if q else 1500)
    cross(ck, q, "ties", "ties_modify", "split_modify", "top_price", "big_clock", "env_overflow", "ties_deep", "off_modify", "reload_resettv", "big_volumes", "long_queue", "coarse_grid", "edge_prices")
    # the same lifecycle through a two-asset market (arrival and end times under the shared clock, set_time between calls)
    mkt_gen(ck, "gen_market_lifecycle", Ticks=(1, 1), Ops=["cap", "create", "place", "cancel", "settime"], Kinds=["L", "M"], Prices=[10], Vols=[1], MaxOrders=2,
            MaxOps=4, need=("ops_on_two_assets", "has_trade"), timeout=300 if q else 1500)
    prof = {"discipline": True, "p_redundant": 0.3, "audit_every": 25, "w": {"toggle": 0.4, "settime": 1.5, "place": 4, "create": 3}}
    ck.traces_stage("rand_redundant", "record_book", prof, files=8 if q else 64, runs=2 if q else 4, ops=300)
    python_view(ck, q)
    return ck.finish("model_checking", LEVEL_TEXT, RULE + "recorded redundant requests + generated histories with a cancelled order",
                     ("gen_requests.cancelled_order", "gen_requests_off.rejected_order", "rand_redundant.redundant_requests"))


def c05(tier, seed):
    ck = Check("C05", tier, seed)
    q = ck.quick
    # the specification (positional FIFO queue) keeps every clause without the clock discipline
    book_mc(ck, "mc_ties", Ops=["cap", "cancel", "modify"], Dts=[0], Discipline=False, Prices=[10, 11], ModPrices=[-1, 10, 11],
            ModVols=["none", "smaller", "larger"], MaxOrders=3, MaxOps=4 if q else 5, timeout=300 if q else 1200)
    # the repaired keying of the code (key time = max(clock, last key time at that price + 1)) refines the reference engine
    # when nothing advances the clock; the three incremental structures stay consistent
    impl_mc(ck, "mc_impl_ties", Ops=["cap", "cancel", "modify", "reload"], Dts=[0] if q else [0, 1], Discipline=False, Prices=[10, 11],
            ModPrices=[-1, 10, 11], ModVols=["none", "smaller", "equal", "larger"], MaxOrders=3, MaxOps=4, timeout=300 if q else 1200)
    # C01 alphabet, the clock never advances: every queue insertion ties
    book_gen(ck, "gen_ties_cap_cancel", Ops=["cap", "cancel"], Dts=[0], Discipline=False, MaxOrders=3 if q else 4, MaxOps=4 if q else 5,
             need=("has_trade", "dt0", "resting_partially_filled_or_resized"), timeout=300 if q else 1500)
    # C06 alphabet with clock advance 0 or 1 (re-queuing modifications tie with placements)
    book_gen(ck, "gen_ties_modify", Ops=["cap", "modify"], Dts=[0, 1], Discipline=False, Kinds=["L"], Prices=[10, 11], Vols=[1, 2],
             ModPrices=[-1, 10, 11], ModVols=["none", "smaller", "equal"], MaxOrders=3, MaxOps=4,
             need=("op_modify", "dt0", "has_trade"), timeout=300 if q else 1500)
    # split API, snapshots and trading toggles on tie histories
    book_gen(ck, "gen_ties_api_reload", Ops=["create", "place", "event", "cancel", "reload", "disable", "enable"], Dts=[0], Discipline=False,
             Kinds=["L"], Prices=[10], Vols=[1, 2], MaxOrders=3, MaxOps=5 if q else 6, trunc_every=0,
             need=("op_reload", "dt0", "has_trade"), timeout=300 if q else 1500)
    # a simulation step that carries more instructions than the step size has time units: intra-step timestamps
    # run into the next step and the clock steps back at the end of the step
    env_gen(ck, "gen_env_overflow", kind="env", seeds=8 if q else 32, StepSize=1, Ops=["new", "cancel", "step"], Kinds=["L", "M"], Prices=[10],
            Vols=[1, 2], MaxSubmits=4, MaxBatch=2, MaxSteps=2 if q else 3, MaxOrders=4,
            need=("batch_exceeds_step_size", "has_trade", "multi_step"), timeout=400 if q else 1800)
    if not q:
        env_gen(ck, "gen_env_overflow3", kind="env", seeds=32, StepSize=2, Ops=["new", "cancel", "step"], Kinds=["L"], Prices=[10],
                Vols=[1], MaxSubmits=5, MaxBatch=3, MaxSteps=2, MaxOrders=5,
                need=("batch_exceeds_step_size", "has_trade", "multi_step"), timeout=1800)
    # random runs whose batches exceed the step size (step sizes 1..3, batches up to 12): timestamps run into the next step
    env_traces(ck, "rand_env_overflow", {"step_sizes": [1, 2, 3], "max_batch": 12, "p_step": 0.1, "nprices": 4}, files=6 if q else 48, runs=3 if q else 6, ops=200)
    env_traces(ck, "rand_env_overflow_inferred", {"step_sizes": [1, 2], "max_batch": 6, "p_step": 0.2, "nprices": 4}, files=4 if q else 32, runs=3 if q else 6,
               ops=120, hook=False)
    cross(ck, q, "ties_modify_reload", "edge_prices")
    prof = {"discipline": False, "p_tie": 0.5, "nprices": 6, "audit_every": 25, "w": {"modify": 4, "reload": 0.5, "toggle": 0.3}}
    ck.traces_stage("rand_ties", "record_book", prof, files=8 if q else 64, runs=2 if q else 4, ops=300)
    python_view(ck, q)
    return ck.finish("model_checking", LEVEL_TEXT, RULE + "queueing calls made without advancing the clock",
                     ("gen_ties_cap_cancel.dt0", "gen_ties_modify.dt0", "gen_ties_api_reload.dt0", "rand_ties.dt0_queueing_calls"))


def c06(tier, seed):
    ck = Check("C06", tier, seed)
    q = ck.quick
    book_mc(ck, "mc_modify", inv=["Inv_C01_QueueSorted", "Inv_C02_ViewsAgree", "Inv_C03_Conservation"],
            act=["Act_C06_Modify", "Act_C01_TradesTakeHead", "Act_C01_RestsLast", "Act_C04_NoOps"],
            Ops=["cap", "modify", "cancel"], Dts=[1], ModPrices=[-1, 10, 11, 12], ModVols=MODV, MaxOrders=3,
            MaxOps=4 if q else 5, timeout=300 if q else 1200)
    # every modify shape on every order in every status of every book with <= 3 orders; drain probe reveals the queue
    book_gen(ck, "gen_modify", Ops=["cap", "modify"], Kinds=["L"], ModPrices=[-1, 10, 11, 12], ModVols=MODV,
             MaxOrders=3, MaxOps=4 if q else 5, need=("op_modify", "has_trade", "resting_partially_filled_or_resized"),
             timeout=300 if q else 1500)
    book_gen(ck, "gen_modify_cancel_mkt", Ops=["cap", "modify", "cancel"], Prices=[10, 11], ModPrices=[-1, 10, 11],
             ModVols=["smaller", "larger"] if q else MODV, MaxOrders=3 if q else 4, MaxOps=4 if q else 5, need=("op_modify", "cancelled_order"), timeout=300 if q else 1500)
    cross(ck, q, "ties_modify", "off_modify", "split_modify", "big_volumes", "top_price", "ties", "ties_deep", "reload_resettv", "big_clock", "long_queue", "coarse_grid", "env_overflow", "edge_prices")
    # modification through the environments: a queued modify instruction is applied when the step processes it, to the order
    # as it is THEN ("omitted fields keep their current values" - current at application, e.g. after a partial fill earlier
    # in the same step); partial fills and price-only / volume-only modifies in one batch, every schedule
    env_gen(ck, "gen_env_modify_partial", kind="env", seeds=8 if q else 32, StepSize=3, Ops=["new", "modify", "step"], Kinds=["L"], Prices=[10, 11],
            Vols=[1, 2], ModPrices=[-1, 10, 11], ModVolsAbs=[-1, 1, 3], MaxSubmits=3 if q else 4, MaxBatch=2, MaxSteps=2, MaxOrders=2,
            need=("has_modify", "has_trade", "schedule_matters"), timeout=400 if q else 1800)
    env_gen(ck, "gen_menv_modify_partial", kind="menv", seeds=4 if q else 32, Ticks=(1, 1), StepSize=2, Ops=["new", "modify", "step"], Kinds=["L"], Prices=[10, 11],
            Vols=[1, 2], ModPrices=[10, 11], ModVolsAbs=[-1], MaxSubmits=3, MaxBatch=2, MaxSteps=2, MaxOrders=2,
            need=("has_modify", "has_trade"), timeout=400 if q else 1800)
    env_traces(ck, "rand_env_modify", {"p_modify": 0.35, "nprices": 5, "max_batch": 8, "p_step": 0.15}, files=4 if q else 32, runs=3 if q else 6, ops=160, hook=False)
    prof = {"discipline": True, "audit_every": 25, "nprices": 8, "w": {"modify": 8, "event": 4, "cancel": 2}}
    ck.traces_stage("rand_modify", "record_book", prof, files=8 if q else 64, runs=2 if q else 4, ops=300)
    prof = {"discipline": False, "p_tie": 0.5, "audit_every": 25, "nprices": 5, "w": {"modify": 8, "toggle": 0.5}}
    ck.traces_stage("rand_modify_ties", "record_book", prof, files=4 if q else 32, runs=2 if q else 4, ops=300)
    python_view(ck, q)
    return ck.finish("model_checking", LEVEL_TEXT, RULE + "generated histories containing a modify + recorded modify calls",
                     ("gen_modify.op_modify", "gen_modify_cancel_mkt.op_modify", "rand_modify.op_modify"))


def c07(tier, seed):
    ck = Check("C07", tier, seed)
    q = ck.quick
    # reload (4 modes) at every position of every history + every continuation: original and reloaded copies
    # are both driven on and must both equal the specification's state (for which reload is the identity)
    book_gen(ck, "gen_reload", Ops=["cap", "cancel", "modify", "reload"], Prices=[10, 11], Vols=[1, 2], Kinds=["L", "M"],
             ModPrices=[-1, 11], ModVols=["smaller", "larger"], MaxOrders=3, MaxOps=4, trunc_every=40 if q else 4,
             need=("op_reload", "has_trade", "cancelled_order", "resting_partially_filled_or_resized"), timeout=300 if q else 1500)
    # the traded-volume counter after a reset is part of the snapshot (it is not derivable from the trade log)
    book_gen(ck, "gen_reload_resettv", cfg=GEN, Ops=["cap", "resettv", "reload"], Prices=[10], Vols=[1, 2], Kinds=["L"], MaxOrders=3, MaxOps=4 if q else 5,
             need=("op_reload", "op_resettv", "has_trade"), timeout=300 if q else 1500)
    book_gen(ck, "gen_reload_off_new", Ops=["create", "cap", "place", "disable", "enable", "reload"], Prices=[10], Vols=[1, 2],
             NLevels=1 if q else 7, MaxOrders=2, MaxOps=4 if q else 5, trunc_every=40 if q else 4,
             need=("op_reload", "rejected_order", "unplaced_order", "trading_off"), timeout=300 if q else 1500)
    # snapshots of books whose tick size does not divide 2^32 - 1 (tick 2) with market orders in their history (a buy market order
    # carries the price 2^32 - 1, which is not on that grid) and limit orders at the last grid price below it
    book_gen(ck, "gen_reload_tick2_top", Ops=["cap", "cancel", "reload"], Tick=2, NLevels=2, Prices=[12, 14], Vols=[1, 2], Kinds=["L", "M"],
             price_offset=high(2, 14), MaxOrders=3, MaxOps=4, trunc_every=40 if q else 4, need=("op_reload", "has_trade", "cancelled_order"), timeout=300 if q else 1500)
    # snapshots at an epoch-like clock (1.7 * 10^18 + odd: no such time is representable in a double), one time unit per call
    book_gen(ck, "gen_reload_epoch", Ops=["cap", "cancel", "reload"], Prices=[10, 11], Vols=[1, 2], Kinds=["L", "M"], time_offset=1700000000123456789,
             MaxOrders=3, MaxOps=4, need=("op_reload", "has_trade", "cancelled_order"), timeout=300 if q else 1500)
    # snapshots of levels whose queue order differs from the order of the ids (re-queuing modifications, equal timestamps), then
    # further placements at the same instant: what a load rebuilds must continue the queue exactly (C05 extends C07 to such histories)
    cross(ck, q, "ties_modify_reload")
    prof = {"discipline": False, "p_tie": 0.5, "nprices": 4, "audit_every": 25, "w": {"modify": 5, "reload": 3, "toggle": 0.3}}
    ck.traces_stage("rand_reload_ties", "record_book", prof, files=4 if q else 32, runs=2 if q else 4, ops=300)
    # the restore path (both sides rebuilt from the Active entries' stored keys) in the implementation-shaped model
    impl_mc(ck, "mc_impl_reload", Ops=["cap", "cancel", "modify", "reload"], Dts=[1], Discipline=True, Prices=[10, 11], Vols=[1, 2],
            ModPrices=[-1, 11], ModVols=["smaller", "larger"], MaxOrders=3, MaxOps=4 if q else 5, timeout=300 if q else 1200)
    # multi-asset markets: snapshot reloads (string / file, compact / pretty) every ~10 calls of long random histories
    mkt_traces(ck, "rand_market_reload", files=4 if q else 32, runs=3 if q else 6, ops=150, profile={"p_reload": 0.1})
    prof = {"discipline": True, "audit_every": 25, "w": {"reload": 3, "toggle": 0.4, "modify": 3}}
    ck.traces_stage("rand_reload", "record_book", prof, files=8 if q else 64, runs=2 if q else 4, ops=300)
    python_view(ck, q)
    return ck.finish("model_checking", LEVEL_TEXT, RULE + "generated histories containing a reload + recorded reload calls",
                     ("gen_reload.op_reload", "gen_reload_off_new.op_reload", "rand_reload.op_reload"))


def c12(tier, seed):
    ck = Check("C12", tier, seed)
    q = ck.quick
    book_mc(ck, "mc_grid", inv=["Inv_C12_OnGrid", "Inv_C12_LevelsAccount"], act=["Act_C12_RejectedCreate", "Act_C04_NoOps"],
            Ops=["cap", "create", "place", "modify", "cancel"], Tick=2, Dts=[1], Prices=[10, 11, 12], Vols=[1],
            ModPrices=[-1, 10, 11, 12], ModVols=["none", "larger"], MaxOrders=3, MaxOps=4 if q else 5, timeout=300 if q else 1200)
    # on- and off-grid creations (tick 3), both sides, both creation calls
    book_gen(ck, "gen_create_grid", cfg=GEN, Ops=["cap", "create", "place", "cancel"], Tick=3, Prices=[9, 10, 11, 12], Vols=[1],
             MaxOrders=3, MaxOps=4 if q else 5, need=("create_rejected", "has_trade"), timeout=300 if q else 1500)
    # on- and off-grid modifications (tick 2).  Known finding F3 lives here: the specification runs with its named deviation
    # FollowF3 = TRUE (an off-grid modify price is accepted, as the code does), every history must still be reproduced exactly
    # (drain probe included), and TLC flags the histories on which its own state breaks C12_OnGrid
    book_gen(ck, "gen_modify_grid", Ops=["cap", "modify"], Tick=2, Prices=[10, 12], Vols=[1, 2], Kinds=["L"],
             ModPrices=[-1, 10, 11, 12, 13], ModVols=["none", "larger"], MaxOrders=2 if q else 3, MaxOps=4 if q else 5,
             need=("op_modify",), timeout=300 if q else 1500, FollowF3=True)
    # the largest representable price as an explicit limit (2^32 - 1 is off the grid of tick 2)
    book_gen(ck, "gen_create_max", cfg=GEN, Ops=["cap", "create", "place"], Tick=2, Prices=[10, MAXPRICE], Vols=[1], MaxOrders=3,
             MaxOps=3 if q else 4, need=("create_rejected",), timeout=300)
    # ... and ON the grid of tick 3 (3 divides 2^32 - 1): such a creation is accepted, on both sides (so is price 0)
    book_gen(ck, "gen_create_max_tick3", cfg=GEN, Ops=["cap", "create", "place"], Tick=3, Prices=[0, 9, MAXPRICE], Vols=[1], MaxOrders=3,
             MaxOps=3 if q else 4, need=("has_trade",), timeout=300)
    cross(ck, q, "coarse_grid", "ties", "ties_modify", "off_modify", "split_modify", "top_price", "big_volumes", "edge_prices")
    # the ends of the price range: the lowest grid prices (levels reaching price 0, tick 2, four published levels) and
    # the grid points just below the maximum price (high-price regime, DESIGN.md 3.6): the per-level data accounts for all resting volume
    book_gen(ck, "gen_levels_low", cfg=GEN, Ops=["cap", "cancel"], Tick=2, NLevels=4, Prices=[0, 2, 6], Vols=[1, 2], Kinds=["L"],
             MaxOrders=3, MaxOps=3 if q else 4, need=("two_sided",), timeout=300)
    book_gen(ck, "gen_levels_high", cfg=GEN, Ops=["cap", "cancel"], Tick=3, NLevels=4, Prices=[3, 9, 12], Vols=[1, 2], Kinds=["L"],
             price_offset=high(3, 12), MaxOrders=3, MaxOps=3 if q else 4, need=("two_sided",), timeout=300)
    # through the multi-asset market (per-asset tick sizes) and through the environments (queued creations)
    mkt_gen(ck, "gen_market_grid", Ticks=(2, 3), Ops=["cap", "create", "place", "cancel"], Kinds=["L"], Prices=[9, 10, 12], Vols=[1],
            MaxOrders=2, MaxOps=3 if q else 4, need=("create_rejected", "ops_on_two_assets"), timeout=300 if q else 1500)
    env_gen(ck, "gen_env_grid", kind="env", seeds=4, Ticks=(2,), Ops=["new", "cancel", "step"], Kinds=["L"], Prices=[10, 11], Vols=[1],
            MaxSubmits=4, MaxBatch=3, MaxSteps=2, MaxOrders=3, need=("create_rejected", "has_trade", "has_cancel"), timeout=300 if q else 1500)
    env_gen(ck, "gen_menv_grid", kind="menv", seeds=4, Ticks=(2, 3), Ops=["new", "step"], Kinds=["L"], Prices=[9, 10], Vols=[1],
            MaxSubmits=3, MaxBatch=3, MaxSteps=2, MaxOrders=2, need=("create_rejected",), timeout=300 if q else 1500)
    # queued modify instructions with arbitrary new prices (known finding F3 lives here)
    env_gen(ck, "gen_env_grid_modify", kind="env", seeds=2, Ticks=(2,), Ops=["new", "modify", "step"], Kinds=["L"], Prices=[10], Vols=[1],
            ModPrices=[12, 13], ModVolsAbs=[-1], MaxSubmits=3, MaxBatch=3, MaxSteps=2, MaxOrders=2, need=("has_modify",), timeout=300, FollowF3=True)
    env_traces(ck, "rand_env_grid", {"p_offgrid": 0.3, "ticks": [2, 3, 4, 5, 7, 10], "max_batch": 10, "p_step": 0.12}, files=6 if q else 48, runs=3 if q else 6, ops=200)
    prof = {"discipline": True, "audit_every": 5, "p_offgrid": 0.3, "p_high_prices": 0.3, "ticks": [2, 3, 4, 5, 6, 7, 8, 9, 10], "w": {"modify": 4, "create": 4}}
    ck.traces_stage("rand_grid", "record_book", prof, files=8 if q else 64, runs=2 if q else 4, ops=300)
    # arbitrary new prices in modify requests (known finding F3 lives here)
    prof = dict(prof, p_offgrid_modify=0.2)
    ck.traces_stage("rand_grid_modify", "record_book", prof, files=4 if q else 16, runs=2, ops=300, consts={"MaxPrice": MAXPRICE, "FollowF3": True})
    python_view(ck, q)
    # the grid through the numpy environment (tick 2): on-grid rows are queued whatever the unused fields of the other rows
    # of the batch hold, off-grid new-order rows raise ValueError
    py_env_gen(ck, "py_numpy_grid", mode="numpy", seeds=2 if q else 4, Ticks=(2,), StepSize=4, Ops=["new", "cancel", "step"], Kinds=["L"], Prices=[10, 11, 12], Vols=[1],
               MaxSubmits=3 if q else 4, MaxBatch=3, MaxSteps=2, MaxOrders=3, need=("value_error", "has_trade", "has_cancel"), timeout=400 if q else 1800)
    return ck.finish("model_checking", LEVEL_TEXT, RULE + "generated histories with a rejected creation + recorded rejected creations",
                     ("gen_create_grid.create_rejected", "rand_grid.rejected_creations"))


def c13(tier, seed):
    ck = Check("C13", tier, seed)
    q = ck.quick
    book_mc(ck, "mc_toggle", inv=["Inv_C02_ViewsAgree", "Inv_C04_State"],
            act=["Act_C13_NoTradesOff", "Act_C13_MarketRejected", "Act_C13_ToggleStutters", "Act_C01_Exhaustive", "Act_C01_TradesTakeHead"],
            Ops=["cap", "modify", "cancel", "disable", "enable"], Dts=[1], Prices=[10, 11], ModPrices=[-1, 10, 11], ModVols=["none", "larger"],
            MaxOrders=3, MaxOps=4 if q else 5, timeout=300 if q else 1200)
    book_gen(ck, "gen_toggle", Ops=["cap", "modify", "disable", "enable"], Prices=[10, 11], Vols=[1, 2], ModPrices=[-1, 10, 11],
             ModVols=["none"], MaxOrders=3, MaxOps=4 if q else 5, need=("trading_off", "crossed", "rejected_order", "has_trade"),
             timeout=300 if q else 1500)
    book_gen(ck, "gen_toggle_off0", Ops=["cap", "cancel", "enable", "disable"], Trading0=False, Prices=[10, 11, 12], Vols=[1, 2],
             MaxOrders=3, MaxOps=4 if q else 5, need=("crossed", "has_trade"), timeout=300 if q else 1500)
    # the last grid price below 2^32 - 1 (tick 2) as a limit price while trading is disabled: such a bid rests, it is not a
    # market order (which carries 2^32 - 1 and is rejected)
    book_gen(ck, "gen_toggle_top_price", Ops=["cap", "disable", "enable"], Tick=2, NLevels=2, Prices=[12, 14], Vols=[1, 2], Kinds=["L", "M"],
             price_offset=high(2, 14), MaxOrders=3, MaxOps=4 if q else 5, need=("trading_off", "rejected_order", "has_trade"), timeout=300 if q else 1500)
    # market and environment level
    mkt_gen(ck, "gen_market_toggle", Ticks=(1, 1), Ops=["cap", "modify", "disable", "enable"], Kinds=["L", "M"], Prices=[10, 11], Vols=[1],
            ModPrices=[10, 11], ModVolsAbs=[-1], MaxOrders=2, MaxOps=4, need=("trading_toggled", "has_trade"), timeout=300 if q else 1500)
    cross(ck, q, "market_toggle_reload", "off_modify", "ties", "split_modify", "top_price", "big_volumes", "big_clock", "edge_prices")
    # snapshots of books with trading off / on, then the switch
    book_gen(ck, "gen_toggle_reload", Ops=["cap", "disable", "enable", "reload"], Prices=[10], Vols=[1], Kinds=["L", "M"], MaxOrders=2,
             MaxOps=4 if q else 5, need=("op_reload", "trading_off", "has_trade", "rejected_order"), timeout=300 if q else 1500)
    env_gen(ck, "gen_env_toggle", kind="env", seeds=4 if q else 16, Ops=["new", "modify", "step", "disable", "enable"], Kinds=["L", "M"],
            Prices=[10, 11], Vols=[1], ModPrices=[10, 11], ModVolsAbs=[-1], MaxSubmits=3, MaxBatch=2, MaxSteps=2, MaxOrders=2,
            need=("trading_toggled", "has_trade", "has_modify"), timeout=300 if q else 1500)
    env_traces(ck, "rand_env_toggle", {"p_toggle": 0.12, "p_market": 0.3, "p_modify": 0.25, "nprices": 5, "max_batch": 10, "p_step": 0.12}, files=6 if q else 48,
               runs=3 if q else 6, ops=200)
    prof = {"discipline": True, "audit_every": 25, "nprices": 6, "trading0": [True, False], "w": {"toggle": 2.5, "modify": 4}}
    ck.traces_stage("rand_toggle", "record_book", prof, files=8 if q else 64, runs=2 if q else 4, ops=300)
    python_view(ck, q)
    return ck.finish("model_checking", LEVEL_TEXT, RULE + "generated histories ending with trading off / recorded crossed states",
                     ("gen_toggle.trading_off", "gen_toggle_off0.crossed", "rand_toggle.crossed_states"))


# ---------------------------------------------------------------------------------------------
# environments and markets
ENV_GEN = ("INIT GInit", "NEXT GNext", "INVARIANT Emit", "INVARIANT Inv_C10_L2AsOfLastStep", "INVARIANT Inv_C11_Records",
           "INVARIANT Inv_C14_SharedClock")


def ec(**kw):
    c = dict(MaxPrice=MAXPRICE, Ticks=(1,), StepSize=10, T0=0, NLevels=2, Trading0=True, Ops=["new", "cancel", "step"],
             Sides=["B", "A"], Kinds=["L", "M"], Prices=[10, 11], Vols=[2], Traders=[3], ModPrices=[-1], ModVolsAbs=[-1],
             MaxSubmits=3, MaxBatch=3, MaxSteps=2, MaxOrders=3)
    c.update(kw)
    return c


def env_gen(ck, name, kind="env", seeds=8, need=(), timeout=600, workers=12, time_offset=0, **kw):
    c = ec(**kw)
    rargs = (["--time-offset", time_offset] if time_offset else []) + ["--kind", kind, "--levels", c["NLevels"], "--ticks", ",".join(str(t) for t in c["Ticks"]), "--step", c["StepSize"],
             "--trading", "true" if c["Trading0"] else "false", "--seeds", seeds, "--base-seed", ck.seed, "--t0", c["T0"]]
    return ck.gen(name, "EnvGen", c, "replay_env", rargs, cfg=ENV_GEN, need=need, timeout=timeout, workers=workers)


def mc_(**kw):
    c = dict(MaxPrice=MAXPRICE, Ticks=(1, 2), NLevels=2, Trading0=True, Ops=["cap", "cancel"], Sides=["B", "A"], Kinds=["L", "M"],
             Prices=[10, 12], Vols=[2], Traders=[3], ModPrices=[-1], ModVolsAbs=[-1], MaxOrders=2, MaxOps=4)
    c.update(kw)
    return c


MKT_GEN = ("INIT GInit", "NEXT GNext", "INVARIANT Emit", "INVARIANT Inv_C14_SharedClock", "PROPERTY Act_C14_Independent")


def mkt_gen(ck, name, need=(), timeout=600, workers=12, trunc_every=0, **kw):
    c = mc_(**kw)
    rargs = ["--levels", c["NLevels"], "--ticks", ",".join(str(t) for t in c["Ticks"]),
             "--trading", "true" if c["Trading0"] else "false", "--trunc-every", trunc_every]
    return ck.gen(name, "MarketGen", c, "replay_market", rargs, cfg=MKT_GEN, need=need, timeout=timeout, workers=workers)


def env_traces(ck, name, profile, files, runs, ops, hook=True, timeout=600):
    """record-validate for Env / MarketEnv: long random runs recorded from the real environments, validated by TLC against
    EnvTrace.tla - with the schedule the hook reported (linear) or hook-free by schedule inference."""
    ck.traces_stage(name, "record_env", dict(profile, hook=hook), files=files, runs=runs, ops=ops, trace_spec="EnvTrace",
                    consts={"MaxPrice": MAXPRICE, "UseHook": hook}, view="View", timeout=timeout)


def mkt_traces(ck, name, files, runs, ops, profile=None, timeout=600):
    """record-validate for direct operations on Market<1..4 assets>: EnvTrace.tla market events."""
    ck.traces_stage(name, "record_market", profile or {}, files=files, runs=runs, ops=ops, trace_spec="EnvTrace",
                    consts={"MaxPrice": MAXPRICE, "UseHook": True}, view="View", timeout=timeout)


def sim_traces(ck, name, files, runs, steps, profile=None, timeout=900):
    """Complete simulations recorded from inside the real runners (recording agent set), validated by TLC against SimTrace.tla:
    loop structure, every step (MarketOps), every submission (C10), every member's instructions against the agent relations with
    the observation derived by TLC from the specification state."""
    ck.traces_stage(name, "record_sim", profile or {}, files=files, runs=runs, ops=steps, trace_spec="SimTrace",
                    consts={"MaxPrice": MAXPRICE, "UseHook": True}, spec="TSpecSim", report="SReport", timeout=timeout)


SIM_INV = ["Inv_OneLiveOrderPerAgent", "Inv_OrdersAsConfigured", "Inv_SlotsOwn", "Inv_RoundShape", "Inv_OtherAssetsUntouched", "Inv_BookClauses"]


def sim_outcomes(ck, name, seeds, timeout=900, **kw):
    """Outcome sets at the level of a complete simulation (Sim.tla): TLC checks the simulation-level invariants on every
    reachable state of the runner loop over a set of random agents and prints every reachable state as an allowed outcome of a
    simulation of k rounds; the real public runner with the real agents (through a derived agent set) is run for k = 1..NSteps
    under `seeds` seeds each and every real outcome must be one of them.  No hook, no steering of the generator; the share of the
    allowed outcomes the code produced is reported (and must not be negligible: the specification is not vacuously permissive)."""
    import time
    if ck.skip(name):
        return
    core.build_harness()
    c = dict(MaxPrice=MAXPRICE, Tick=1, StepSize=100, T0=0, NLevels=1, NAgents=2, TickLo=10, TickHi=12, VolLo=1, VolHi=2, Rate="mid", NSteps=2, Assets=1, Asset=0)
    c.update(kw)
    t0 = time.time()
    tl, text = core.tlc_check("%s_%s" % (ck.prop, name), "Sim", c, ["INIT SInit", "NEXT SNext", "INVARIANT EmitOutcome"] + ["INVARIANT " + i for i in SIM_INV],
                              workers=8, timeout=timeout)
    if not tl["ok"]:
        bad = [i for i in SIM_INV if ("Invariant %s is violated" % i) in text]
        raise ToolError("%s: model checking of Sim.tla failed%s:\n%s" % (name, (" (invariant %s does not hold on the MODEL: specification error)" % bad[0]) if bad else "", text[-2500:]))
    d = os.path.join(core.WORK, "traces", "%s_%s" % (ck.prop, name))
    os.makedirs(d, exist_ok=True)
    af = os.path.join(d, "allowed.txt")
    with open(af, "w") as f:
        f.write("\n".join(l for l in text.splitlines() if l.startswith('<<"OUT"')) + "\n")
    rate = {"zero": 0.0, "mid": 0.5, "one": 1.0}[c["Rate"]]
    cfg = {"tick": c["Tick"], "step": c["StepSize"], "t0": c["T0"], "n_agents": c["NAgents"], "tick_lo": c["TickLo"], "tick_hi": c["TickHi"], "vol_lo": c["VolLo"],
           "vol_hi": c["VolHi"], "rate": rate, "n_steps": c["NSteps"], "seeds": seeds, "base_seed": ck.seed, "assets": c["Assets"], "asset": c["Asset"]}
    r = subprocess.run([os.path.join(core.BIN, "sim_outcomes"), "--allowed", af, "--cfg", json.dumps(cfg)], text=True, capture_output=True,
                       env=dict(os.environ, VERIF_WORK=core.WORK), timeout=timeout)
    if r.returncode != 0:
        raise ToolError("%s: sim_outcomes failed: %s" % (name, r.stderr[-1500:]))
    summ = json.loads(r.stdout.strip().splitlines()[-1])
    for mm in summ["mismatches"]:
        ck.violation(name, mm["what"], dict(mm, kind="sim_outcome", consts=c))
    if summ["allowed"] == 0 or (not summ["n_mismatch"] and summ["seen"] * 4 < summ["allowed"]):
        raise ToolError("%s: vacuous - the real simulations produced %d of the %d outcomes the specification allows" % (name, summ["seen"], summ["allowed"]))
    ck.states += tl["distinct"]
    ck.transitions += tl["generated"]
    ck.traces += summ["runs"]
    ck.features[name + ".allowed_outcomes"] = summ["allowed"]
    ck.features[name + ".allowed_outcomes_produced_by_the_code"] = summ["seen"]
    ck.stages.append({"stage": name, "kind": "simulation-level outcome sets (Sim.tla): model checking + membership of real outcomes", "constants": c, "tlc_distinct_states": tl["distinct"],
                      "simulation_invariants_checked": SIM_INV, "real_simulations": summ["runs"], "allowed_outcomes_per_rounds": summ["allowed_per_k"],
                      "produced_by_the_code_per_rounds": summ["seen_per_k"], "mismatches": summ["n_mismatch"], "wall_s": round(time.time() - t0, 1)})
    if os.path.exists(af):
        os.remove(af)
    log("[%s] Sim.tla: %d states, %d simulation invariants hold; %d real simulations, %d outside the %d allowed outcomes; the code produced %d of them (%.1fs)" % (
        name, tl["distinct"], len(SIM_INV), summ["runs"], summ["n_mismatch"], summ["allowed"], summ["seen"], time.time() - t0))


ENV_RULE = ("paths: every sequence of submissions / steps / toggles of the bounded generator configs; for each path TLC emits the "
            "complete set of (schedule, outcome) pairs the specification allows and the real environment is run on it under several "
            "seeds (outcome must be a member; must equal the outcome of the schedule reported by the hook); non-trivial = ")


def c08(tier, seed):
    ck = Check("C08", tier, seed)
    q = ck.quick
    s = 8 if q else 48
    # single-asset Env: new limit/market orders and cancels (also of orders created in the same batch)
    # (step size = largest batch, so full batches occur: "batch sizes up to the step size")
    env_gen(ck, "gen_env_new_cancel", kind="env", seeds=s, StepSize=3 if q else 4, MaxSubmits=4 if q else 5, MaxBatch=3 if q else 4, MaxSteps=2,
            need=("schedule_matters", "has_trade", "multi_step", "has_cancel"), timeout=400 if q else 1800)
    # modifies (several instructions for one order, orders modified in the step that creates them)
    # (start time 1996: not a multiple of the step size)
    env_gen(ck, "gen_env_modify", kind="env", seeds=s, StepSize=3, T0=1996, Ops=["new", "modify", "step"], Kinds=["L"], Vols=[2], ModPrices=[-1, 10, 11],
            ModVolsAbs=[-1, 1, 3], MaxSubmits=3 if q else 4, MaxBatch=3, MaxSteps=2 if q else 3, MaxOrders=2,
            need=("schedule_matters", "has_modify", "has_trade"), timeout=400 if q else 1800)
    # multi-asset environment, trading toggled
    env_gen(ck, "gen_menv_full_batch", kind="menv", seeds=s, Ticks=(1, 1), StepSize=2, Ops=["new", "cancel", "modify", "step"], Kinds=["L", "M"],
            Prices=[10], ModPrices=[-1], ModVolsAbs=[1], MaxSubmits=4, MaxBatch=2, MaxSteps=2 if q else 3, MaxOrders=2,
            need=("schedule_matters", "has_trade", "multi_step"), timeout=400 if q else 1800)
    env_gen(ck, "gen_menv", kind="menv", seeds=s, Ticks=(1, 2), StepSize=3, T0=7, Ops=["new", "cancel", "step", "disable", "enable"], Kinds=["L"] if q else ["L", "M"],
            Prices=[10], MaxSubmits=3, MaxBatch=3, MaxSteps=2, MaxOrders=2,
            need=("schedule_matters", "has_trade", "trading_toggled"), timeout=400 if q else 1800)
    # clocks at the top of the 64-bit range (the third step ends exactly at 2^64 - 1; instructions are stamped below it) and epoch-like clocks: the same outcome
    # sets with every time shifted (the specification is invariant under a translation of time)
    env_gen(ck, "gen_env_clock_top", kind="env", seeds=s, time_offset=(1 << 64) - 10, StepSize=3, T0=0, Ops=["new", "cancel", "step"], Kinds=["L", "M"],
            Prices=[10], Vols=[1, 2], MaxSubmits=3, MaxBatch=3, MaxSteps=3, MaxOrders=3, need=("has_trade", "multi_step"), timeout=400 if q else 1800)
    env_gen(ck, "gen_menv_clock_epoch", kind="menv", seeds=s, time_offset=1700000000123456789, Ticks=(1, 1), StepSize=2, T0=1, Ops=["new", "step"], Kinds=["L"],
            Prices=[10], Vols=[1], MaxSubmits=3, MaxBatch=2, MaxSteps=2, MaxOrders=2, need=("has_trade", "multi_step"), timeout=400 if q else 1800)
    # long random runs, batches up to 25 instructions (step sizes from 1 to 1000): schedule from the hook, linear validation
    cross(ck, q, "env_edge_prices")
    env_traces(ck, "rand_env_hook", {"max_batch": 48, "p_step": 0.04}, files=6 if q else 48, runs=3 if q else 6, ops=250, hook=True)
    # agent-generated load: complete simulations through the real runners (batches of tens of instructions)
    sim_traces(ck, "sim_steps", files=4 if q else 32, runs=3 if q else 6, steps=30 if q else 100)
    # hook-free: TLC infers a processing order that explains each step (batches up to 8)
    env_traces(ck, "rand_env_inferred", {"max_batch": 8, "p_step": 0.15}, files=6 if q else 48, runs=3 if q else 6, ops=160, hook=False)
    python_view(ck, q, ("env", "numpy"))
    # the runner's loop itself, hook-free: complete simulations of 1..3 rounds against the outcome sets of Sim.tla
    sim_outcomes(ck, "sim_outcomes_rounds", seeds=20000 if q else 100000, NSteps=3, StepSize=2, T0=5)
    return ck.finish("model_checking", LEVEL_TEXT, ENV_RULE + "paths whose outcome depends on the schedule + recorded steps with batches of 4 or more",
                     ("gen_env_new_cancel.schedule_matters", "gen_env_modify.schedule_matters", "gen_menv.schedule_matters",
                      "rand_env_hook.steps_with_batch_of_4_or_more", "rand_env_inferred.steps_with_batch_of_4_or_more"))


def c10(tier, seed):
    ck = Check("C10", tier, seed)
    q = ck.quick
    s = 4 if q else 16
    # submissions that would trade / cancel / re-price at once if applied directly, interleaved with steps
    env_gen(ck, "gen_env_submit", kind="env", seeds=s, Ops=["new", "cancel", "modify", "step"], Kinds=["L", "M"], ModPrices=[-1, 11],
            ModVolsAbs=[-1, 1], MaxSubmits=3 if q else 4, MaxBatch=3, MaxSteps=2, MaxOrders=3,
            need=("submit_after_step", "has_trade", "has_cancel", "has_modify"), timeout=400 if q else 1800)
    # submissions while trading is disabled (market orders must stay New until the step rejects them)
    env_gen(ck, "gen_env_submit_toggle", kind="env", seeds=s, Ops=["new", "step", "disable", "enable"], Kinds=["L", "M"], Prices=[10], Vols=[1],
            MaxSubmits=3, MaxBatch=2, MaxSteps=2, MaxOrders=3, need=("submit_after_step", "trading_toggled"), timeout=400 if q else 1800)
    env_gen(ck, "gen_menv_submit_toggle", kind="menv", seeds=s, Ticks=(1, 1), Ops=["new", "step", "disable", "enable"], Kinds=["M"], Prices=[10], Vols=[1],
            Sides=["B"], MaxSubmits=2, MaxBatch=2, MaxSteps=2, MaxOrders=2, need=("trading_toggled",), timeout=400 if q else 1800)
    env_gen(ck, "gen_menv_submit", kind="menv", seeds=s, Ticks=(1, 1), Ops=["new", "cancel", "step"], Kinds=["L"], MaxSubmits=3 if q else 4,
            MaxBatch=3, MaxSteps=2, MaxOrders=2, need=("submit_after_step", "has_trade"), timeout=400 if q else 1800)
    # random interleavings: many submissions between steps (every one of them must be invisible), toggles
    cross(ck, q, "env_edge_prices")
    env_traces(ck, "rand_env_submissions", {"max_batch": 12, "p_step": 0.08, "p_toggle": 0.05, "p_market": 0.3}, files=6 if q else 48, runs=3 if q else 6, ops=200)
    python_view(ck, q, ("env", "numpy"))
    return ck.finish("model_checking", LEVEL_TEXT, ENV_RULE + "paths ending in a submission made after at least one step",
                     ("gen_env_submit.submit_after_step", "gen_menv_submit.submit_after_step"))


def c11(tier, seed):
    ck = Check("C11", tier, seed)
    q = ck.quick
    s = 4 if q else 16
    # asymmetric books: bids and asks differ in volume, count and level shape (levels span the alphabet)
    env_gen(ck, "gen_env_records", kind="env", seeds=s, NLevels=3, Ops=["new", "cancel", "step"], Kinds=["L", "M"], Prices=[10, 11, 12],
            Vols=[1, 3], MaxSubmits=3 if q else 4, MaxBatch=3, MaxSteps=3, MaxOrders=3,
            need=("multi_step", "has_trade"), timeout=400 if q else 1800)
    env_gen(ck, "gen_menv_records", kind="menv", seeds=s, Ticks=(1, 2, 1), NLevels=1, T0=13, Ops=["new", "step"], Kinds=["L"], Prices=[10, 12],
            Vols=[1, 2] if not q else [2], MaxSubmits=3, MaxBatch=3, MaxSteps=2, MaxOrders=2, need=("multi_step", "has_trade"), timeout=400 if q else 1800)
    # modifications that trade (re-priced across the touch): their volume belongs to the step's traded volume
    env_gen(ck, "gen_env_records_modify", kind="env", seeds=s, NLevels=2, T0=1001, Ops=["new", "modify", "step"], Kinds=["L"], Prices=[10, 11], Vols=[1, 2],
            ModPrices=[-1, 10, 11], ModVolsAbs=[-1, 1], MaxSubmits=3 if q else 4, MaxBatch=2, MaxSteps=3, MaxOrders=2,
            need=("multi_step", "has_trade", "has_modify"), timeout=400 if q else 1800)
    env_gen(ck, "gen_menv_records_modify", kind="menv", seeds=s, Ticks=(1, 1), NLevels=2, Ops=["new", "modify", "step"], Kinds=["L"], Prices=[10, 11], Vols=[1],
            ModPrices=[10, 11], ModVolsAbs=[-1], MaxSubmits=3, MaxBatch=2, MaxSteps=2 if q else 3, MaxOrders=2,
            need=("multi_step", "has_modify"), timeout=400 if q else 1800)
    # the lower end of the price range: bids resting at price 0 (a valid grid price that is also the "no bid" sentinel) inside the
    # published levels, recorded step by step
    env_gen(ck, "gen_env_records_low", kind="env", seeds=s, NLevels=3, Ops=["new", "cancel", "step"], Kinds=["L"], Prices=[0, 1, 2], Vols=[1, 2],
            MaxSubmits=3, MaxBatch=3, MaxSteps=2, MaxOrders=3, need=("multi_step", "has_trade"), timeout=400 if q else 1800)
    env_gen(ck, "gen_env_records_l10", kind="env", seeds=s, NLevels=10, Ops=["new", "step"], Kinds=["L"], Prices=[10, 13, 19], Vols=[1, 2],
            Sides=["B", "A"], MaxSubmits=3, MaxBatch=2, MaxSteps=2, MaxOrders=3, need=("multi_step",), timeout=400 if q else 1800)
    # random runs: every level count the harness instantiates, up to 4 assets, many steps; all series compared in full at audit events
    cross(ck, q, "env_edge_prices")
    env_traces(ck, "rand_env_records", {"max_batch": 6, "p_step": 0.3, "levels": [1, 2, 3, 4, 10], "assets": [1, 2, 3, 4], "nprices": 14}, files=6 if q else 48,
               runs=3 if q else 6, ops=200)
    python_view(ck, q, ("env", "numpy"))
    return ck.finish("model_checking", LEVEL_TEXT, ENV_RULE + "paths with at least two steps",
                     ("gen_env_records.multi_step", "gen_menv_records.multi_step", "gen_env_records_l10.multi_step"))


def c14(tier, seed):
    ck = Check("C14", tier, seed)
    q = ck.quick
    # direct operations on Market<2> with ticks (1, 2): same local ids on both assets
    mkt_gen(ck, "gen_market2", Ops=["cap", "create", "place", "cancel", "settime", "resettv"], Prices=[10, 11], Kinds=["L"] if q else ["L", "M"],
            MaxOrders=2, MaxOps=4 if q else 5,
            need=("ops_on_two_assets", "has_trade", "create_rejected"), timeout=400 if q else 1800)
    mkt_gen(ck, "gen_market2_reload_resettv", Ticks=(1, 1), Ops=["cap", "resettv", "reload"], Kinds=["L"], Prices=[10], Vols=[1, 2], MaxOrders=2, MaxOps=4,
            need=("ops_on_two_assets", "op_reload", "has_trade"), timeout=400 if q else 1800)
    mkt_gen(ck, "gen_market2_modify_toggle", Ops=["cap", "modify", "event", "disable", "enable", "reload"], Kinds=["L"], ModPrices=[-1, 12],
            ModVolsAbs=[-1, 1], MaxOrders=2, MaxOps=4, trunc_every=200 if q else 20,
            need=("ops_on_two_assets", "trading_toggled", "op_modify", "op_reload"), timeout=400 if q else 1800)
    mkt_gen(ck, "gen_market3", Ticks=(2, 1, 3), NLevels=1, Ops=["cap", "cancel"], Kinds=["L"], Prices=[6, 12], Vols=[1, 2], MaxOrders=2,
            MaxOps=3 if q else 4, need=("ops_on_two_assets", "trades_on_two_assets") if not q else ("ops_on_two_assets",), timeout=400 if q else 1800)
    # the lower end of the price range at market level: bids resting at price 0 (all-asset level queries)
    mkt_gen(ck, "gen_market2_low", Ticks=(1, 1), NLevels=2, Ops=["cap", "cancel"], Kinds=["L"], Prices=[0, 1], Vols=[1, 2], MaxOrders=2, MaxOps=3 if q else 4,
            need=("ops_on_two_assets", "has_trade"), timeout=300 if q else 1500)
    # re-queuing modifications through the market (same price / same volume still loses priority): three orders per asset
    mkt_gen(ck, "gen_market2_priority", Ticks=(1, 1), Ops=["cap", "modify"], Kinds=["L"], Prices=[10], Vols=[1, 2], ModPrices=[-1, 10],
            ModVolsAbs=[-1, 2], MaxOrders=3, MaxOps=4, need=("ops_on_two_assets", "op_modify", "has_trade"), timeout=400 if q else 1800)
    env_gen(ck, "gen_menv_modify", kind="menv", seeds=8 if q else 32, Ticks=(1, 1), Ops=["new", "modify", "step"], Kinds=["L"], Prices=[10, 11], Vols=[1],
            ModPrices=[10, 11], ModVolsAbs=[-1], MaxSubmits=3, MaxBatch=2, MaxSteps=2 if q else 3, MaxOrders=2,
            need=("has_modify", "multi_step"), timeout=400 if q else 1800)
    # shuffled batches across assets
    env_gen(ck, "gen_menv_assets", kind="menv", seeds=8 if q else 32, Ticks=(1, 2), T0=5, Ops=["new", "cancel", "step"], Kinds=["L", "M"], Prices=[10, 12],
            MaxSubmits=3 if q else 4, MaxBatch=3, MaxSteps=2, MaxOrders=2, need=("schedule_matters", "has_trade"), timeout=400 if q else 1800)
    # long random histories of direct operations on markets of 1..4 assets (per-asset ticks, reloads, toggles)
    cross(ck, q, "env_edge_prices")
    mkt_traces(ck, "rand_market", files=6 if q else 48, runs=3 if q else 6, ops=200)
    env_traces(ck, "rand_menv_assets", {"kind": "menv", "assets": [2, 3, 4], "ticks": [1, 2, 3, 5], "max_batch": 48, "p_step": 0.04}, files=6 if q else 48,
               runs=3 if q else 6, ops=250)
    env_traces(ck, "rand_menv_assets_inferred", {"kind": "menv", "assets": [2, 3], "ticks": [1, 2], "max_batch": 7, "p_step": 0.15}, files=4 if q else 32,
               runs=3 if q else 6, ops=120, hook=False)
    return ck.finish("model_checking", LEVEL_TEXT, "histories over 2-3 assets (direct market operations: one TLC state = one history; environment: "
                     "outcome sets); non-trivial = histories that address at least two assets",
                     ("gen_market2.ops_on_two_assets", "gen_market2_modify_toggle.ops_on_two_assets", "gen_market3.ops_on_two_assets"))


def c09(tier, seed):
    import random, time
    ck = Check("C09", tier, seed)
    q = ck.quick
    core.build_harness()
    d = os.path.join(core.WORK, "traces", "C09")
    os.makedirs(d, exist_ok=True)
    rnd = random.Random(seed)
    comps = ["Mixed", "Nested", "TwoNoise", "OnlyRandom", "MMixed", "MNested"]
    configs = []
    for i in range(48 if q else 240):
        configs.append({"seed": rnd.randrange(1, 1 << 40), "steps": rnd.choice([1, 2, 5, 17, 40, 60] if q else [1, 3, 10, 40, 120, 200]),
                        "step_size": rnd.choice([1, 7, 1000, 100000]), "tick": rnd.choice([1, 2, 5, 10]), "comp": comps[i % len(comps)]})
    # boundary seeds: 0 and 1 (a zero-seed guard aliases them), the extremes and the word boundary
    for i, sd in enumerate([0, 1, (1 << 64) - 1, (1 << 32) - 1, 1 << 63, 2]):
        configs[i]["seed"] = sd
        configs[i]["steps"] = max(configs[i]["steps"], 17)
    # heavy-tailed price distributions (the documentation's sigma = 10: sampled prices leave the price range and are clamped)
    for i in range(3, len(configs), 5):
        configs[i]["sigma"] = 10.0
    # large populations: thousands of instructions per step, over both assets of the multi-asset environment and in the
    # single-asset one (any batch-size-dependent processing path is taken), few steps
    for i, (comp, z) in enumerate([("MMixed", 400), ("MNested", 300), ("Mixed", 200)] if q else [("MMixed", 400), ("MNested", 300), ("Mixed", 200), ("MMixed", 800), ("TwoNoise", 300)]):
        configs[7 + 2 * i].update({"comp": comp, "scale": z, "steps": 3})
    # always-active populations: every agent submits exactly one instruction per step, so every step of every run carries the same
    # number of instructions (14 and 168 of them) - whatever is kept between batches of equal size (a scratch buffer, a cached
    # permutation) is then actually reused: within a run, and in process F across runs
    for i, z in ((13, 14), (19, 1), (25, 14)):
        configs[i] = {"seed": configs[i]["seed"], "steps": 6, "step_size": 1000, "tick": configs[i]["tick"], "comp": "OnlyRandom", "scale": z, "rate": 1.0}
    # environments that already have a history when the runner is called (quotes placed and one or two steps taken by hand)
    for i in range(2, len(configs), 4):
        if "scale" not in configs[i]:
            configs[i]["pre"] = 1 + (i // 4) % 2
    cf = os.path.join(d, "configs.json")
    json.dump(configs, open(cf, "w"))
    t0 = time.time()
    outs = {}
    procs = []
    for tag, prog, shift, order in (("A", "false", 0, "given"), ("B", "false", 0, "given"), ("C", "true", 0, "given"), ("D", "false", 1, "given"),
                                    ("E", "false", 1 << 32, "given"), ("F", "false", 0, "reverse-twice")):
        outs[tag] = os.path.join(d, tag + ".ndjson")
        # separate OS processes (own address space, own hash seeds, own start time); process F runs the configurations in
        # reverse order and each twice in a row, reporting the second run ("in the same process or a different one")
        procs.append((tag, subprocess.Popen([os.path.join(core.BIN, "sim_run"), "--configs", cf, "--out", outs[tag], "--progress", prog,
                                             "--seed-shift", str(shift), "--order", order,
                                             # B and F run the simulations with the SECOND expansion of the derive macros (the agent sets are
                                             # declared twice from the same text): same seed, parameters and agents => same outcome
                                             "--expansion", "second" if tag in ("B", "F") else "first"],
                                            stdout=subprocess.DEVNULL, stderr=subprocess.PIPE, text=True)))
    for tag, p in procs:
        _, err = p.communicate()
        if p.returncode != 0:
            ck.violation("runs", "simulation process %s aborted: %s" % (tag, err[-600:]), {"kind": "panic", "configs": configs, "process": tag})
    if not ck.violations:
        tl, text = core.tlc_check("C09_eq", "SimEq", {}, ["SPECIFICATION Spec", "INVARIANT Verdict"], workers=1, timeout=900,
                                  env_extra={"TRACE": outs["A"], "TRACE2": outs["B"], "TRACE3": outs["C"], "TRACE4": outs["D"], "TRACE5": outs["E"], "TRACE6": outs["F"],
                                             "JAVA_TOOL_OPTIONS": "-Xss1g -Xmx8g"})
        rej = core.tagged_lines(text, "TRACE-REJECT")
        acc = core.tagged_lines(text, "ACCEPTED")
        if rej:
            ck.violation("runs", "simulation outputs: %s (first differing line A/B %s, A/C %s, A/F %s)" % (rej[0].get("why"), rej[0].get("at_AB"), rej[0].get("at_AC"), rej[0].get("at_AF")),
                         {"kind": "simeq", "reject": rej[0], "configs": configs})
        elif not acc:
            raise ToolError("C09: TLC failed comparing simulation outputs:\n" + text[-2500:])
        nlines = acc[0] if acc else 0
        sub = core.tagged_lines(text, "SUBSTANTIAL")
        ck.features["configurations_with_20_or_more_orders"] = sub[0] if sub else 0
        if sub and sub[0] < len(configs) // 2:
            raise ToolError("C09: vacuous - fewer than half of the configurations produced a substantial run")
        ck.states += tl["distinct"]
        ck.transitions += nlines if isinstance(nlines, int) else 0
        ck.features["output_lines_compared"] = nlines if isinstance(nlines, int) else 0
    ck.traces += 6 * len(configs)
    ck.features["configurations"] = len(configs)
    # the runs are behaviours of the specification at all: complete simulations recorded from inside sim_runner /
    # market_sim_runner (both progress-bar branches) validated event by event against SimTrace.tla
    sim_traces(ck, "sim_traces", files=6 if q else 48, runs=4 if q else 8, steps=40 if q else 120)
    ck.samples.append({"stage": "runs", "kind": "one configuration (run as 6 separate OS processes)", "case": configs[0]})
    ck.stages.append({"stage": "runs", "kind": "6 OS processes (one of them running every configuration twice, in reverse order) x %d configurations through sim_runner / market_sim_runner with derive-macro agent sets; TLC compares outputs line by line" % len(configs),
                      "configurations": len(configs), "wall_s": round(time.time() - t0, 1)})
    ck.assumptions.append("a nondeterminism source that happens to be stable across the repeated processes on this machine is not seen (DESIGN.md section 8)")
    log("[runs] %d configurations x 6 processes, %s output lines compared by TLC" % (len(configs), ck.features.get("output_lines_compared")))
    return ck.finish("model_checking", "TLC compares complete simulation outputs (orders, trades, recorded level-2 history, per-step volume) of repeated runs in "
                     "separate OS processes, with and without the progress bar, line by line, and requires shifted seeds to give different runs; the "
                     "behaviours themselves are constrained by the specification through C08 (steps) and C16 (agents).",
                     "cases = (configuration, process) runs; distinct non-trivial = configurations", ("configurations",))


def c15(tier, seed):
    import math, time
    ck = Check("C15", tier, seed)
    q = ck.quick
    core.build_harness()
    d = os.path.join(core.WORK, "traces", "C15")
    os.makedirs(d, exist_ok=True)
    out = os.path.join(d, "hist.ndjson")
    t0 = time.time()
    r = subprocess.run([os.path.join(core.BIN, "shuffle_stats"), "--out", out, "--seed", str(seed), "--scale", "1" if q else "6"],
                       text=True, capture_output=True)
    if r.returncode != 0:
        # a panic while stepping the environment is a failure of the code under test
        ck.violation("histograms", "environment step aborted while sampling schedules: " + r.stderr[-500:], {"kind": "panic", "seed": seed})
        return ck.finish("other", "see DESIGN.md 6 C15", "n/a")
    summ = json.loads(r.stdout.strip().splitlines()[-1])
    K = summ["cells"]
    L = math.ceil(math.log(2 * K / 1e-9))
    tl, text = core.tlc_check("C15_stat", "Shuffle", {"NMax": 6, "L": L},
                              ["SPECIFICATION Spec", "INVARIANT StatOK", "INVARIANT BijectionOK"], workers=1, timeout=900,
                              env_extra={"TRACE": out, "JAVA_TOOL_OPTIONS": "-Xss1g -Xmx4g"})
    rej = core.tagged_lines(text, "TRACE-REJECT")
    acc = core.tagged_lines(text, "ACCEPTED")
    if not rej and not acc and "Evaluating invariant StatOK failed" in text:
        # a recorded table on which the predicate cannot even be evaluated (a processing order that is not a permutation of the
        # batch: too short, an index twice): every table recorded from the unchanged code evaluates, so this is a rejection
        msg = text[text.index("Evaluating invariant StatOK failed"):][:300].replace("\n", " ")
        rej = [{"at": 0, "why": "MALFORMED", "event": {"kind": "malformed table", "detail": msg}}]
    if "BijectionOK is violated" in text:
        raise ToolError("C15: the Fisher-Yates model is not a bijection (specification error)")
    if rej:
        kind = str(rej[0].get("event", {}).get("kind", ""))
        what = ("the processing order is not a function of the generator state and the batch size alone: %s" if kind.startswith("det")
                else "a recorded processing order is not a permutation of the batch (the table cannot be evaluated): %s" if kind.startswith("malformed")
                else "recorded schedule statistics outside the exact concentration bound: %s")
        ck.violation("histograms", what % json.dumps(rej[0])[:500],
                     {"kind": "histogram", "reject": rej[0], "seed": seed, "tables_file": out, "L": L, "cells": K})
    elif not acc:
        raise ToolError("C15: TLC failed on the histogram predicate:\n" + text[-2500:])
    # the same through the numpy environment of the Python layer: several cancellations / orders submitted in one array
    # call are queued in the order given, and the same seed and calls give the same processing order again
    py_env_gen(ck, "py_numpy_same_seed", mode="numpy", seeds=3 if q else 8, StepSize=4, Ops=["new", "cancel", "step"], Kinds=["L"], Prices=[10, 11], Vols=[1],
               MaxSubmits=4 if q else 5, MaxBatch=3, MaxSteps=2, MaxOrders=2 if q else 3, need=("has_cancel", "multi_step", "schedule_matters"), timeout=400 if q else 1800)
    ck.states += tl["distinct"] + sum(math.factorial(n) for n in range(1, 7))
    ck.transitions += summ["steps"]
    ck.traces += summ["steps"]
    ck.features["seeded_steps_sampled"] = summ["steps"]
    ck.features["tables"] = summ["tables"]
    ck.features["cells_in_union_bound"] = K
    first = json.loads(open(out).readline())
    ck.samples.append({"stage": "histograms", "kind": "one of the recorded tables (all 2-permutations)", "case": first})
    ck.stages.append({"stage": "histograms", "kind": "TLC bijection (n<=6) + Bernstein/union-bound predicate evaluated by TLC on histograms recorded from real steps",
                      "tables": summ["tables"], "cells": K, "steps": summ["steps"], "L_ge_ln_2K_over_delta": L, "delta": 1e-9,
                      "wall_s": round(time.time() - t0, 1)})
    ck.assumptions += ["the seeded generator (Xoroshiro128** via seed_from_u64) and rand's range sampling are uniform",
                       "false-alarm probability of the statistical predicate < 1e-9 per run (Bernstein + union bound over all cells)"]
    log("[histograms] %d tables, %d cells, %d seeded steps; L = %d; %s" % (summ["tables"], K, summ["steps"], L, "accepted" if acc and not rej else "REJECTED"))
    return ck.finish("other", "C15 is a statement about a distribution. TLC (i) proves by enumeration that the draw-driven Fisher-Yates model is a bijection "
                     "between draw vectors and permutations for n <= 6 (so the exact expected histogram is uniform), (ii) evaluates the exact Bernstein + "
                     "union-bound acceptance predicate on histograms recorded from >= 2*10^5 seeded real steps per batch size 2..6 (all n! permutations) and on "
                     "position-by-item / pairwise tables up to size 64, single- and multi-asset, mixed instruction kinds, and (iii) checks that the index "
                     "permutation depends only on generator state and batch size. The sampling is a statistical test, not a proof.",
                     "cases = seeded real steps; distinct non-trivial = table cells entering the union bound", ("cells_in_union_bound",))


def c20(tier, seed):
    import time, shutil
    from . import shapes
    ck = Check("C20", tier, seed)
    t0 = time.time()
    tl, text = core.tlc_check("C20_shapes", "AgentSet", {"Full": tier != "quick"}, ["INIT GInit", "NEXT GNext", "INVARIANT EmitShape", "INVARIANT SizeOK"], workers=1, timeout=300)
    if not tl["ok"]:
        raise ToolError("C20: shape enumeration failed:\n" + text[-2000:])
    sh = core.tagged_lines(text, "SHAPE")
    hs = os.path.join(core.VERIF, "harness_shapes")
    shapes.generate(sh, os.path.join(hs, "src", "main.rs"))
    if not os.path.exists(os.path.join(hs, "Cargo.lock")):
        shutil.copy("/repo/Cargo.lock", os.path.join(hs, "Cargo.lock"))
    r = subprocess.run(["cargo", "build", "--offline"], cwd=hs, text=True, capture_output=True, env=dict(os.environ, CARGO_NET_OFFLINE="true"))
    if r.returncode != 0:
        # the generated program is valid Rust for a correct macro: if the derive output does not compile, the macro is broken
        if "derive" in r.stderr and ("AgentSet" in r.stderr):
            ck.violation("derive", "a struct deriving AgentSet/MarketAgentSet does not compile: " + r.stderr[-800:], {"kind": "compile", "stderr": r.stderr[-3000:]})
            return ck.finish("model_checking", LEVEL_TEXT, "n/a")
        raise ToolError("C20: generated program does not build:\n" + r.stderr[-3000:])
    o = subprocess.run([os.path.join(core.BIN, "bourse-verif-shapes")], text=True, capture_output=True)
    d = os.path.join(core.WORK, "traces", "C20")
    os.makedirs(d, exist_ok=True)
    out = os.path.join(d, "shapes.ndjson")
    open(out, "w").write(o.stdout)
    if o.returncode != 0:
        ck.violation("derive", "derived agent set aborted: " + o.stderr[-600:], {"kind": "panic", "stderr": o.stderr[-2000:]})
    else:
        tl2, text2 = core.tlc_check("C20_validate", "AgentSet", {"Full": False}, ["INIT VInit", "NEXT VNext", "INVARIANT Verdict"], workers=1, timeout=300,
                                    env_extra={"TRACE": out, "JAVA_TOOL_OPTIONS": "-Xss1g"})
        rej = core.tagged_lines(text2, "TRACE-REJECT")
        acc = core.tagged_lines(text2, "ACCEPTED")
        if rej:
            ck.violation("derive", "derived agent set does not behave as Update(shape): %s" % json.dumps(rej[0])[:500], {"kind": "derive", "reject": rej[0]})
        elif not acc:
            raise ToolError("C20: TLC failed validating derive traces:\n" + text2[-2500:])
        ck.states += tl2["distinct"]
    n = len(o.stdout.splitlines())
    ck.states += tl["distinct"]
    ck.transitions += tl["generated"]
    ck.traces += n
    ck.features["shapes"] = len(sh)
    ck.features["traces"] = n
    ck.features["shapes_with_nested_sets"] = sum(1 for x in sh if any(f["t"] == "S" for f in x["shape"]["f"]))
    ck.features["max_leaves"] = max(x["n"] for x in sh)
    ck.features["structs_with_non_alphabetical_field_names"] = sum(1 for x in sh if x.get("naming") != "ordered")
    ck.features["structs_with_attributes_on_fields"] = sum(1 for x in sh if x.get("attrs"))
    ck.features["structs_written_on_one_line_without_trailing_comma"] = sum(1 for x in sh if x.get("style") == "compact")
    ck.features["structs_declared_through_macro_rules"] = sum(1 for x in sh if x.get("style") == "macro")
    if not ck.features["structs_written_on_one_line_without_trailing_comma"] or not ck.features["structs_declared_through_macro_rules"]:
        raise ToolError("C20: vacuous - no compact / macro-declared struct was generated")
    if not ck.features["structs_with_non_alphabetical_field_names"] or not ck.features["structs_with_attributes_on_fields"]:
        raise ToolError("C20: vacuous - no struct with non-alphabetical names / attribute-bearing fields was generated")
    if o.stdout:
        ck.samples.append({"stage": "derive", "kind": "trace of one derived set (3 update calls; [leaf, draw, order id])", "case": json.loads(o.stdout.splitlines()[len(sh) // 2])})
    ck.stages.append({"stage": "derive", "kind": "TLC-enumerated struct shapes -> generated #[derive] structs compiled against the working tree's macro crate -> probe traces validated by TLC",
                      "shapes": len(sh), "traces": n, "wall_s": round(time.time() - t0, 1)})
    log("[derive] %d shapes (max %d leaves, %d with nested sets), %d traces validated by TLC" % (len(sh), ck.features["max_leaves"], ck.features["shapes_with_nested_sets"], n))
    return ck.finish("model_checking", "TLC enumerates the struct shapes (AgentSet.tla: trees with 1..8 leaves, two leaf types, repeated types, nested derived sets); "
                     "for each shape a struct deriving AgentSet and one deriving MarketAgentSet is generated and compiled against the working tree's macro crate; probe "
                     "agents (one draw from a counting generator, one order tagged with the leaf id) reveal call order, generator sharing and environment sharing; TLC "
                     "validates every trace against Update(shape) and against the hand-written call sequence.",
                     "programs = generated structs; non-trivial = shapes containing nested derived sets", ("shapes_with_nested_sets",))


# ---------------------------------------------------------------------------------------------
# agents
AGENT_RULE = ("runs: seeded agent configurations (kind x single/multi asset x tick 1..10 x probabilities {0, 0.3, 1, 1.5} x sigma {1, 10} x "
              "starting book x scripted boundary draws); every update call is one recorded event (observation + queued instructions) "
              "validated by TLC against the agent relation; non-trivial = ")


def c16(tier, seed):
    ck = Check("C16", tier, seed)
    q = ck.quick
    base = {"max_steps": 40 if q else 200}
    for kind in ("random", "noise", "momentum"):
        ck.traces_stage("agents_" + kind, "record_agents", dict(base, kinds=[kind]), files=8 if q else 32, runs=100 if q else 200, ops=0,
                        trace_spec="AgentTrace", consts={})
    # the heavy-tailed price distribution of the project's documentation (sigma = 10) on every tick size
    # (and sigma = 1000: finite, but sampled distances overflow to infinity - quotes are then clamped to the ends of the price range)
    ck.traces_stage("agents_sigma10", "record_agents", dict(base, kinds=["noise", "momentum"], sigmas=[10.0, 1000.0]), files=8 if q else 32,
                    runs=100 if q else 200, ops=0, trace_spec="AgentTrace", consts={})
    # "an action with probability at least 1 always happens": momentum agents under imposed price paths at saturated demand, order
    # ratios 0, 1/2, 1, 2 (the limit-order probability is the order ratio times the market-order probability), heavy tails included
    ck.traces_stage("agents_momentum_saturated", "record_agents", dict(base, kinds=["momentum"], saturate=True, max_steps=18, probs=[0.0, 0.3], sigmas=[1.0, 10.0]),
                    files=4 if q else 16, runs=100 if q else 200, ops=0, trace_spec="AgentTrace", consts={})
    # the public helper functions the noise and momentum agents are made of (agents::common), called directly with a mid-price and
    # a sampled distance of the harness's choosing: distance 0, distances beyond the mid-price, both ends of the price range,
    # half-integer mid-prices, ticks 1..10, 25, 1000, scripted boundary draws for the cancellation helper (HelperTrace.tla)
    ck.traces_stage("agent_helpers", "record_helpers", {"calls": 40}, files=8 if q else 32, runs=60 if q else 200, ops=0,
                    trace_spec="HelperTrace", consts={})
    if any(st["stage"] == "agent_helpers" for st in ck.stages):
        for k in ("quote_calls", "cancel_live_calls_with_active_orders", "sell_beyond_the_price_range", "quotes_at_distance_zero"):
            if not ck.features.get("agent_helpers." + k):
                raise ToolError("C16 agent_helpers: vacuous - no " + k)
    # the same relations inside complete simulations (mixed agent sets on one environment, through the real runners); here TLC
    # derives what the agent could observe from its own specification state instead of taking it from the recorder
    sim_traces(ck, "agents_in_simulations", files=6 if q else 48, runs=4 if q else 8, steps=30 if q else 100)
    # complete small simulations of random agents through the public runners, hook-free: every real outcome must be one of the
    # outcomes of Sim.tla (runner loop + agent rule + step, every decision and every schedule); TLC checks "at most one live order
    # per agent", "orders as configured", "other assets untouched" on every reachable state of the model
    n = 20000 if q else 200000
    sim_outcomes(ck, "sim_outcomes_random", seeds=n)
    sim_outcomes(ck, "sim_outcomes_market", seeds=n, Assets=2, Asset=1, Tick=2, T0=7, StepSize=3, VolHi=3, TickLo=5, TickHi=7)
    sim_outcomes(ck, "sim_outcomes_always_active", seeds=n, NAgents=3, Rate="one")
    sim_outcomes(ck, "sim_outcomes_never_active", seeds=200, NAgents=3, Rate="zero", NSteps=3)
    # a tick range that starts at 0: a sell at price 0 is executed like a market order (its remainder is cancelled at once), so the
    # agent then remembers an order that is not active and must place a new one
    sim_outcomes(ck, "sim_outcomes_price_zero", seeds=n, NAgents=2, Rate="one", TickLo=0, TickHi=2, NSteps=3)
    if not q:
        sim_outcomes(ck, "sim_outcomes_three_rounds", seeds=n, NSteps=3, timeout=1800)
    return ck.finish("model_checking", LEVEL_TEXT, AGENT_RULE + "update calls that queued at least one instruction",
                     ("agents_random.updates_with_instructions", "agents_noise.updates_with_instructions",
                      "agents_momentum.updates_with_instructions", "agents_sigma10.updates_with_instructions",
                      "agents_in_simulations.updates_with_instructions"))


def c17(tier, seed):
    ck = Check("C17", tier, seed)
    q = ck.quick
    # saturated demand: direction and count are deterministic; TLC recomputes the momentum signal exactly
    ck.traces_stage("momentum_saturated", "record_agents", {"kinds": ["momentum"], "saturate": True, "max_steps": 18, "probs": [0.0, 0.3], "sigmas": [1.0, 10.0]},
                    files=8 if q else 32, runs=100 if q else 200, ops=0, trace_spec="AgentTrace", consts={})
    # mirrored pairs: the reflected price path must give the reflected order flow
    ck.traces_stage("momentum_mirror", "record_agents", {"kinds": ["momentum"], "mirror": True, "saturate": True, "max_steps": 18, "probs": [0.0, 0.3], "sigmas": [1.0, 10.0]},
                    files=8 if q else 32, runs=60 if q else 120, ops=0, trace_spec="AgentTrace", consts={})
    return ck.finish("model_checking", LEVEL_TEXT, AGENT_RULE + "update calls that queued at least one instruction",
                     ("momentum_saturated.updates_with_instructions", "momentum_mirror.updates_with_instructions"))


# ---------------------------------------------------------------------------------------------
# the Python layer (C18, C19): the same generator streams through the compiled extension module
PY_BOOK = ("INIT GInit", "NEXT PNext", "INVARIANT EmitPy", "CONSTRAINT Constr")
PY_ENV = ("INIT GInit", "NEXT PNext", "INVARIANT EmitPy")
PY_RULE = ("paths: every call sequence of the bounded generator configs, driven through the real compiled extension under CPython; "
           "TLC computes from PyView.tla what Python must show after each path (tuples, codes, exception classes, array cells, "
           "dictionary keys, data-frame columns); for environment paths the set of outcomes over all schedules; non-trivial = ")


def py_book_gen(ck, name, need=(), timeout=600, xcheck=False, **kw):
    import shutil
    c = bc(**dict(dict(NLevels=10, Ops=["cap", "cancel", "modify"], Kinds=["L", "M"]), **kw))
    rargs = ["--mode", "book", "--tick", c["Tick"], "--trading", "true" if c["Trading0"] else "false"]
    xdir = os.path.join(core.WORK, "xsnap", "%s_%s" % (ck.prop, name))
    if xcheck:
        shutil.rmtree(xdir, ignore_errors=True)
        os.makedirs(xdir)
        rargs += ["--xdir", xdir, "--xevery", xcheck]
    r = ck.gen(name, "PyBookGen", c, core.pycmd("pyreplay.py"), rargs, cfg=PY_BOOK, need=need, timeout=timeout, workers=4)
    if xcheck:
        # snapshot interchange: Python wrote, Rust loads (and writes back); then Python loads what Rust wrote
        ck.aux(name + "_py2rs", [os.path.join(core.BIN, "xcheck"), "--snap-dir", xdir],
               "snapshots written by Python loaded by the Rust core, compared with the specification's state")
        ck.aux(name + "_rs2py", core.pycmd("pyreplay.py", "--mode", "xload", "--xdir", xdir),
               "snapshots written by the Rust core loaded by Python, compared with PyView", env=core.pyenv())
        shutil.rmtree(xdir, ignore_errors=True)
    return r


def py_env_gen(ck, name, mode="env", seeds=4, need=(), timeout=600, xcheck=0, **kw):
    c = ec(**dict(dict(NLevels=10), **kw))
    assert len(c["Ticks"]) == 1
    rargs = ["--mode", mode, "--tick", c["Ticks"][0], "--step", c["StepSize"], "--trading", "true" if c["Trading0"] else "false",
             "--seeds", seeds, "--base-seed", ck.seed, "--procs", 14, "--t0", c["T0"]]
    xfile = os.path.join(core.WORK, "xsnap", "%s_%s.ndjson" % (ck.prop, name))
    if xcheck:
        import glob
        os.makedirs(os.path.dirname(xfile), exist_ok=True)
        for f in glob.glob(xfile + "*"):
            os.remove(f)
        rargs += ["--xfile", xfile, "--xevery", xcheck]
    r = ck.gen(name, "PyEnvGen", c, core.pycmd("pyreplay.py"), rargs, cfg=PY_ENV, need=need, timeout=timeout, workers=4)
    if xcheck:
        import glob
        with open(xfile, "w") as out:
            for f in glob.glob(xfile + ".*"):
                out.write(open(f).read())
                os.remove(f)
        ck.aux(name + "_same_seed", [os.path.join(core.BIN, "xcheck"), "--env-cases", xfile],
               "the Rust Env under the same seed and sequence processes a schedule that explains what the Python StepEnv showed")
        os.remove(xfile)
    return r


def py_traces(ck, name, mode, files, runs, ops, engine=False, profile=None, timeout=600):
    """Traces recorded through the compiled extension.  engine = True (environments): PyEnvTrace.tla - the specification's
    environment is driven by the same calls, every step is explained by schedule inference, and the order table and trade log
    Python reports must be the specification's after every event."""
    spec = "BookTrace" if mode == "book" else ("PyEnvTrace" if engine else "PyTrace")
    kw = dict(spec="ESpec", post="EAccepted", view="EView") if engine and mode != "book" else {}
    ck.traces_stage(name, core.pycmd("pyrecord.py"), dict(profile or {}, mode=mode), files=files, runs=runs, ops=ops, trace_spec=spec,
                    consts={"MaxPrice": MAXPRICE}, timeout=timeout, **kw)


def py_scenarios(ck, name="py_repo_scenarios"):
    """The repository's own Python scenarios - its Python tests, the code blocks of its documentation and docstrings, its
    example script - run unmodified against the compiled extension with recording proxies in place of the extension classes
    (py/pyscen.py); every event is validated by TLC: book objects against BookTrace.tla (Python clauses), environments
    against PyEnvTrace.tla (views recomputed from the reported tables, specification environment run alongside)."""
    import time
    if ck.skip(name):
        return
    core.build_pyext()
    d = os.path.join(core.WORK, "traces", "%s_%s" % (ck.prop, name))
    os.makedirs(d, exist_ok=True)
    t0 = time.time()
    fb, fe = os.path.join(d, "book.ndjson"), os.path.join(d, "env.ndjson")
    r = subprocess.run(core.pycmd("pyscen.py", "--repo", "/repo/", "--out-book", fb, "--out-env", fe), text=True, capture_output=True, env=core.pyenv())
    if r.returncode != 0:
        raise ToolError("%s: scenario recorder failed: %s" % (name, r.stderr[-2000:]))
    summ = json.loads(r.stdout.strip().splitlines()[-1])
    ck.add_features(summ["features"], name + ".")
    if summ["features"].get("scenarios_run", 0) < 20 or summ["env_events"] < 200 or summ["book_events"] < 30:
        raise ToolError("%s: vacuous - the repository's Python scenarios were not found or recorded almost nothing: %s" % (name, json.dumps(summ["features"])))
    nrej = 0
    for tag, f, spec, kw in (("book", fb, "BookTrace", {}), ("env", fe, "PyEnvTrace", dict(spec="ESpec", post="EAccepted", view="EView"))):
        v = core.validate_trace("%s_%s_%s" % (ck.prop, name, tag), spec, f, consts={"MaxPrice": MAXPRICE}, timeout=900, **kw)
        ck.states += v["states"]
        ck.transitions += v["states"]
        if not v["accepted"]:
            nrej += 1
            rj = v["reject"] or {}
            from .runner import history_upto, strip_views
            ck.violation(name, "a scenario of the repository itself (%s objects) is not a behaviour of the specification: event %s, %s" % (tag, rj.get("at"), rj.get("why")),
                         {"kind": "trace", "trace_spec": spec, "recorder": "pyscen.py", "reject": strip_views(rj, keep=True), "history": history_upto(f, rj.get("at"))})
    ck.traces += summ["runs"]
    stopped = [x for x in summ["scenarios"] if not x["completed"]]
    ck.stages.append({"stage": name, "kind": "record-validate (the repository's own Python tests, documentation code blocks and example script)",
                      "scenarios": len(summ["scenarios"]), "objects_traced": summ["runs"], "events_validated": summ["events"], "rejected": nrej,
                      "scenarios_stopped_by_their_own_assertion_or_a_missing_package": [x["scenario"] + ": " + x["why"] for x in stopped],
                      "wall_s": round(time.time() - t0, 1)})
    log("[%s] %d scenarios of the repository (%d objects, %d events) validated by TLC, %d trace files rejected, %d scenarios stopped early (%.1fs)" % (
        name, len(summ["scenarios"]), summ["runs"], summ["events"], nrej, len(stopped), time.time() - t0))


def c18(tier, seed):
    ck = Check("C18", tier, seed)
    q = ck.quick
    # every call sequence of the Python OrderBook API over a small alphabet: ids, touch prices, volumes, order and
    # trade tuples (True = bid, status codes), statuses
    py_book_gen(ck, "py_book_calls", Ops=["cap", "cancel", "modify", "settime", "settime_back"], Prices=[10, 11], Vols=[1, 2], ModPrices=[-1, 11],
                ModVols=["smaller", "equal", "larger"], MaxOrders=3, MaxOps=4 if q else 5, Kinds=["L"] if q else ["L", "M"],
                need=("has_trade", "op_modify", "op_cancel", "op_settime"), timeout=300 if q else 1500)
    # trading toggles (rejected market orders = status 4, crossed books) and snapshots (reloaded copies driven on)
    py_book_gen(ck, "py_book_toggle_snapshots", Ops=["cap", "cancel", "disable", "enable", "reload"], Trading0=False, Prices=[10, 11], Vols=[1, 2],
                MaxOrders=3, MaxOps=3 if q else 4, xcheck=7 if q else 3,
                need=("has_trade", "op_reload", "op_disable"), timeout=300 if q else 1500)
    # off-grid prices (ValueError) and out-of-range integers (OverflowError): object unchanged
    py_book_gen(ck, "py_book_errors", Ops=["cap", "cancel", "bad"], Tick=2, Prices=[10, 11], Vols=[1], Kinds=["L"], MaxOrders=2,
                MaxOps=3 if q else 4, need=("value_error", "overflow_error", "has_trade"), timeout=300 if q else 1500)
    # limit prices at the lower end of the range: price 0 is a valid grid price (a resting bid at 0, an ask at 0 that any buy crosses)
    py_book_gen(ck, "py_book_edge_prices", Ops=["cap", "cancel", "modify"], Prices=[0, 1, 2], Vols=[1, 2], ModPrices=[-1, 0], ModVols=["smaller"],
                Kinds=["L", "M"], MaxOrders=3, MaxOps=3 if q else 4, need=("has_trade", "op_modify"), timeout=300 if q else 1500)
    py_env_gen(ck, "py_env_edge_prices", seeds=2 if q else 4, StepSize=4, T0=17, Ops=["new", "modify", "step"], Kinds=["L", "M"], Prices=[0, 1], Vols=[1],
               ModPrices=[0], ModVolsAbs=[-1], MaxSubmits=3, MaxBatch=3, MaxSteps=2, MaxOrders=3, need=("has_trade",), timeout=400 if q else 1800)
    # modify requests with a price off the tick grid: the core accepts them (known finding F3 of C12), so the Python classes must
    # show exactly what the core then shows - the specification runs with its named deviation FollowF3 = TRUE (BookOps.tla)
    py_env_gen(ck, "py_env_offgrid_modify", seeds=2, Ticks=(2,), StepSize=4, Ops=["new", "modify", "step"], Kinds=["L"], Prices=[10, 12], Vols=[1],
               ModPrices=[11, 12], ModVolsAbs=[-1], MaxSubmits=3, MaxBatch=3, MaxSteps=2, MaxOrders=2, need=("has_modify",), timeout=400 if q else 1800, FollowF3=True)
    py_book_gen(ck, "py_book_offgrid_modify", Ops=["cap", "modify"], Tick=2, Prices=[10, 12], Vols=[1], Kinds=["L"], ModPrices=[-1, 11, 12], ModVols=["none"],
                MaxOrders=2, MaxOps=3, need=("op_modify",), timeout=300, FollowF3=True)
    # StepEnv: outcome sets over all schedules, determinism in the seed, same seed as the Rust core
    py_env_gen(ck, "py_env_calls", seeds=3 if q else 8, xcheck=3, StepSize=5, Ops=["new", "cancel", "modify", "step"], Kinds=["L", "M"],
               Prices=[10, 11], Vols=[2] if q else [1, 2], ModPrices=[-1, 11], ModVolsAbs=[-1, 1], MaxSubmits=3 if q else 4, MaxBatch=3, MaxSteps=2,
               MaxOrders=3, need=("schedule_matters", "has_trade", "has_modify", "has_cancel", "multi_step"), timeout=400 if q else 1800)
    py_env_gen(ck, "py_env_errors", seeds=2 if q else 4, Ticks=(2,), StepSize=3, Ops=["new", "step", "bad"], Kinds=["L"],
               Prices=[10, 11], Vols=[1], MaxSubmits=3, MaxBatch=2, MaxSteps=2, MaxOrders=2,
               need=("value_error", "overflow_error", "has_trade"), timeout=400 if q else 1800)
    py_env_gen(ck, "py_env_toggle", seeds=2 if q else 4, StepSize=3, Ops=["new", "step", "disable", "enable"], Kinds=["L", "M"],
               Prices=[10], Vols=[1], MaxSubmits=2 if q else 3, MaxBatch=2, MaxSteps=2, MaxOrders=2,
               need=("op_disable", "has_trade"), timeout=400 if q else 1800)
    # environments and books CONSTRUCTED with trading disabled: the first switch is then an enable
    py_env_gen(ck, "py_env_toggle_off0", seeds=2 if q else 4, StepSize=3, Trading0=False, Ops=["new", "step", "disable", "enable"], Kinds=["L", "M"],
               Prices=[10], Vols=[1], MaxSubmits=2 if q else 3, MaxBatch=2, MaxSteps=2, MaxOrders=2,
               need=("op_enable", "has_trade"), timeout=400 if q else 1800)
    py_env_gen(ck, "py_numpy_toggle_off0", mode="numpy", seeds=2, StepSize=3, Trading0=False, Ops=["new", "step", "disable", "enable"], Kinds=["L"],
               Prices=[10], Vols=[1], MaxSubmits=2, MaxBatch=2, MaxSteps=2, MaxOrders=2, need=("op_enable", "has_trade"), timeout=400 if q else 1800)
    py_book_gen(ck, "py_book_toggle_off0", Ops=["cap", "disable", "enable"], Trading0=False, Prices=[10], Vols=[1], Kinds=["L", "M"],
                MaxOrders=3, MaxOps=4, need=("op_enable", "has_trade"), timeout=300 if q else 1500)
    # long random call sequences through the Python OrderBook, validated by TLC against the same trace specification
    # as the Rust recorder's (BookTrace.tla, Python clauses)
    py_traces(ck, "py_rand_book", "book", files=4 if q else 32, runs=3 if q else 6, ops=150)
    # StepEnv driven by the Python runner bourse.step_sim.run with (wrapped) RandomAgent members: loop structure, the
    # environment's behaviour and the Python RandomAgent relation, validated by TLC (PyTrace.tla)
    py_traces(ck, "py_runner_sims", "sim", files=4 if q else 32, runs=4 if q else 8, ops=14 if q else 40, engine=True)
    # long random call sequences through StepEnv / StepEnvNumpy with the specification's environment run alongside
    # (PyEnvTrace.tla): every submission applied to the specification, every step explained by an inferred processing order,
    # order table and trade log equal to the specification's after every event
    py_traces(ck, "py_rand_env_engine", "env", files=4 if q else 32, runs=2 if q else 4, ops=120, engine=True)
    py_traces(ck, "py_rand_numpy_engine", "numpy", files=4 if q else 32, runs=2 if q else 4, ops=120, engine=True)
    py_scenarios(ck)
    return ck.finish("model_checking", LEVEL_TEXT, PY_RULE + "paths with at least one trade",
                     ("py_book_calls.has_trade", "py_book_toggle_snapshots.has_trade", "py_env_calls.has_trade"))


def c19(tier, seed):
    ck = Check("C19", tier, seed)
    q = ck.quick
    # asymmetric books over several price levels: every cell of the two observation arrays, every key of the
    # dictionary, every data-frame column; StepEnv and StepEnvNumpy
    common = dict(StepSize=4, Ops=["new", "cancel", "step"], Kinds=["L"], Prices=[10, 13] if q else [10, 11, 13], Vols=[1, 3], Traders=[5],
                  MaxSubmits=3 if q else 4, MaxBatch=3, MaxSteps=2, MaxOrders=3 if q else 4)
    py_env_gen(ck, "py_env_layout", mode="env", seeds=2 if q else 6, need=("asymmetric", "multi_step", "has_trade", "has_cancel"),
               timeout=400 if q else 1800, **common)
    py_env_gen(ck, "py_numpy_layout", mode="numpy", seeds=2 if q else 6, need=("asymmetric", "multi_step", "has_trade", "has_cancel"),
               timeout=400 if q else 1800, **common)
    # deeper books on a coarser grid (levels 0..9 populated differently on the two sides), market orders, modifies
    py_env_gen(ck, "py_env_layout_deep", mode="env", seeds=2 if q else 4, Ticks=(2,), StepSize=6, Ops=["new", "modify", "step"], Kinds=["L"] if q else ["L", "M"],
               Prices=[10, 14, 28], Vols=[2] if q else [2, 5], Sides=["B", "A"], ModPrices=[-1, 12] if q else [-1, 10, 12, 14], ModVolsAbs=[-1, 1], MaxSubmits=3, MaxBatch=3,
               MaxSteps=2 if q else 3, MaxOrders=3, need=("asymmetric", "has_modify", "has_trade"), timeout=400 if q else 1800)
    # re-pricing onto the other side's touch with two volumes: a re-priced order that is only partly filled rests with what is left,
    # and the cells and series of its side show that
    py_env_gen(ck, "py_env_layout_requeue", mode="env", seeds=2, Ticks=(2,), StepSize=6, Ops=["new", "modify", "step"], Kinds=["L"], Prices=[10, 14], Vols=[2, 5],
               Sides=["B", "A"], ModPrices=[10, 14], ModVolsAbs=[-1], MaxSubmits=3, MaxBatch=3, MaxSteps=2, MaxOrders=2,
               need=("asymmetric", "has_modify", "has_trade"), timeout=400 if q else 1800)
    # the lower end of the price range: every resting bid at the limit price 0, which is also what an empty bid side shows as its
    # touch price - the per-level cells and series must still hold that level's volume and order count (both environments)
    low = dict(common, Prices=[0, 2], MaxSubmits=3, MaxOrders=3)
    py_env_gen(ck, "py_env_layout_low", mode="env", seeds=2, need=("asymmetric", "has_trade"), timeout=400 if q else 1800, **low)
    py_env_gen(ck, "py_numpy_layout_low", mode="numpy", seeds=2, need=("asymmetric", "has_trade"), timeout=400 if q else 1800, **low)
    # data-frame helpers on books with partially filled, cancelled, rejected and modified orders
    py_book_gen(ck, "py_book_frames", Ops=["cap", "cancel", "modify", "disable"], Prices=[10, 11], Vols=[1, 3], ModPrices=[-1],
                ModVols=["smaller", "larger"], MaxOrders=3, MaxOps=3 if q else 4, need=("has_trade", "op_modify", "op_cancel"),
                timeout=300 if q else 1500)
    # random states: both environments driven with wide alphabets; TLC recomputes every array cell, dictionary entry and
    # frame column from the order table and trade log the same object reports (PyTrace.tla)
    py_traces(ck, "py_rand_env", "env", files=4 if q else 32, runs=3 if q else 6, ops=40)
    py_traces(ck, "py_rand_numpy", "numpy", files=4 if q else 32, runs=3 if q else 6, ops=40)
    py_scenarios(ck)
    return ck.finish("model_checking", LEVEL_TEXT, PY_RULE + "paths on which bid and ask quantities differ (asymmetric books)",
                     ("py_env_layout.asymmetric", "py_numpy_layout.asymmetric", "py_env_layout_deep.asymmetric"))


CHECKS = {"C18": c18, "C19": c19, "C01": c01, "C02": c02, "C03": c03, "C04": c04, "C05": c05, "C06": c06, "C07": c07, "C08": c08, "C09": c09, "C10": c10, "C11": c11, "C14": c14, "C15": c15, "C16": c16, "C17": c17, "C20": c20, "C12": c12, "C13": c13}


def replay(prop, path):
    """Re-run one saved case through the real code (and TLC for traces)."""
    v = json.load(open(path))
    core.build_harness()
    if v.get("replayer"):
        if isinstance(v["replayer"], list):
            core.build_pyext()
            r = subprocess.run(v["replayer"] + v.get("rargs", []) + ["--case", path], text=True, capture_output=True, env=core.pyenv())
        else:
            r = subprocess.run([os.path.join(core.BIN, v["replayer"])] + v.get("rargs", []) + ["--case", path],
                               text=True, capture_output=True, env=dict(os.environ, VERIF_WORK=core.WORK))
        print(r.stdout.strip()[-3000:])
        try:
            bad = json.loads(r.stdout.strip().splitlines()[-1]).get("n_mismatch", 0) > 0
        except Exception:
            return 2
        if bad:
            print("VIOLATION property=%s replay=%s" % (prop, path))
            return 1
        if v.get("spec_flag"):
            print("KNOWN-FINDING: property=%s the case is reproduced exactly by the specification run with its named deviation (%s); that state breaks the property's clause" % (prop, v["spec_flag"]))
        return 0
    print(json.dumps({k: v[k] for k in v if k in ("what", "history", "reject", "seed", "profile")}, indent=1)[:6000])
    print("(trace case: re-run the recorder with the seed and profile above to regenerate the trace)")
    return 0
