"""The property checks.  Each function runs the stages that decide one property and
returns the exit code.  See DESIGN.md section 6 for what each stage contributes."""
import json, os, subprocess, sys
from . import core
from .core import MAXPRICE, ToolError, log
from .runner import Check

ALL_INV = ["Inv_C01_QueueSorted", "Inv_C02_ViewsAgree", "Inv_C02_ViewsConsistent", "Inv_C02_NotCrossed",
           "Inv_C03_WellFormed", "Inv_C03_Conservation", "Inv_C03_Counter", "Inv_C04_State",
           "Inv_C12_OnGrid", "Inv_C12_LevelsAccount"]
ALL_ACT = ["Act_C01_TradesTakeHead", "Act_C01_Exhaustive", "Act_C01_RestsLast", "Act_C03_AppendOnly",
           "Act_C03_Admitted", "Act_C04_Transitions", "Act_C04_NoOps", "Act_C06_Modify",
           "Act_C12_RejectedCreate", "Act_C13_NoTradesOff", "Act_C13_MarketRejected", "Act_C13_ToggleStutters"]

GEN = ("INIT GInit", "NEXT GNext", "INVARIANT Emit", "CONSTRAINT Constr")
GEN_DRAIN = ("INIT GInit", "NEXT GNext", "INVARIANT EmitDrain", "CONSTRAINT Constr")

LEVEL_TEXT = ("TLC model-checks the TLA+ specification (invariants and action properties named per clause) and the "
              "specification is bound to the code in both directions: every TLC-generated history is replayed into the "
              "real object with full-projection comparison, and traces recorded from the real code are validated by TLC.")


def bc(**kw):
    """Constants of Book.tla with defaults (3 grid prices x 2 volumes x both sides x limit/market)."""
    c = dict(MaxPrice=MAXPRICE, NLevels=4, Tick=1, Trading0=True, Ops=["cap", "cancel"], Dts=[1],
             Sides=["B", "A"], Kinds=["L", "M"], Prices=[10, 11, 12], Vols=[1, 2], Traders=[7],
             ModPrices=[-1], ModVols=[], MaxOrders=3, MaxOps=4, Discipline=True)
    c.update(kw)
    return c


def rb_args(c, **kw):
    a = ["--levels", c["NLevels"], "--tick", c["Tick"], "--trading", "true" if c["Trading0"] else "false"]
    for k, v in kw.items():
        a += ["--" + k.replace("_", "-"), v]
    return a


def book_gen(ck, name, cfg=GEN_DRAIN, need=(), timeout=600, workers=12, **kw):
    c = bc(**kw)
    extra = {}
    if "trunc_every" in kw:
        extra["trunc_every"] = c.pop("trunc_every")
    return ck.gen(name, "BookGen", c, "replay_book", rb_args(c, **extra), cfg=cfg, need=need, timeout=timeout, workers=workers)


def book_mc(ck, name, inv=ALL_INV, act=ALL_ACT, timeout=600, workers=12, **kw):
    return ck.mc(name, "Book", bc(**kw), invariants=inv, properties=act, timeout=timeout, workers=workers)


def setup():
    core.build_harness()
    return 0


# ---------------------------------------------------------------------------------------------
def c01(tier, seed):
    ck = Check("C01", tier, seed)
    q = ck.quick
    # the specification itself: declarative priority clauses hold on the operational matching engine
    book_mc(ck, "mc_api", Ops=["cap", "create", "place", "cancel", "event", "settime"], Dts=[0, 1],
            Prices=[10, 11], MaxOrders=3, MaxOps=3 if q else 4, timeout=300 if q else 900)
    # every history of create-and-place / cancel over 3 prices x 2 volumes x 2 sides x limit/market
    book_gen(ck, "gen_cap_cancel", Ops=["cap", "cancel"], MaxOrders=3 if q else 4, MaxOps=4 if q else 6,
             need=("has_trade", "sweep_two_levels", "resting_partially_filled_or_resized", "cancelled_order"),
             timeout=300 if q else 1500)
    # the split API (create, place, process_event, set_time) with clock advance 0 or 1, ticks 3 and level count 2
    book_gen(ck, "gen_split_api", Ops=["create", "place", "cancel", "event", "settime"], Dts=[0, 1], Tick=3, NLevels=2,
             Prices=[9, 12], Vols=[1, 2] if q else [1, 2, 3], Kinds=["L", "M"], MaxOrders=2 if q else 3, MaxOps=4 if q else 5,
             need=("has_trade", "unplaced_order"), timeout=300 if q else 1500)
    # long random histories over wide alphabets, recorded from the real code and validated by TLC
    ck.traces_stage("rand", "record_book", {"discipline": True}, files=8 if q else 64, runs=2 if q else 4, ops=300)
    return ck.finish("model_checking", LEVEL_TEXT,
                     "histories: every path of the bounded generator configs (one TLC state = one history) plus seeded random "
                     "runs; non-trivial = generated histories containing at least one trade + recorded events with trades",
                     ("gen_cap_cancel.has_trade", "gen_split_api.has_trade", "rand.events_with_trades"))


CHECKS = {"C01": c01}


def replay(prop, path):
    """Re-run one saved case through the real code (and TLC for traces)."""
    v = json.load(open(path))
    core.build_harness()
    if v.get("replayer"):
        r = subprocess.run([os.path.join(core.BIN, v["replayer"])] + v.get("rargs", []) + ["--case", path],
                           text=True, capture_output=True, env=dict(os.environ, VERIF_WORK=core.WORK))
        print(r.stdout.strip()[-3000:])
        try:
            bad = json.loads(r.stdout.strip().splitlines()[-1]).get("n_mismatch", 0) > 0
        except Exception:
            return 2
        if bad:
            print("VIOLATION property=%s replay=%s" % (prop, path))
            return 1
        return 0
    print(json.dumps({k: v[k] for k in v if k in ("what", "history", "reject", "seed", "profile")}, indent=1)[:6000])
    print("(trace case: re-run the recorder with the seed and profile above to regenerate the trace)")
    return 0
