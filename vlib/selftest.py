"""./check selftest - demonstrations that the binding binds (DESIGN.md 5.6).

Every item must behave as stated, otherwise the machinery is broken (exit 2):
 1. corrupted recorded traces are rejected by TLC at exactly the corrupted event
    (book trace: an order field, an entry key, a view; environment trace: an arrival time, in hook and
    in inference mode; a dropped schedule entry; Python trace: an array cell);
 2. mutated specifications are refuted by the unchanged implementation (gen-replay reports mismatches);
 3. the refinement check can fail: the pre-repair keying with ties is refuted by TLC (finding F1 as a
    design counterexample);
 4. every action of the all-actions book generator occurs in the histories actually replayed.
"""
import copy, json, os, re, shutil, subprocess, sys
from . import core
from .core import log, ToolError, MAXPRICE


def _lines(p):
    return [json.loads(x) for x in open(p)]


def _write(p, L):
    with open(p, "w") as f:
        f.write("\n".join(json.dumps(e) for e in L) + "\n")


def _expect_reject(tag, module, L, idx, mutate, consts=None, view=None, why=None, at_idx=None, **kw):
    M = copy.deepcopy(L)
    mutate(M[idx])
    p = os.path.join(core.WORK, "selftest", tag + ".ndjson")
    _write(p, M)
    r = core.validate_trace("selftest_" + tag, module, p, consts=consts, view=view, **kw)
    at = (r["reject"] or {}).get("at")
    ok = (not r["accepted"]) and at == (idx if at_idx is None else at_idx) + 1 and (why is None or why in str((r["reject"] or {}).get("why")))
    log("[selftest] %-34s corrupted event %d -> %s at %s (%s)" % (tag, idx + 1, "rejected" if not r["accepted"] else "ACCEPTED", at, (r["reject"] or {}).get("why")))
    return ok


SPEC_MUTATIONS = [
    # (name, module, old, new, generator kind)
    ("admits_strict", "BookOps.tla", 'Admits(s, lim, pp) == IF s = "B" THEN lim >= pp ELSE lim <= pp', 'Admits(s, lim, pp) == IF s = "B" THEN lim > pp ELSE lim < pp', "book"),
    ("insert_at_front_of_price", "BookOps.tla", "~Better(s, p, O(b, q[i]).price)})", "Better(s, O(b, q[i]).price, p)})", "book"),
    ("trade_at_aggressor_price", "BookOps.tla", "tr == [t |-> b.now, side |-> p.side, price |-> p.price,", "tr == [t |-> b.now, side |-> p.side, price |-> o.price,", "book"),
    ("market_remainder_rejected", "BookOps.tla", '''              ELSE [b2 EXCEPT !.orders[id + 1].status = "Cancelled",
                              !.orders[id + 1].end = b.now]''', '''              ELSE [b2 EXCEPT !.orders[id + 1].status = "Rejected",
                              !.orders[id + 1].end = b.now]''', "book"),
    ("reduce_loses_priority", "BookOps.tla", 'ELSE IF np = None /\\ nv < O(b, id).vol THEN "reduce"', 'ELSE IF np = None /\\ nv < 0 THEN "reduce"', "book"),
    ("cancel_keeps_queue", "BookOps.tla", "  ELSE LET b1 == Dequeue(b, id) IN\n       [b1 EXCEPT !.orders[id + 1].status = \"Cancelled\",", "  ELSE LET b1 == b IN\n       [b1 EXCEPT !.orders[id + 1].status = \"Cancelled\",", "book"),
    ("step_time_off_by_one", "MarketOps.tla", "ProcessF(books, pending[perm[k]], start + k - 1)", "ProcessF(books, pending[perm[k]], start + k)", "env"),
    ("step_keeps_queue", "MarketOps.tla", "               !.pending = <<>>,\n               !.l2 =", "               !.l2 =", "env"),
    # Sim.tla: an active agent with a live order submits a new order instead of cancelling it; the runner takes two steps per round
    ("sim_agent_never_cancels", "Sim.tla", '    ELSE IF sl[i] # None /\\ O(bk, sl[i]).status = "Active"', '    ELSE IF FALSE /\\ sl[i] # None /\\ O(bk, sl[i]).status = "Active"', "sim"),
    ("sim_trader_ids_off_by_one", "Sim.tla", "tr |-> i - 1,", "tr |-> i,", "sim"),
    ("py_bid_is_false", "PyView.tla", 'IsBid(s) == s = "B"', 'IsBid(s) == s = "A"', "pybook"),
    ("py_l1_volumes_swapped", "PyView.tla", "     l2[3],         \\* 3  bid total volume\n     l2[4],         \\* 4  ask total volume", "     l2[4],\n     l2[3],", "pyenv"),
    ("py_dict_counts_swapped", "PyView.tla", '            [] k = "n_bid_" \\o ToString(i)   -> l2[5][i + 1][2]', '            [] k = "n_bid_" \\o ToString(i)   -> l2[6][i + 1][2]', "pyenv"),
]


def _mutated_gen(name, module, old, new, kind):
    from . import props
    from .runner import Check
    src = open(os.path.join(core.SPEC, module)).read()
    if old not in src:
        raise ToolError("selftest: mutation %s no longer applies to %s" % (name, module))
    backup = os.path.join(core.WORK, "selftest", module + ".orig")
    shutil.copy(os.path.join(core.SPEC, module), backup)
    ck = Check("SELFTEST", "quick", 1)
    try:
        # run_dir copies spec/*.tla: mutate the copy source temporarily through an overlay directory
        core.SPEC_OVERLAY = {module: src.replace(old, new, 1)}
        if kind == "book":
            props.book_gen(ck, "m_" + name, Ops=["cap", "cancel", "modify"], ModPrices=[-1, 11], ModVols=["smaller", "larger"], MaxOrders=3, MaxOps=4)
        elif kind == "env":
            props.env_gen(ck, "m_" + name, kind="env", seeds=2, StepSize=3, MaxSubmits=3, MaxBatch=3, MaxSteps=2)
        elif kind in ("sim", "sim3"):
            try:
                props.sim_outcomes(ck, "m_" + name, seeds=4000, NSteps=3 if kind == "sim3" else 2, **({"Rate": "one"} if kind == "sim3" else {}))
            except ToolError as e:
                if "invariant" in str(e):        # the mutated model violates its own simulation invariants: equally a refutation
                    ck.violations.append({"stage": name, "what": str(e)[:200], "payload": {}})
                else:
                    raise
        elif kind == "pybook":
            props.py_book_gen(ck, "m_" + name, Ops=["cap", "cancel"], Prices=[10, 11], Vols=[1], MaxOrders=2, MaxOps=3)
        else:
            props.py_env_gen(ck, "m_" + name, seeds=1, StepSize=4, Ops=["new", "step"], Kinds=["L"], Prices=[10, 13], Vols=[1, 3], MaxSubmits=3,
                             MaxBatch=3, MaxSteps=1, MaxOrders=3)
    finally:
        core.SPEC_OVERLAY = {}
    n = len(ck.violations)
    log("[selftest] spec mutation %-28s -> %d mismatches against the unchanged implementation" % (name, n))
    return n > 0


def run():
    core.build_harness()
    core.build_pyext()
    d = os.path.join(core.WORK, "selftest")
    shutil.rmtree(d, ignore_errors=True)
    os.makedirs(d)
    results = {}
    # ---- 1. corrupted traces --------------------------------------------------------------
    bt = os.path.join(d, "book.ndjson")
    subprocess.run([os.path.join(core.BIN, "record_book"), "--out", bt, "--seed", "77", "--runs", "1", "--ops", "160",
                    "--profile", json.dumps({"discipline": True, "w": {"modify": 4}})], check=True, capture_output=True)
    L = _lines(bt)
    i_do = [k for k, e in enumerate(L) if e.get("do") and e["op"] != "reset"][30]
    i_dk = [k for k, e in enumerate(L) if e.get("dk") and e["op"] != "reset"][20]
    i_tr = [k for k, e in enumerate(L) if e.get("newtr")][3]

    def bump(path):
        def f(e):
            x = e
            for k in path[:-1]:
                x = x[k]
            x[path[-1]] += 1
        return f
    results["book_order_volume"] = _expect_reject("book_order_volume", "BookTrace", L, i_do, bump(["do", 0, 1, 4]))
    # an entry key is an internal: a mismatch is reported as IMPL-DIVERGED (model out of date), never as a violation
    M = copy.deepcopy(L)
    bump(["dk", 0, 1, 1])(M[i_dk])
    _write(os.path.join(d, "book_entry_key.ndjson"), M)
    r = core.validate_trace("selftest_book_entry_key", "BookTrace", os.path.join(d, "book_entry_key.ndjson"))
    results["book_entry_key_reported_as_divergence_not_violation"] = bool(r["accepted"] and r["impl_diverged"] and r["impl_diverged"].get("at") == i_dk + 1)
    log("[selftest] %-34s corrupted event %d -> accepted=%s, IMPL-DIVERGED %s" % ("book_entry_key", i_dk + 1, r["accepted"], r["impl_diverged"]))
    results["book_trade_passive_id"] = _expect_reject("book_trade_passive_id", "BookTrace", L, i_tr, bump(["newtr", 0, 5]))
    results["book_view_bid_volume"] = _expect_reject("book_view_bid_volume", "BookTrace", L, i_do, bump(["views", "bvol"]), why="views")
    et = os.path.join(d, "env.ndjson")
    subprocess.run([os.path.join(core.BIN, "record_env"), "--out", et, "--seed", "5", "--runs", "2", "--ops", "80", "--profile", "{}"],
                   check=True, capture_output=True)
    E = _lines(et)
    steps = [k for k, e in enumerate(E) if e["op"] == "step" and len(e.get("sched", [])) >= 3 and any(b["do"] for b in e["books"])]
    i_st = steps[len(steps) // 2]

    def arr_plus_one(e):
        for b in e["books"]:
            if b["do"]:
                b["do"][0][1][2] += 1
                return
    for hook in (True, False):
        c = {"MaxPrice": MAXPRICE, "UseHook": hook}
        results["env_arrival_time_hook_%s" % hook] = _expect_reject("env_arrival_time_hook_%s" % hook, "EnvTrace", E, i_st, arr_plus_one, consts=c, view="View")
    results["env_schedule_entry_dropped"] = _expect_reject("env_schedule_entry_dropped", "EnvTrace", E, i_st, lambda e: e["sched"].pop(0),
                                                           consts={"MaxPrice": MAXPRICE, "UseHook": True}, view="View", why="permutation")
    results["env_cached_level2"] = _expect_reject("env_cached_level2", "EnvTrace", E, i_st, bump(["l2", 0, 2]), consts={"MaxPrice": MAXPRICE, "UseHook": True}, view="View")
    pt = os.path.join(d, "py.ndjson")
    subprocess.run(core.pycmd("pyrecord.py", "--mode", "numpy", "--out", pt, "--seed", "9", "--runs", "1", "--ops", "40"), check=True, capture_output=True, env=core.pyenv())
    P = _lines(pt)
    i_py = [k for k, e in enumerate(P) if e["op"] == "step" and e["l1"][3] != e["l1"][4]][1]

    def swap34(e):
        e["l1"][3], e["l1"][4] = e["l1"][4], e["l1"][3]
    results["py_array_cells_swapped"] = _expect_reject("py_array_cells_swapped", "PyTrace", P, i_py, swap34, consts={"MaxPrice": MAXPRICE}, why="l1_array")
    # the same trace with the specification's environment run alongside (PyEnvTrace.tla): the array corruption is still
    # rejected; and a corruption that only the engine can see - the id a queued cancellation was submitted for is changed in
    # the log, so that the specification cancels another order at the next step - is rejected at that step by PyEnvTrace and
    # accepted by PyTrace alone (which judges a step only by its schedule-independent clauses)
    EK = dict(spec="ESpec", post="EAccepted")
    results["pyenv_engine_array_cells_swapped"] = _expect_reject("pyenv_engine_array_cells_swapped", "PyEnvTrace", P, i_py, swap34, consts={"MaxPrice": MAXPRICE},
                                                                 view="EView", why="l1_array", **EK)
    pt2 = os.path.join(d, "py_env.ndjson")
    subprocess.run(core.pycmd("pyrecord.py", "--mode", "env", "--out", pt2, "--seed", "21", "--runs", "1", "--ops", "120"), check=True, capture_output=True, env=core.pyenv())
    P2 = _lines(pt2)
    cand = None
    for k, e in enumerate(P2):
        if e["op"] == "submit" and e.get("k") == "cancel" and e["orders"][e["ids"][0]][1] == 1:
            nxt = next(j for j in range(k + 1, len(P2)) if P2[j]["op"] == "step")
            other = [i for i, o in enumerate(e["orders"]) if o[1] == 1 and i != e["ids"][0] and P2[nxt]["orders"][i][1] == 1]
            if P2[nxt]["orders"][e["ids"][0]][1] == 3 and other:
                cand = (k, nxt, other[0])
                break
    if cand is None:
        raise ToolError("selftest: no effective cancellation in the recorded Python environment trace")

    def relabel(e):
        e["ids"][0] = cand[2]
    results["pyenv_engine_cancel_label"] = _expect_reject("pyenv_engine_cancel_label", "PyEnvTrace", P2, cand[0], relabel, consts={"MaxPrice": MAXPRICE},
                                                          view="EView", at_idx=cand[1], why="ENGINE", **EK)
    M2 = copy.deepcopy(P2)
    relabel(M2[cand[0]])
    p2 = os.path.join(core.WORK, "selftest", "pyenv_label_plain.ndjson")
    _write(p2, M2)
    results["pytrace_alone_cannot_see_it"] = core.validate_trace("selftest_pyenv_label_plain", "PyTrace", p2, consts={"MaxPrice": MAXPRICE})["accepted"]
    log("[selftest] the same relabelled trace under PyTrace alone: %s" % ("accepted (the engine adds the power)" if results["pytrace_alone_cannot_see_it"] else "rejected"))
    # ---- 1b. helper-function traces (HelperTrace.tla): a quote moved one tick to the wrong side of the mid-price, and a
    #          cancellation helper that "keeps" an id it was not given, are rejected at that event ---------------------------
    ht = os.path.join(d, "helpers.ndjson")
    subprocess.run([os.path.join(core.BIN, "record_helpers"), "--out", ht, "--seed", "3", "--runs", "20", "--ops", "0", "--profile", "{}"], check=True, capture_output=True)
    H = _lines(ht)
    tick_of, cur = {}, 1
    for k, e in enumerate(H):
        if e["op"] == "reset":
            cur = e["tick"]
        tick_of[k] = cur
    i_q = [k for k, e in enumerate(H) if e["op"] == "quote" and e["buy"] and e["a4"] == [0, 0] and e["m2"][0] < 1000 and e["m2"][1] % 2 == 0
           and (e["m2"][1] // 2) % tick_of[k] == 0 and e["m2"][1] + 2 * tick_of[k] < 65536][0]

    def above_mid(e):
        # distance 0 and the mid-price on the grid: the buy is quoted AT the mid-price; one tick higher is above it
        e["order"]["price"][1] += tick_of[i_q]
    results["helper_buy_above_mid_price"] = _expect_reject("helper_buy_above_mid_price", "HelperTrace", H, i_q, above_mid, consts={}, why="buy_at_or_below_mid")
    i_c = [k for k, e in enumerate(H) if e["op"] == "cancel_live" and e["instrs"]][0]
    results["helper_cancel_kept_and_cancelled"] = _expect_reject("helper_cancel_kept_and_cancelled", "HelperTrace", H, i_c,
                                                                 lambda e: e["kept"].append(e["instrs"][0]["id"]), consts={}, why="kept_")
    # ---- 1c. known finding F3 as a named deviation: with FollowF3 = TRUE the specification reproduces the code on histories with
    #          off-grid modify requests and flags its own off-grid states; with FollowF3 = FALSE (the property) the same histories
    #          are mismatches - the deviation is real, and it is the ONLY thing the flag absorbs ---------------------------------
    from .runner import Check as _Check
    from . import props as _props
    for follow in (True, False):
        ckf = _Check("SELFTEST", "quick", 1)
        tl, summ = _props.book_gen(ckf, "f3_follow_%s" % follow, Ops=["cap", "modify"], Tick=2, Prices=[10, 12], Vols=[1], Kinds=["L"],
                                   ModPrices=[-1, 11, 12], ModVols=["none"], MaxOrders=2, MaxOps=3, FollowF3=follow)
        if follow:
            results["f3_deviation_reproduces_the_code_and_is_flagged_by_TLC"] = summ.get("n_mismatch", 1) == 0 and summ.get("n_spec_flags", 0) > 0
        else:
            results["f3_without_the_deviation_the_code_mismatches"] = summ.get("n_mismatch", 0) > 0 and summ.get("n_spec_flags", 0) == 0
        log("[selftest] off-grid modify requests, FollowF3 = %s: %d mismatches, %d histories flagged by the specification" % (follow, summ.get("n_mismatch", 0), summ.get("n_spec_flags", 0)))
    # ---- 2. mutated specifications -----------------------------------------------------------
    for m in SPEC_MUTATIONS:
        results["spec_mutation_" + m[0]] = _mutated_gen(*m)
    # ---- 3. the refinement check can fail -----------------------------------------------------
    from .props import bc
    c = bc(Ops=["cap", "cancel"], Dts=[0], Prices=[10], Vols=[1], MaxOrders=3, MaxOps=3, Discipline=False, FixTies=False, NLevels=1)
    tl, text = core.tlc_check("selftest_impl_f1", "BookImplMC", c, ["INIT Init", "NEXT Next", "CONSTRAINT Constr", "INVARIANT Inv_Refines"], workers=2, timeout=300)
    results["refinement_refutes_pre_repair_keying_with_ties"] = "Inv_Refines is violated" in text
    log("[selftest] BookImplMC with FixTies = FALSE and ties: %s" % ("refuted (finding F1 as a design counterexample)" if results["refinement_refutes_pre_repair_keying_with_ties"] else "NOT refuted"))
    # ---- 3b. the liveness properties are not vacuous: without the fairness assumption TLC refutes them --------
    tl, text = core.tlc_check("selftest_unfair", "BookLive", dict(MaxPrice=MAXPRICE, Tick=1, MaxOrders=2, Prices=[10], Vols=[1], Sides=["B", "A"], Kinds=["L"]),
                              ["SPECIFICATION SpecUnfair", "PROPERTY Progress", "PROPERTY Quiesce"], workers=2, timeout=300)
    results["liveness_needs_fairness"] = "Temporal properties" in text and "violated" in text
    log("[selftest] BookLive without fairness: %s" % ("Progress / Quiesce refuted (negative control)" if results["liveness_needs_fairness"] else "NOT refuted"))
    # ---- 3c. the inductive check can fail: an engine that queues in FRONT of equal prices is refuted by Apalache, and a
    #          BookInd.tla that differs from BookOps.tla is refuted by the TLC lock-step ----------------------------------
    src = open(os.path.join(core.SPEC, "BookInd.tla")).read()
    old = "~Better(s, p, tab[q[i]].price)})"
    if old not in src:
        raise ToolError("selftest: BookInd mutation no longer applies")
    mut = src.replace(old, "Better(s, tab[q[i]].price, p)})").replace("MODULE BookInd", "MODULE BookIndMut")
    with open(os.path.join(core.SPEC, "BookIndMut.tla"), "w") as f:
        f.write(mut)
    try:
        oc, wall, tail = core.apalache_check("selftest_apa_mut", "BookIndMut", ["--cinit=ConstInit3", "--init=IndInit", "--inv=IndInv", "--length=1"], timeout=900)
    finally:
        os.remove(os.path.join(core.SPEC, "BookIndMut.tla"))
    results["apalache_refutes_insert_in_front"] = oc == "Error"
    log("[selftest] Apalache inductive step on the mutated engine (insert in front of equal prices): %s (%.0fs)" % (oc, wall))
    core.SPEC_OVERLAY = {"BookInd.tla": src.replace(old, "Better(s, tab[q[i]].price, p)})")}
    try:
        tl, text = core.tlc_check("selftest_lockstep_mut", "BookIndMC", dict(N=3, Tick=1, MaxPrice=MAXPRICE, Prices=[10, 11], Vols=[1, 2], MaxOps=4),
                                  ["INIT MInit", "NEXT MNext", "INVARIANT Inv_Agree"], workers=4, timeout=300)
    finally:
        core.SPEC_OVERLAY = {}
    results["lockstep_refutes_divergent_bookind"] = "Inv_Agree is violated" in text
    log("[selftest] BookIndMC with the mutated BookInd: %s" % ("Agree refuted" if results["lockstep_refutes_divergent_bookind"] else "NOT refuted"))
    # ---- 4. vacuity: every action of the all-actions generator occurs in the histories actually replayed ----
    from .runner import Check
    from . import props
    ck = Check("SELFTEST", "quick", 1)
    ops = ["cap", "create", "place", "cancel", "modify", "event", "settime", "enable", "disable", "resettv", "reload"]
    props.book_gen(ck, "all_actions", cfg=props.GEN, Ops=ops, Dts=[0, 1], Prices=[10, 11], Vols=[1], ModPrices=[-1, 11], ModVols=["none", "larger"],
                   MaxOrders=2, MaxOps=3, Discipline=True)
    missing = [o for o in ops if not ck.features.get("all_actions.op_" + o)]
    results["coverage_every_action_taken"] = not missing and not ck.violations
    log("[selftest] actions exercised by the all-actions generator: " + ", ".join("%s=%s" % (o, ck.features.get("all_actions.op_" + o, 0)) for o in ops))
    bad = [k for k, v in results.items() if not v]
    out = os.path.join(core.VERIF, "selftest.json")
    json.dump({"results": results, "failed": bad}, open(out, "w"), indent=1)
    log("[selftest] %d demonstrations, %d failed%s" % (len(results), len(bad), (": " + ", ".join(bad)) if bad else ""))
    return 2 if bad else 0
