"""Writes /verif/MANIFEST.json from the table below:  python3 -m vlib.manifest"""
import json, os

VERIF = os.path.dirname(os.path.dirname(os.path.abspath(__file__)))

MC_NOTE = ("Trusted: TLC, the TLA+ specification as a faithful reading of the property text, the harness projection "
           "(public getters only; sentinels u32::MAX <-> 2^30 and u64::MAX <-> -1). Bounded: exhaustive only within the "
           "stated small constants; random beyond.")

# id -> (built?, technique, level text, design ref, note)
TABLE = {
    "C01": ("TLA+ spec (Book.tla) model-checked by TLC; all TLC-generated histories replayed into OrderBook with full-state comparison and drain probe; recorded random traces validated by TLC (BookTrace.tla)",
            "Model checking of the reference matching engine's priority clauses on the specification, exhaustive replay of every bounded history into the real book (every intermediate state compared, queue order revealed by a drain probe), and TLC validation of long random traces recorded from the real book.",
            "6 C01"),
}

PENDING = {
}

ALL = ["C%02d" % i for i in range(1, 21)]


def main():
    checks, na = [], []
    for pid in ALL:
        if pid in TABLE:
            tech, text, ref = TABLE[pid]
            checks.append({
                "property_id": pid,
                "quick_cmd": "./check %s --tier quick" % pid,
                "thorough_cmd": "./check %s --tier thorough" % pid,
                "evidence_file": "evidence/%s.json" % pid,
                "replay_cmd_template": "./check %s --replay {path}" % pid,
                "engine": "tlc-bound",
                "level_claimed": {"category": "model_checking", "text": text, "design_ref": "DESIGN.md section " + ref},
                "level_note": MC_NOTE,
                "technique": tech,
            })
        else:
            na.append({"property_id": pid, "reason": PENDING.get(pid, "check not built yet (work in progress); see DESIGN.md section 6 for the planned TLA+ binding")})
    m = {
        "version": 1,
        "setup_cmd": "./check setup",
        "hooks": {
            "guard": "bourse_verif",
            "enable": "RUSTFLAGS='--cfg bourse_verif' (set in /verif/harness/.cargo/config.toml for the harness target dir only)",
            "baseline_off_cmd": "cd /repo && cargo test --workspace --no-fail-fast --offline",
            "source_commits": HOOK_COMMITS,
            "add_only": True,
        },
        "engines": [{"name": "tlc-bound", "path": "check", "serves_properties": [c["property_id"] for c in checks],
                     "kind_free_text": "python3 orchestrator: TLC (model checking, behaviour generation, trace validation) + Rust/Python conformance harnesses built against /repo's working tree"}],
        "checks": checks,
        "not_applicable": na,
        "notes": "One TLA+ specification (spec/*.tla) decides every claimed property; see DESIGN.md. known_findings.json lists genuine defects (fixed or recorded).",
    }
    with open(os.path.join(VERIF, "MANIFEST.json"), "w") as f:
        json.dump(m, f, indent=1)
    try:
        import jsonschema
        jsonschema.validate(m, json.load(open("/root/.vp/MANIFEST.schema.json")))
        print("MANIFEST.json valid:", len(checks), "checks,", len(na), "not applicable")
    except ImportError:
        print("MANIFEST.json written (jsonschema not importable here):", len(checks), "checks")


HOOK_COMMITS = []

if __name__ == "__main__":
    main()
