"""Writes /verif/MANIFEST.json from the table below:  python3 -m vlib.manifest"""
import json, os

VERIF = os.path.dirname(os.path.dirname(os.path.abspath(__file__)))

MC_NOTE = ("Trusted: TLC, the TLA+ specification as a faithful reading of the property text, the harness projection "
           "(public getters only; sentinels u32::MAX <-> 2^30 and u64::MAX <-> -1). Bounded: exhaustive only within the "
           "stated small constants; random beyond.")

# id -> (built?, technique, level text, design ref, note)
IND_TECH = "; Apalache proves the state clauses inductive for <= N orders with unbounded integers (BookInd.tla, tied to BookOps.tla by a TLC lock-step, BookIndMC.tla)"

BOOK_TECH = "TLA+ spec (BookOps/BookProps/Book.tla) model-checked by TLC; TLC-generated histories replayed into the real OrderBook with full-state comparison (also in translated number systems: prices next to 2^32, volumes above 2^31, epoch-like clocks); recorded random traces validated by TLC (BookTrace.tla, with the implementation-shaped model BookImpl.tla run in lock-step and bound through the entry keys of the JSON snapshot), also through the Python bindings"

ENV_TECH = "TLA+ spec (MarketOps.tla + EnvGen.tla): TLC enumerates every bounded path and, by power-set construction over all permutations, the complete set of outcomes allowed per path; real Env/MarketEnv run per path under several seeds: outcome-set membership (hook-free) + exact match for the hook-reported schedule; long random runs recorded from the real environments validated by TLC (EnvTrace.tla: hook schedule, or hook-free schedule inference; batches up to 48, quiet steps); Python environment traces validated with the specification's environment run alongside (PyEnvTrace.tla)"

TABLE = {
    "C01": (BOOK_TECH + "; drain probe reveals queue order",
            "Model checking of the reference matching engine's priority clauses on the specification, exhaustive replay of every bounded history into the real book (every intermediate state compared, queue order revealed by a drain probe), and TLC validation of long random traces recorded from the real book.",
            "6 C01"),
    "C02": (BOOK_TECH + "; ViewsO recomputation from the logged order table at every event" + IND_TECH,
            "Views computed from the queue equal views recomputed from the order table alone on every model state (TLC); every generated history's views compared with the real getters (ticks 1-2, levels 1-3, crossed books, reloads); on random traces TLC recomputes every view from the logged get_orders() at every event (ticks 1..10, levels 1..24); high-price regime (prices just below 2^32) and limit price 0; cross-feature stages (equal timestamps, requests before placement); Apalache: queues = active orders, sorted, never crossed while trading was never off, is inductive for <= 3 (thorough: 4) orders over all integers.",
            "6 C02"),
    "C03": (BOOK_TECH + "; ledger clauses (append-only, well-formed, conservation against submitted volumes, counter) evaluated per event; the same through environments (outcome sets of steps with partial fills and modifications of one order, EnvTrace.tla)",
            "Ledger clauses as TLC invariants/action properties on the model; trade log and counter are part of the compared projection of every generated history; on recorded traces TLC audits append-only, admission, conservation (against the volumes the harness submitted) and the counter.",
            "6 C03"),
    "C04": (BOOK_TECH + "; every request against every order in every status, no-op clause as full-projection equality",
            "Lifecycle transition relation as a TLC action property; generator alphabets issue every request against every order in every status (trading on and off) and the replayer compares the complete observable state, which is exactly the no-op clause; random traces with 30% redundant requests validated by TLC.",
            "6 C04"),
    "C05": (BOOK_TECH + " with the clock discipline removed (clock advance 0)",
            "The specification's queue is positional, so it has a definite answer for equal timestamps; all bounded histories with clock advance 0 (placements, re-queuing modifications, split API, reloads, toggles) replayed with drain probe, and random traces with 50% tie rate validated. Found and repaired defect F1.",
            "6 C05"),
    "C06": (BOOK_TECH + "; every modify shape on every order, drain probe",
            "C06 clause as TLC action property; every modify shape (price in {keep, each grid price} x volume in {keep, smaller, equal, larger}) on every order in every status of every bounded book, followed by the drain probe that reveals the queue; random traces with a high modify rate validated.",
            "6 C06"),
    "C07": (BOOK_TECH + "; reload modelled as identity, original and reloaded copies both driven on; truncation sweep",
            "Reload (string/file x compact/pretty) at every position of every bounded history with every continuation, original and up to three reloaded copies all compared with the specification after every later call; every strict prefix of sampled snapshots must be rejected with an error; random traces continue on the reloaded book.",
            "6 C07"),
    "C12": (BOOK_TECH + "; on/off-grid creations and modifications; known finding F3 as a named deviation of the specification (FollowF3): TLC flags the states that break C12_OnGrid, everything else on such histories is still compared",
            "Grid clauses as TLC invariants; generator alphabets with on- and off-grid prices for both creation calls and for modify (ticks 2, 3); random traces with arbitrary prices, ticks 2..10. Off-grid modify is a recorded known finding (F3): the stages that submit such requests run the specification with FollowF3 = TRUE, so that those histories are validated to their end and only the states TLC itself flags are attributed to the finding.",
            "6 C12"),
    "C13": (BOOK_TECH + "; trading toggles at every position",
            "C13 clauses as TLC action properties; toggles at every position of bounded histories (crossing placements/modifications while disabled, aggressors after re-enabling, rejected market orders), books starting disabled; random traces with frequent toggles.",
            "6 C13"),
    "C08": (ENV_TECH,
            "For every bounded path of submissions and steps (new limit/market orders, cancels, modifies, several instructions per order, orders created in the same step, single- and multi-asset, trading toggled) TLC computes the complete set of (schedule, outcome) pairs the specification allows - a step is the fold of the plain-book event operator over a permutation at times start+i, then clock = start + step size, queue empty, per-step traded volume. The real environment is run on each path under several seeds: its full projection (books, pending queue via hook, cached level 2, recorded series) must be a member of the set (hook-free decision) and must equal the specification's outcome for the schedule the hook reports. Clocks next to 2^64 and epoch-like clocks by time translation. Sim.tla: the runner loop over random agents as a state machine; complete simulations of 1..3 rounds through the real runner must be members of TLC's outcome sets (no hook, no steering of the generator).",
            "6 C08"),
    "C10": (ENV_TECH,
            "Every interleaving of submissions (including ones that would trade, cancel or re-price at once) and steps within the bounds; the specification changes only the queue and appends a New order, so full-projection equality after every submission is the property; cached level-2 = last record as TLC invariant and compared with the real env.level_2_data().",
            "6 C10"),
    "C11": (ENV_TECH,
            "All recorded series (touch prices, side volumes, per-level volumes and counts, touch getters, per-step traded volume, and the record structure itself) are part of the compared projection for every path, on asymmetric books, level counts 1, 3, 10 and three assets; lengths = number of steps as TLC invariant.",
            "6 C11"),
    "C14": ("TLA+ spec (MarketOps.tla: asset -> BookOps record, shared clock) with TLC-generated histories replayed into Market<2>/Market<3> (MarketGen.tla) and outcome sets for MarketEnv (EnvGen.tla)",
            "The specification is literally 'independent books sharing one clock'; every bounded history of direct operations over 2-3 assets with per-asset ticks (same local ids on several assets, per-asset and all-asset queries, reloads) is replayed into the real Market and compared asset by asset; independence as TLC action property; shuffled cross-asset batches through MarketEnv outcome sets.",
            "6 C14"),
    "C16": ("TLA+ relations (Agents.tla, Big.tla) between an agent's observation and the instructions it queued; every update call of seeded runs recorded from the real agents is validated by TLC (AgentTrace.tla); the public helper functions of agents::common driven directly with mid-prices and sampled distances of the harness's choosing and validated by TLC (HelperTrace.tla); aborts caught by the recorder; SimTrace.tla validates the same relations inside complete simulations with the observation derived by TLC from the specification state",
            "The agents are specified as relations: which instruction sequences are possible given what the agent could observe (own active orders, twice the mid-price, parameters), what is forbidden at probability 0 and mandatory at probability >= 1. Every update call of seeded runs over the parameter matrix (kind x single/multi asset x tick 1..10 x probabilities {0, 0.3, 1, 1.5} x sigma {1, 10} x starting book, plus scripted boundary draws 0 / all-ones) is validated by TLC; prices up to 2^32 handled as digit pairs. A panic anywhere is a violation. Momentum agents at saturated demand with order ratios 0, 1/2, 1, 2. Sim.tla: TLC checks on every reachable state of the runner loop over random agents that no agent holds two live orders and that orders are as configured, and every outcome of real simulations (tens of thousands of seeds, single- and multi-asset, rates 0 / mid / >= 1) must be one of the outcomes TLC enumerated. Interior probabilities are not measured.",
            "6 C16"),
    "C17": ("TLA+ relation MomentumRel with the momentum signal recomputed exactly by TLC (dyadic integers) from the observed mid-prices; harness-imposed price paths at saturated demand; mirrored run pairs validated by TLC",
            "At saturated demand the documented rule is deterministic: TLC recomputes M from the logged mid-price sequence (decay 1 and 1/2 exactly) and requires buys for M > 0, sells for M < 0, nothing for M = 0, one market order (and one limit order when the ratio is >= 1) per trader; each run is repeated on the reflected price path with the same seed and TLC requires the reflected order flow (sides swapped, same sizes, same steps; limit prices are not compared - they are clamped to the price range, which is not symmetric about the level). Price distributions sigma 1 and 10, order ratios 0, 1/2, 1, 2 (a limit order is certain when ratio x market-order probability >= 1).",
            "6 C17"),
    "C09": ("TLC (SimEq.tla) compares complete simulation outputs of repeated runs in separate OS processes (same seed twice, progress bar on, seeds + 1 and + 2^32, boundary seeds 0/1/2^64-1) line by line; runs go through the public runners with derive-macro agent sets declared twice (two independent expansions, compared under the same seed), always-active populations with constant batch sizes; SimTrace.tla validates complete simulations recorded from inside the runners",
            "For a seeded matrix of configurations (seeds x step counts x step sizes x tick sizes x six agent compositions incl. nested derived sets, single- and multi-asset) the simulation binary is run as five separate OS processes; TLC requires outputs A = B = C (orders, trades, recorded level-2 history, per-step volume) and D (every seed + 1), E (every seed + 2^32) different from A for every substantial run; the seed list contains 0, 1, 2^32-1, 2^63 and 2^64-1. That the runs are behaviours of the specification at all is decided by SimTrace.tla: complete simulations recorded from inside the real runners (recording agent set, both progress-bar branches) are validated event by event - loop structure of Sim, every step, every submission, every member's instructions. Configurations include heavy-tailed price distributions (sigma 10), populations of thousands of agents (more than 1024 instructions per step over both assets) and environments that already have a history when the runner is called. A nondeterminism source stable across these repetitions is not seen.",
            "6 C09"),
    "C15": ("TLC (Shuffle.tla): Fisher-Yates bijection by enumeration for n <= 6; exact Bernstein + union-bound predicate evaluated by TLC on histograms recorded from >= 2.16*10^5 seeded real steps per batch size (every size 2..64; parity of the permutation; every digit of three bijective codes of the permutation; schedules drawn through the public runners from small consecutive seeds); generator-state-only determinism clauses (other instructions, instructions referring to orders created in the same step, environments with a history of earlier steps)",
            "Statistical: see level text in the evidence. TLC proves the model's uniformity by bijection and evaluates the stated concentration bound on recorded histograms (all n! permutations for n = 2..6, position-by-item and pairwise tables for every n = 2..64, parity, code digits, Env and MarketEnv, mixed instruction kinds, generators built by sim_runner / market_sim_runner from seeds 0, 1, 2, ...) and the determinism clauses; the numpy environment of the Python layer queues array submissions in the order given and repeats under the same seed.",
            "6 C15"),
    "C20": ("TLC (AgentSet.tla) enumerates struct shapes; generated #[derive(AgentSet)] / #[derive(MarketAgentSet)] structs compiled against the working tree's macro crate; probe traces validated by TLC against Update(shape) and the hand-written sequence",
            "Struct shapes (1..8 leaves, two leaf types, repeated types, sets nested up to depth 4) x how they are written down (field names in / against / unrelated to alphabetical order; fields carrying doc comments, #[allow], true and false #[cfg] predicates; one field per line with trailing comma, one line without trailing comma, declared through macro_rules! with `ty` fragments) x both macros; probe agents reveal call order (order ids), generator sharing (draw indices) and environment sharing; three update calls per shape; TLC requires every leaf exactly once per call, in declaration order, draw k to call k.",
            "6 C20"),
}

TABLE["C18"] = (
    "TLA+ spec PyView.tla (what Python must show for an abstract state) over Book/MarketOps; TLC-generated call sequences (PyBookGen / PyEnvGen, incl. "
    "out-of-range arguments and off-grid prices) driven through the real compiled extension under CPython and compared with TLC's expected values "
    "(outcome sets over all schedules for StepEnv); drain probe; snapshot interchange Python <-> Rust both compared with the specification; same-seed "
    "cross-check against the Rust Env (schedule hook); random Python call sequences validated by TLC (BookTrace.tla Python clauses, PyTrace.tla, PyEnvTrace.tla: the specification's environment driven by the same calls, steps explained by schedule inference); the repository's own Python tests, documentation code blocks and example script run against recording proxies and validated by TLC",
    "Python and the Rust core are both compared with one specification, and additionally with each other where the property says so: every bounded call "
    "sequence of the Python OrderBook API (place/cancel/modify/set_time/toggles/snapshots, every intermediate state, queue order via drain probe), "
    "exception class and unchanged state for off-grid prices and out-of-range integers (-1, 2^32, 2^64), StepEnv outcome sets over all schedules with "
    "determinism in the seed and the same processed schedule as the Rust Env under the same seed, snapshots written by either side loaded by the other; "
    "plus long random sequences recorded through the extension and validated by TLC (order table and trade log equal to the specification's after every event); the clock moved backwards through Python; seeds over the whole u64 range and out-of-range constructor arguments; 29 scenarios of the repository itself (its Python tests, documentation, example) as validated traces.",
    "6 C18")
TABLE["C19"] = (
    "TLA+ spec PyView.tla writes down the documented index tables (L1Array, L2Array), dictionary keys (DictKeys/DictEntry) and data-frame columns once; "
    "TLC computes from them the expected arrays / dictionary / frames for every state of the generator streams (PyEnvGen, asymmetric multi-level books, "
    "StepEnv and StepEnvNumpy, all four array methods, both dictionaries, both helpers) and recomputes them from the reported order table at every event of "
    "random traces (PyTrace.tla) and of the repository's own Python scenarios; compared element by element with the real compiled extension (numpy 2.4 under CPython 3.11; pandas stand-in records the column binding)",
    "Dynamic, through the real extension: for every outcome of every bounded path over asymmetric books spanning several levels, every cell of "
    "level_1_data_array / level_2_data_array / level_1_data / level_2_data, the exact key set and every series of both get_market_data dictionaries and "
    "every column (name, position, content) of both data-frame helpers must equal what PyView.tla specifies; on random traces TLC recomputes all of it "
    "from get_orders()/get_trades() at every event and checks the dictionary's history against the accumulated per-step values. pandas is absent: a "
    "stand-in records the column assignment.",
    "6 C19")

LEVEL = {"C15": "other"}

PENDING = {}

ALL = ["C%02d" % i for i in range(1, 21)]


def main():
    checks, na = [], []
    for pid in ALL:
        if pid in TABLE:
            tech, text, ref = TABLE[pid]
            checks.append({
                "property_id": pid,
                "quick_cmd": "./check %s --tier quick" % pid,
                "thorough_cmd": "./check %s --tier thorough" % pid,
                "evidence_file": "evidence/%s.json" % pid,
                "replay_cmd_template": "./check %s --replay {path}" % pid,
                "engine": "tlc-bound",
                "level_claimed": {"category": LEVEL.get(pid, "model_checking"), "text": text, "design_ref": "DESIGN.md section " + ref},
                "level_note": MC_NOTE,
                "technique": tech,
            })
        else:
            na.append({"property_id": pid, "reason": PENDING.get(pid, "check not built yet (work in progress); see DESIGN.md section 6 for the planned TLA+ binding")})
    m = {
        "version": 1,
        "setup_cmd": "./check setup",
        "hooks": {
            "guard": "bourse_verif",
            "enable": "RUSTFLAGS='--cfg bourse_verif' (set in /verif/harness/.cargo/config.toml for the harness target dir only)",
            "baseline_off_cmd": "cd /repo && cargo test --workspace --no-fail-fast --offline",
            "source_commits": HOOK_COMMITS,
            "add_only": True,
        },
        "engines": [{"name": "tlc-bound", "path": "check", "serves_properties": [c["property_id"] for c in checks],
                     "kind_free_text": "python3 orchestrator: TLC (model checking, behaviour generation, trace validation) + Rust/Python conformance harnesses built against /repo's working tree"}],
        "checks": checks,
        "not_applicable": na,
        "notes": "One TLA+ specification (spec/*.tla) decides every claimed property; see DESIGN.md. known_findings.json lists genuine defects (fixed or recorded).",
    }
    with open(os.path.join(VERIF, "MANIFEST.json"), "w") as f:
        json.dump(m, f, indent=1)
    try:
        import jsonschema
        jsonschema.validate(m, json.load(open("/root/.vp/MANIFEST.schema.json")))
        print("MANIFEST.json valid:", len(checks), "checks,", len(na), "not applicable")
    except ImportError:
        print("MANIFEST.json written (jsonschema not importable here):", len(checks), "checks")


HOOK_COMMITS = ["f06e025"]

if __name__ == "__main__":
    main()
