"""One property check = a list of stages (model checking, gen-replay, record-validate, ...)
run by a Check object that collects statistics and violations, matches violations
against /verif/known_findings.json, writes the evidence file and decides the exit code."""
import re
import json, os, subprocess, sys, time, concurrent.futures as cf
from . import core
from .core import ToolError, log


CURRENT = None      # the check in progress (see `salvage`)


def salvage(err):
    """A stage failed as a tool error after earlier stages had already found violations (typically: the changed code also
    produces data a later stage cannot digest).  The violations found stand: report them, exit 1, and say that the check is
    incomplete.  No evidence file is written."""
    ck = CURRENT
    if ck is None or not ck.violations:
        return None
    from . import findings
    known = [k for k in core.load_known() if k.get("property") == ck.prop and k.get("status") == "known"]
    new = [v for v in ck.violations if not findings.match(v, known)]
    if not new:
        return None
    log("[%s] a later stage failed as a tool error (%s); the %d violation(s) found before it stand" % (ck.prop, str(err).splitlines()[0][:200], len(new)))
    for v in new[:10]:
        p = core.save_replay(ck.prop, v["stage"], dict(v["payload"], what=v["what"]))
        print("VIOLATION property=%s replay=%s" % (ck.prop, p))
        log("  -> %s: %s" % (v["stage"], v["what"]))
    return 1


class Check:
    def __init__(self, prop, tier, seed):
        global CURRENT
        CURRENT = self
        self.prop, self.tier, self.seed = prop, tier, seed
        self.t0 = time.time()
        self.stages = []          # dicts with per-stage statistics
        self.violations = []      # dicts: stage, what, payload, (sig filled by matcher)
        self.samples = []
        self.states = 0
        self.transitions = 0
        self.traces = 0
        self.assumptions = []
        self.features = {}
        # development aid: VERIF_ONLY=<regex> runs only the stages whose name matches (no evidence is written then)
        self.only = os.environ.get("VERIF_ONLY")

    def skip(self, name):
        import re
        if self.only and not re.search(self.only, name):
            log("[%s] skipped (VERIF_ONLY)" % name)
            return True
        return False

    quick = property(lambda self: self.tier == "quick")

    # ------------------------------------------------------------------ stages
    def add_features(self, feats, prefix=""):
        for k, v in (feats or {}).items():
            self.features[prefix + k] = self.features.get(prefix + k, 0) + v

    def violation(self, stage, what, payload):
        self.violations.append({"stage": stage, "what": what, "payload": payload})

    def mc(self, name, base, consts, invariants=(), properties=(), constraint="Constr", spec=("INIT Init", "NEXT Next"),
           workers=8, timeout=900, view=None):
        if self.skip(name):
            return {"distinct": 0, "generated": 0, "depth": 0, "timed_out": False, "ok": True, "wall_s": 0}
        """Model-check the specification itself.  A failure here is a defect of the model, not of
        the code: reported as a tool error."""
        cfg = list(spec)
        if constraint:
            cfg.append("CONSTRAINT " + constraint)
        if view:
            cfg.append("VIEW " + view)
        cfg += ["INVARIANT " + i for i in invariants] + ["PROPERTY " + p for p in properties]
        tl, text = core.tlc_check("%s_%s" % (self.prop, name), base, consts, cfg, workers=workers, timeout=timeout)
        if tl["timed_out"]:
            log("[%s] model checking stopped at its wall-clock cap (%ss); %d distinct states explored, no violation" % (name, timeout, tl["distinct"]))
            if "is violated" in text or "Error:" in text:
                raise ToolError("%s: the specification violates a clause:\n%s" % (name, text[-3000:]))
        elif not tl["ok"]:
            raise ToolError("%s: model checking of the specification failed: %s\n%s" % (name, tl["error"], text[-3000:]))
        self.states += tl["distinct"]
        self.transitions += tl["generated"]
        self.stages.append({"stage": name, "kind": "tlc-model-check", "distinct_states": tl["distinct"],
                            "transitions": tl["generated"], "depth": tl["depth"], "complete": not tl["timed_out"],
                            "invariants": list(invariants), "action_properties": list(properties), "wall_s": tl["wall_s"]})
        log("[%s] model check: %d distinct states, %d transitions, depth %s, %d invariants + %d action properties hold (%.1fs)" % (
            name, tl["distinct"], tl["generated"], tl["depth"], len(invariants), len(properties), tl["wall_s"]))
        return tl

    def apalache(self, name, module, cinit, inv, init=None, length=0, timeout=1800, expect="NoError", what=""):
        """A bounded / inductive check by Apalache (symbolic: integers unbounded).  Like `mc`, a failure is a defect of the
        specification (tool error), not of the code."""
        if self.skip(name):
            return None
        args = ["--cinit=" + cinit, "--inv=" + inv, "--length=%d" % length] + (["--init=" + init] if init else [])
        oc, wall, tail = core.apalache_check("%s_%s" % (self.prop, name), module, args, timeout=timeout)
        st = {"stage": name, "kind": "apalache-" + ("inductive-step" if init else "bounded"), "module": module, "invariant": inv,
              "init": init or "Init", "length": length, "constants": cinit, "outcome": oc, "wall_s": round(wall, 1), "what": what}
        self.stages.append(st)
        if oc == "timeout":
            log("[%s] apalache stopped at its wall-clock cap (%ss); nothing concluded" % (name, timeout))
            return oc
        if oc != expect:
            raise ToolError("%s: apalache outcome %s (expected %s):\n%s" % (name, oc, expect, tail))
        log("[%s] apalache: %s for %s from %s, length %d: %s (%.1fs)" % (name, inv, module, init or "Init", length, oc, wall))
        return oc

    def apalache_bg(self, *a, **kw):
        """Start an Apalache stage in the background (it uses one or two cores); `finish` waits for it."""
        import threading
        box = {}

        def run():
            try:
                self.apalache(*a, **kw)
            except BaseException as e:      # re-raised by finish()
                box["err"] = e
        t = threading.Thread(target=run, daemon=True)
        t.start()
        self.__dict__.setdefault("bg", []).append((t, box))

    def mc_sim(self, name, base, consts, invariants=(), properties=(), constraint="Constr", num=200, depth=40, workers=8, timeout=600):
        if self.skip(name):
            return None
        """Deep random walks of the model (tlc -simulate) with every invariant / action property evaluated on every state:
        depths the exhaustive configurations cannot reach."""
        import re
        cfg = ["INIT Init", "NEXT Next"] + (["CONSTRAINT " + constraint] if constraint else [])
        cfg += ["INVARIANT " + i for i in invariants] + ["PROPERTY " + p for p in properties]
        tl, text = core.tlc_check("%s_%s" % (self.prop, name), base, consts, cfg, workers=workers, timeout=timeout,
                                  extra=("-simulate", "num=%d" % num, "-depth", str(depth)))
        if "is violated" in text or "Error:" in text:
            raise ToolError("%s: the specification violates a clause on a random walk:\n%s" % (name, text[-3000:]))
        m = re.search(r"The number of states generated: (\d+)", text)
        n = int(m.group(1)) if m else 0
        tr = re.findall(r"(\d+) traces generated", text)
        if n == 0 and not tl["timed_out"]:
            raise ToolError("%s: simulation produced no states:\n%s" % (name, text[-1500:]))
        self.states += n
        self.transitions += n
        self.stages.append({"stage": name, "kind": "tlc-simulate", "states_checked": n, "walks": int(tr[-1]) if tr else None, "depth": depth,
                            "invariants": list(invariants), "action_properties": list(properties), "wall_s": tl["wall_s"]})
        log("[%s] random walks of the model: %d states checked (depth %d), %d invariants + %d action properties hold (%.1fs)" % (
            name, n, depth, len(invariants), len(properties), tl["wall_s"]))

    def gen(self, name, base, consts, replayer, rargs, cfg=("INIT GInit", "NEXT GNext", "INVARIANT Emit", "CONSTRAINT Constr"),
            workers=12, timeout=900, need=(), spec_flags=True):
        if self.skip(name):
            return {"distinct": 0, "generated": 0, "depth": 0, "timed_out": False, "ok": True, "wall_s": 0}, {}
        tl, summ = core.gen_replay("%s_%s" % (self.prop, name), base, consts, list(cfg), replayer, rargs,
                                   workers=workers, timeout=timeout)
        self.states += tl["distinct"]
        self.transitions += tl["generated"]
        self.traces += summ.get("lines", 0)
        self.add_features(summ.get("features"), name + ".")
        for s in summ.get("samples", [])[:1]:
            self.samples.append({"stage": name, "kind": "TLC-generated history replayed into the real code", "case": s})
        st = {"stage": name, "kind": "gen-replay", "distinct_states": tl["distinct"], "depth": tl["depth"],
              "histories_replayed": summ.get("lines", 0), "calls_replayed": summ.get("ops", 0),
              "mismatches": summ.get("n_mismatch", 0), "complete": not tl["timed_out"], "wall_s": tl["wall_s"],
              "features": summ.get("features", {})}
        for k in ("trunc_snapshots", "trunc_offsets", "outcome_sets", "seeds_run", "distinct_outcomes_seen", "xcases"):
            if summ.get(k):
                st[k] = summ[k]
        self.stages.append(st)
        if summ.get("lines", 0) == 0:
            raise ToolError("%s: generator produced no histories" % name)
        for f in need:
            if not summ.get("features", {}).get(f):
                raise ToolError("%s: vacuous - no generated history exhibits '%s'" % (name, f))
        for m in summ.get("mismatches", []):
            if m.get("harness_error"):
                raise ToolError("%s: %s" % (name, m["what"]))
            self.violation(name, m["what"], dict(m, replayer=replayer, rargs=[str(a) for a in rargs]))
        if summ.get("n_mismatch", 0) > len(summ.get("mismatches", [])):
            st["mismatches_not_listed"] = summ["n_mismatch"] - len(summ["mismatches"])
        # histories the code reproduces exactly while the SPECIFICATION's own state (named deviation switched on in the config)
        # breaks a clause: TLC has recognised an occurrence of a listed known finding
        if summ.get("n_spec_flags"):
            st["spec_flagged_histories"] = summ["n_spec_flags"]
        for m in (summ.get("spec_flags", []) if spec_flags else []):
            self.violation(name, m["what"], dict(m, replayer=replayer, rargs=[str(a) for a in rargs]))
        return tl, summ

    def aux(self, name, cmd, kind, env=None, payload_extra=None, timeout=900):
        if self.skip(name):
            return {}
        """A follow-up command of a stage (cross checks): prints one JSON summary line
        {lines, n_mismatch, mismatches}; mismatches are violations."""
        t0 = time.time()
        r = subprocess.run(cmd, text=True, capture_output=True, env=env or dict(os.environ, VERIF_WORK=core.WORK), timeout=timeout)
        if r.returncode != 0:
            raise ToolError("%s: %s failed (rc %s): %s" % (name, cmd[0], r.returncode, r.stderr[-1500:]))
        try:
            summ = json.loads(r.stdout.strip().splitlines()[-1])
        except Exception as e:
            raise ToolError("%s: unreadable summary: %s" % (name, e))
        self.traces += summ.get("lines", 0)
        self.stages.append({"stage": name, "kind": kind, "cases": summ.get("lines", 0), "mismatches": summ.get("n_mismatch", 0),
                            "wall_s": round(time.time() - t0, 1)})
        for m in summ.get("mismatches", []):
            self.violation(name, m["what"], dict(m, **(payload_extra or {})))
        log("[%s] %s: %d cases, %d mismatches (%.1fs)" % (name, kind, summ.get("lines", 0), summ.get("n_mismatch", 0), time.time() - t0))
        return summ

    def traces_stage(self, name, recorder, profile, files, runs, ops, trace_spec="BookTrace", par=8, extra_args=(), timeout=600, consts=None, view=None, spec="TSpec", report="Report", post="Accepted"):
        if self.skip(name):
            return {}
        """record-validate: `files` trace files, each `runs` runs of <= `ops` calls."""
        core.build_harness()
        if isinstance(recorder, list):
            core.build_pyext()
        d = os.path.join(core.WORK, "traces", "%s_%s" % (self.prop, name))
        os.makedirs(d, exist_ok=True)
        t0 = time.time()

        def one(i):
            out = os.path.join(d, "t%d.ndjson" % i)
            seed = (self.seed * 1000003 + i * 7919 + hash_name(name)) % (1 << 31)
            rcmd = recorder if isinstance(recorder, list) else [os.path.join(core.BIN, recorder)]
            renv = core.pyenv() if isinstance(recorder, list) else dict(os.environ, VERIF_WORK=core.WORK)
            r = subprocess.run(rcmd + ["--out", out, "--seed", str(seed), "--runs", str(runs),
                                "--ops", str(ops), "--profile", json.dumps(profile)] + [str(a) for a in extra_args],
                               text=True, capture_output=True, env=renv)
            if r.returncode != 0:
                raise ToolError("%s: recorder failed: %s" % (name, r.stderr[-2000:]))
            summ = json.loads(r.stdout.strip().splitlines()[-1])
            v = core.validate_trace("%s_%s_%d" % (self.prop, name, i), trace_spec, out, timeout=timeout, consts=consts, view=view, spec=spec, report=report, post=post)
            return i, out, seed, summ, v

        tot_events, tot_states, nrej, ndiv = 0, 0, 0, 0
        with cf.ThreadPoolExecutor(max_workers=par) as ex:
            for i, out, seed, summ, v in ex.map(one, range(files)):
                tot_events += summ["events"]
                tot_states += v["states"]
                self.add_features(summ.get("features"), name + ".")
                for mm in re.finditer(r'<<"EXACT-ROUNDING", (\d+), (\d+)>>', v.get("text", "")):
                    # HelperTrace.tla: documented rounding recomputed exactly by TLC (a count for the evidence, not a C16 clause)
                    self.add_features({"documented_rounding_recomputed_by_TLC": int(mm.group(1)), "documented_rounding_matched": int(mm.group(2))}, name + ".")
                if summ.get("samples") and len([s for s in self.samples if s["stage"] == name]) < 1:
                    self.samples.append({"stage": name, "kind": "event recorded from the real code and accepted by TLC",
                                         "case": strip_views(summ["samples"][0])})
                for p in summ.get("panics", []):
                    self.violation(name, p["what"], {"kind": "panic", "recorder": recorder, "seed": seed, "profile": profile,
                                                     "history": p.get("history"), "cfg": p.get("cfg"), "step": p.get("step")})
                if v.get("impl_diverged"):
                    # not a property violation: the implementation-shaped model (BookImpl.tla) no longer describes the
                    # code's internals (entry keys); the refinement evidence is stale until the model is brought up to date
                    ndiv += 1
                    if ndiv == 1:
                        log("[%s] NOTE: BookImpl.tla no longer matches the code's internals (%s at event %s); no property is affected" % (
                            name, v["impl_diverged"].get("why"), v["impl_diverged"].get("at")))
                if v.get("spec_flag"):
                    # the specification ran with a named deviation switched on (FollowF3), went on explaining the trace, and its
                    # OWN state broke a clause: an occurrence of a listed known finding, recognised by TLC
                    sf = v["spec_flag"]
                    self.violation(name, "the specification with FollowF3 = TRUE explains the recorded trace, and after event %s its own state breaks %s" % (sf.get("at"), sf.get("clause")),
                                   {"kind": "trace", "spec_flag": sf.get("flag"), "trace_spec": trace_spec, "recorder": recorder, "seed": seed, "profile": profile,
                                    "history": history_upto(out, sf.get("at"))})
                if not v["accepted"]:
                    nrej += 1
                    rj = v["reject"] or {}
                    hist = history_upto(out, rj.get("at"))
                    self.violation(name, "recorded trace is not a behaviour of the specification: event %s, %s" % (rj.get("at"), rj.get("why")),
                                   {"kind": "trace", "trace_spec": trace_spec, "recorder": recorder, "seed": seed, "profile": profile,
                                    "reject": strip_views(rj, keep=True), "history": hist})
                else:
                    try:
                        os.remove(out)
                    except OSError:
                        pass
        self.states += tot_states
        self.transitions += tot_states
        self.traces += files * runs
        self.stages.append({"stage": name, "kind": "record-validate", "trace_files": files, "runs": files * runs,
                            "events_validated": tot_events, "rejected": nrej, "impl_model_diverged_files": ndiv, "wall_s": round(time.time() - t0, 1),
                            "profile": profile})
        log("[%s] record-validate: %d runs, %d events recorded from the real code, %d files rejected by TLC (%.1fs)" % (
            name, files * runs, tot_events, nrej, time.time() - t0))

    # ------------------------------------------------------------------ verdict
    def finish(self, level, level_explanation, rule, nontrivial_keys=()):
        for t, box in self.__dict__.get("bg", []):
            t.join()
            if "err" in box:
                raise box["err"]
        known = [k for k in core.load_known() if k.get("property") == self.prop and k.get("status") == "known"]
        from . import findings
        new, matched = [], {}
        for v in self.violations:
            k = findings.match(v, known)
            if k:
                matched.setdefault(k["id"], []).append(v)
            else:
                new.append(v)
        for k in known:
            if k["id"] in matched:
                print("KNOWN-FINDING: property=%s %s (%d occurrences in this run; finding %s)" % (
                    self.prop, k["what"], len(matched[k["id"]]), k["id"]))
            else:
                print("KNOWN-FINDING: property=%s %s (finding %s; not re-encountered in this run)" % (self.prop, k["what"], k["id"]))
        replays = []
        for v in new[:10]:
            p = core.save_replay(self.prop, v["stage"], dict(v["payload"], what=v["what"]))
            replays.append(p)
            print("VIOLATION property=%s replay=%s" % (self.prop, p))
            log("  -> %s: %s" % (v["stage"], v["what"]))
        wall = time.time() - self.t0
        distinct_nontrivial = sum(self.features.get(k, 0) for k in nontrivial_keys)
        cov = {"states": max(self.states, 0), "transitions": max(self.transitions, 0),
               "traces_validated_against_impl": self.traces,
               "samples": self.samples[:6] or [{"note": "no sample collected"}],
               "evaluations": self.traces, "distinct_nontrivial": distinct_nontrivial,
               "rule": rule, "stages": self.stages, "features": self.features,
               "explanation": level_explanation,
               "known_findings_matched": {k: len(v) for k, v in matched.items()},
               "exhaustive": False}
        if self.only:
            log("[%s] VERIF_ONLY run: evidence not written" % self.prop)
        else:
            core.write_evidence(self.prop, self.tier, self.seed, level, cov, wall, len(new), self.assumptions)
        log("[%s] %s tier done in %.1fs: %d states, %d histories/traces against the implementation, %d new violation(s), %d known" % (
            self.prop, self.tier, wall, self.states, self.traces, len(new), sum(len(v) for v in matched.values())))
        return 1 if new else 0


def hash_name(s):
    h = 0
    for ch in s:
        h = (h * 131 + ord(ch)) % 1000003
    return h


def strip_views(ev, keep=False):
    if not isinstance(ev, dict):
        return ev
    out = {}
    for k, v in ev.items():
        if k == "views" and not keep:
            continue
        if k == "event":
            out[k] = strip_views(v, keep)
        else:
            out[k] = v
    return out


LABEL_KEYS = ("op", "dt", "side", "vol", "tr", "price", "ret", "id", "p", "v", "k", "t", "mode", "t0", "tick", "trading", "levels",
              "asset", "perm", "kind", "batch", "seed", "n")


def history_upto(trace_file, at):
    """Labels of the run containing event `at` (1-based), from its reset to `at`."""
    if not at:
        return None
    hist = []
    try:
        with open(trace_file) as f:
            for i, line in enumerate(f, 1):
                if i > at:
                    break
                e = json.loads(line)
                if e.get("op") == "reset":
                    hist = []
                keep = {k: e[k] for k in LABEL_KEYS if k in e}
                if e.get("op") == "reset":
                    keep = {k: e[k] for k in ("op", "t0", "tick", "trading", "levels", "assets", "ticks", "step", "seed") if k in e}
                hist.append(keep)
    except OSError:
        return None
    return hist
