"""Shared machinery of /verif/check: building the harness, running TLC, piping
generator output into replayers, validating recorded traces, evidence files."""
import json, os, re, shutil, subprocess, sys, time, hashlib

VERIF = os.path.dirname(os.path.dirname(os.path.abspath(__file__)))
WORK = os.path.join(VERIF, "work")
SPEC = os.path.join(VERIF, "spec")
HARNESS = os.path.join(VERIF, "harness")
BIN = os.path.join(WORK, "target", "debug")
REPLAYS = os.path.join(WORK, "replays")
MAXPRICE = 1 << 30
NCPU = os.cpu_count() or 4


class ToolError(Exception):
    """Something in the machinery (not in the code under test) failed: exit 2."""


def log(*a):
    print(*a, file=sys.stderr, flush=True)


def sh(cmd, **kw):
    return subprocess.run(cmd, shell=isinstance(cmd, str), text=True, capture_output=True, **kw)


_built = False


def build_harness():
    """(Re)build the Rust harness against /repo's current working tree."""
    global _built
    if _built:
        return
    os.makedirs(WORK, exist_ok=True)
    lock = os.path.join(HARNESS, "Cargo.lock")
    if not os.path.exists(lock):
        shutil.copy("/repo/Cargo.lock", lock)
    env = dict(os.environ, CARGO_NET_OFFLINE="true")
    t = time.time()
    r = subprocess.run(["cargo", "build", "--offline", "--bins"], cwd=HARNESS, env=env,
                       text=True, capture_output=True)
    if r.returncode != 0:
        # A tree that does not compile is a tool error, not a property violation.
        raise ToolError("harness build failed:\n" + r.stderr[-4000:])
    log("[build] harness built in %.1fs" % (time.time() - t))
    _built = True


_pybuilt = False
PYPKG = os.path.join(WORK, "pypkg")
PYDIR = os.path.join(VERIF, "py")


def build_pyext():
    """(Re)build the PyO3 extension from /repo's working tree and assemble an importable package
    (bourse/ = /repo/src/bourse + core.so) under /verif/work/pypkg.  Nothing is written to /repo."""
    global _pybuilt
    if _pybuilt:
        return
    py = shutil.which("python3-vt")
    if not py:
        raise ToolError("python3-vt (CPython 3.11 + numpy) not found")
    tgt = os.path.join(WORK, "pytarget")
    env = dict(os.environ, CARGO_NET_OFFLINE="true", CARGO_TARGET_DIR=tgt, PYO3_PYTHON=py)
    t = time.time()
    r = subprocess.run(["cargo", "build", "-p", "bourse", "--offline"], cwd="/repo", env=env, text=True, capture_output=True)
    if r.returncode != 0:
        raise ToolError("extension build failed:\n" + r.stderr[-4000:])
    shutil.rmtree(os.path.join(PYPKG, "bourse"), ignore_errors=True)
    os.makedirs(PYPKG, exist_ok=True)
    shutil.copytree("/repo/src/bourse", os.path.join(PYPKG, "bourse"), ignore=shutil.ignore_patterns("__pycache__"))
    shutil.copy(os.path.join(tgt, "debug", "libbourse.so"), os.path.join(PYPKG, "bourse", "core.so"))
    log("[build] python extension built in %.1fs" % (time.time() - t))
    _pybuilt = True


def pyenv():
    return dict(os.environ, PYTHONPATH=PYPKG + os.pathsep + os.path.join(PYDIR, "standins"), VERIF_WORK=WORK,
                PYTHONDONTWRITEBYTECODE="1")


def pycmd(script, *args):
    return [shutil.which("python3-vt"), os.path.join(PYDIR, script)] + [str(a) for a in args]


def tla_set(xs):
    def one(x):
        if isinstance(x, bool):
            return "TRUE" if x else "FALSE"
        if isinstance(x, str):
            return '"%s"' % x
        return str(x)
    return "{" + ", ".join(one(x) for x in xs) + "}"


def tla_val(x):
    if isinstance(x, bool):
        return "TRUE" if x else "FALSE"
    if isinstance(x, tuple):        # Python tuple = TLA+ sequence, list/set = TLA+ set
        return "<<" + ", ".join(tla_val(v) for v in x) + ">>"
    if isinstance(x, (list, set, frozenset)):
        return tla_set(sorted(x, key=lambda v: (str(type(v)), v)))
    if isinstance(x, str):
        return '"%s"' % x
    return str(x)


SPEC_OVERLAY = {}     # module file name -> replacement text (selftest: seeded specification mutations)


def run_dir(name):
    d = os.path.join(WORK, "runs", name)
    shutil.rmtree(d, ignore_errors=True)
    os.makedirs(d)
    for f in os.listdir(SPEC):
        if f.endswith(".tla"):
            shutil.copy(os.path.join(SPEC, f), d)
    for f, text in SPEC_OVERLAY.items():
        with open(os.path.join(d, f), "w") as fh:
            fh.write(text)
    return d


def write_model(d, name, base, consts, cfg_lines):
    """Write wrapper module `name` EXTENDS `base` defining every constant as c_<K>,
    and the cfg that substitutes them."""
    defs = "\n".join("c_%s == %s" % (k, tla_val(v)) for k, v in consts.items())
    with open(os.path.join(d, name + ".tla"), "w") as f:
        f.write("---- MODULE %s ----\nEXTENDS %s\n%s\n====\n" % (name, base, defs))
    with open(os.path.join(d, name + ".cfg"), "w") as f:
        f.write("CONSTANTS\n" + "\n".join(" %s <- c_%s" % (k, k) for k in consts) + "\n")
        f.write("\n".join(cfg_lines) + "\nCHECK_DEADLOCK FALSE\n")


def apalache_check(name, module, args, timeout=1800):
    """Run apalache-mc on a copy of one module in a directory of its own (its built-in Apalache.tla, not the TLC stand-in).
    Returns (outcome, wall_s, tail): outcome in {"NoError", "Error", "timeout", "tool"}."""
    exe = shutil.which("apalache-mc")
    if not exe:
        raise ToolError("apalache-mc not found")
    d = os.path.join(WORK, "runs", name)
    shutil.rmtree(d, ignore_errors=True)
    os.makedirs(d)
    shutil.copy(os.path.join(SPEC, module + ".tla"), d)
    t = time.time()
    try:
        r = subprocess.run([exe, "check"] + list(args) + [module + ".tla"], cwd=d, text=True, capture_output=True, timeout=timeout,
                           env=dict(os.environ, JVM_ARGS="-Xmx8g"))
        out = r.stdout + r.stderr
    except subprocess.TimeoutExpired as e:
        return "timeout", time.time() - t, ""
    finally:
        shutil.rmtree(os.path.join(d, "_apalache-out"), ignore_errors=True)
    if "The outcome is: NoError" in out and "EXITCODE: OK" in out:
        oc = "NoError"
    elif "The outcome is: Error" in out or "Checker has found an error" in out:
        oc = "Error"
    else:
        oc = "tool"
    return oc, time.time() - t, out[-2500:]


RE_STATES = re.compile(r"(\d+) states generated, (\d+) distinct states found, (\d+) states left on queue")
RE_DEPTH = re.compile(r"The depth of the complete state graph search is (\d+)")


def parse_tlc(text):
    out = {"generated": 0, "distinct": 0, "left": None, "depth": None, "ok": False, "error": None}
    for m in RE_STATES.finditer(text):
        out["generated"], out["distinct"], out["left"] = int(m.group(1)), int(m.group(2)), int(m.group(3))
    m = RE_DEPTH.search(text)
    if m:
        out["depth"] = int(m.group(1))
    if "Model checking completed. No error has been found." in text:
        out["ok"] = True
    errs = [l for l in text.splitlines() if l.startswith("Error:") or "is violated" in l or "Exception" in l]
    if errs:
        out["error"] = "\n".join(errs[:6])
    return out


def tlc_cmd(d, name, workers, extra=()):
    return ["tlc", "-workers", str(workers), "-config", name + ".cfg", "-metadir",
            os.path.join(d, "md"), "-noGenerateSpecTE", *extra, name + ".tla"]


def gen_replay(tag, base, consts, cfg_lines, replayer, replayer_args, workers=8, timeout=900):
    """Run TLC on a generator model and pipe its output into a replayer binary.
    Returns (tlc stats, replayer summary)."""
    build_harness()
    d = run_dir(tag)
    write_model(d, "MC", base, consts, cfg_lines)
    env = dict(os.environ, VERIF_WORK=WORK)
    if isinstance(replayer, list):      # a Python replayer: full command, run against the built extension
        build_pyext()
        cmd, env2 = replayer + [str(a) for a in replayer_args], pyenv()
    else:
        cmd, env2 = [os.path.join(BIN, replayer)] + [str(a) for a in replayer_args], env
    t0 = time.time()
    p1 = subprocess.Popen(["timeout", str(timeout)] + tlc_cmd(d, "MC", workers), cwd=d,
                          stdout=subprocess.PIPE, stderr=subprocess.STDOUT, env=env)
    p2 = subprocess.Popen(cmd, stdin=p1.stdout, stdout=subprocess.PIPE, text=True, env=env2)
    p1.stdout.close()
    out, _ = p2.communicate()
    rc1 = p1.wait()
    if p2.returncode != 0:
        raise ToolError("%s: replayer %s failed (rc %s)" % (tag, replayer, p2.returncode))
    try:
        summ = json.loads(out.strip().splitlines()[-1])
    except Exception as e:
        raise ToolError("%s: unreadable replayer summary: %s" % (tag, e))
    tl = parse_tlc("\n".join(summ.get("tlc_output", [])))
    tl["wall_s"] = round(time.time() - t0, 1)
    tl["timed_out"] = rc1 == 124
    if rc1 == 124:
        log("[%s] TLC hit its wall-clock cap after %ss (explored part is still replayed)" % (tag, timeout))
    elif not tl["ok"]:
        raise ToolError("%s: TLC did not complete cleanly (rc %s): %s\n%s" % (
            tag, rc1, tl["error"], "\n".join(summ.get("tlc_output", [])[-15:])))
    log("[%s] TLC %d distinct / %d generated states, depth %s; replayed %d histories (%d calls), %d mismatches, %.1fs" % (
        tag, tl["distinct"], tl["generated"], tl["depth"], summ.get("lines", 0), summ.get("ops", 0),
        summ.get("n_mismatch", 0), tl["wall_s"]))
    shutil.rmtree(os.path.join(d, "md"), ignore_errors=True)
    return tl, summ


def tlc_check(tag, base, consts, cfg_lines, workers=8, timeout=900, extra=(), env_extra=None, keep_output=False):
    """Plain TLC run (model checking or trace validation).  Returns (stats, output text)."""
    d = run_dir(tag)
    write_model(d, "MC", base, consts, cfg_lines)
    env = dict(os.environ)
    if env_extra:
        env.update(env_extra)
    t0 = time.time()
    r = subprocess.run(["timeout", str(timeout)] + tlc_cmd(d, "MC", workers, extra), cwd=d,
                       text=True, capture_output=True, env=env)
    text = r.stdout + r.stderr
    tl = parse_tlc(text)
    tl["wall_s"] = round(time.time() - t0, 1)
    tl["rc"] = r.returncode
    tl["timed_out"] = r.returncode == 124
    shutil.rmtree(os.path.join(d, "md"), ignore_errors=True)
    return tl, text


def save_replay(prop, kind, payload):
    os.makedirs(REPLAYS, exist_ok=True)
    h = hashlib.sha1(json.dumps(payload, sort_keys=True).encode()).hexdigest()[:10]
    p = os.path.join(REPLAYS, "%s_%s_%s.json" % (prop, kind, h))
    with open(p, "w") as f:
        json.dump(dict(payload, property=prop, kind=kind), f, indent=1)
    return p


def load_known():
    p = os.path.join(VERIF, "known_findings.json")
    if not os.path.exists(p):
        return []
    return json.load(open(p)).get("findings", [])


def write_evidence(prop, tier, seed, level, coverage, wall, violations, assumptions):
    os.makedirs(os.path.join(VERIF, "evidence"), exist_ok=True)
    ev = {"property_id": prop, "tier": tier, "seed": seed, "level": level, "coverage": coverage,
          "assumptions": assumptions, "wall_s": round(wall, 1), "violations": violations}
    with open(os.path.join(VERIF, "evidence", prop + ".json"), "w") as f:
        json.dump(ev, f, indent=1)


RE_TAG = re.compile(r'^<<"([A-Z-]+)", (.*)>>$')


def tagged_lines(text, tag):
    """Decode TLC PrintT lines of the form <<"TAG", "json">> or <<"TAG", int>>."""
    out = []
    for line in text.splitlines():
        m = RE_TAG.match(line.strip())
        if not m or m.group(1) != tag:
            continue
        body = m.group(2)
        try:
            v = json.loads(body)
            if isinstance(v, str):
                try:
                    v = json.loads(v)
                except Exception:
                    pass
            out.append(v)
        except Exception:
            out.append(body)
    return out


def validate_trace(tag, base, trace_file, consts=None, timeout=600, heap="4g", view=None, spec="TSpec", report="Report", post="Accepted"):
    """TLC validates one recorded ndjson trace against trace spec `base` (TSpec/Track/Accepted/Report).
    Returns dict(accepted, reject (decoded TRACE-REJECT payload or None), states, wall_s, text)."""
    d = run_dir(tag)
    consts = dict({"MaxPrice": MAXPRICE} if consts is None else consts)
    if base == "BookTrace":
        consts.setdefault("FixTies", True)     # BookImpl.tla models the repaired tie handling of the current code
    write_model(d, "MC", base, consts,
                ["SPECIFICATION " + spec, "INVARIANT " + report, "CONSTRAINT Track", "POSTCONDITION " + post] + (["VIEW " + view] if view else []))
    env = dict(os.environ, TRACE=trace_file,
               JAVA_TOOL_OPTIONS="-Xss1g -Xmx%s -Dtlc2.tool.queue.IStateQueue=StateDeque" % heap)
    t0 = time.time()
    r = subprocess.run(["timeout", str(timeout)] + tlc_cmd(d, "MC", 1), cwd=d, text=True,
                       capture_output=True, env=env)
    text = r.stdout + r.stderr
    tl = parse_tlc(text)
    rej = tagged_lines(text, "TRACE-REJECT")
    acc = tagged_lines(text, "ACCEPTED")
    div = tagged_lines(text, "IMPL-DIVERGED")
    flg = tagged_lines(text, "SPEC-FLAG")
    marker = "The error occurred when TLC was evaluating the nested"
    if not rej and not acc and marker in text:
        # the recorded observation has a shape on which a clause of the trace specification cannot even be evaluated (an index
        # outside a reported table, a missing field): every trace recorded from the unchanged code evaluates, so this is a
        # rejected trace - reported at the last event reached - and not a failure of the tool
        head = text[:text.index(marker)]
        msg = [ln.strip() for ln in head.splitlines() if ln.strip() and not ln.startswith(("TLC2", "Running", "Picked up", "Parsing", "Semantic", "Starting", "Computing", "Computed", "Finished", "Progress"))]
        rej = [{"at": tl["distinct"], "why": "EVAL: the recorded observation cannot be evaluated against the specification: " + " ".join(msg[-3:])[:400], "event": {}}]
    res = {"accepted": bool(acc) and not rej and "REJECTED" not in text, "reject": rej[0] if rej else None,
           "impl_diverged": div[0] if div else None, "spec_flag": flg[0] if flg else None,
           "states": tl["distinct"], "generated": tl["generated"], "wall_s": round(time.time() - t0, 1),
           "rc": r.returncode, "text": text}
    shutil.rmtree(os.path.join(d, "md"), ignore_errors=True)
    if r.returncode == 124:
        raise ToolError("%s: trace validation timed out after %ss" % (tag, timeout))
    if not res["accepted"] and not rej and not tagged_lines(text, "REJECTED"):
        raise ToolError("%s: TLC failed while validating %s:\n%s" % (tag, trace_file, text[-3000:]))
    return res
