#!/usr/bin/env python3-vt
"""gen-replay through the real compiled extension module (C18, C19).

Reads TLC generator output (`<<"GEN", "...">>` lines of PyBookGen / PyEnvGen) on stdin,
drives bourse.core.OrderBook / StepEnv / StepEnvNumpy through each path with public calls
only and compares what Python shows with the `py` value TLC computed from PyView.tla.
The only knowledge this file has of the encodings is how to *read* the getters; every
expected value (tuples, codes, array indices, dictionary keys, column names) comes from TLC.

Prints one JSON summary line on stdout (same shape as the Rust replayers).
"""
import argparse, json, os, sys, multiprocessing as mp, traceback

U32 = 2 ** 32 - 1
U64 = 2 ** 64 - 1
SPEC_MAX = 1 << 30

core = None
dp = None
np = None


def load_modules():
    global core, dp, np
    import numpy
    import bourse
    from bourse import core as c, data_processing as d
    core, dp, np = c, d, numpy


# ---------------------------------------------------------------- value translation
def tr(x):
    """Python value -> the specification's number system (sentinels only, by value)."""
    if isinstance(x, (bool, str)) or x is None:
        return x
    if isinstance(x, (list, tuple)):
        return [tr(v) for v in x]
    if isinstance(x, dict):
        return {k: tr(v) for k, v in x.items()}
    if hasattr(x, "tolist"):
        return tr(x.tolist())
    if isinstance(x, int):
        if x == U32:
            return SPEC_MAX
        if x == U64:
            return -1
        return x
    if hasattr(x, "item"):
        return tr(x.item())
    return x


def opt(v):
    """spec optional (-1 = none, 2^30 = maximum price) -> Python argument"""
    if v is None or v == -1:
        return None
    if v == SPEC_MAX:
        return U32
    return v


def badval(arg, val):
    if val == "NEG":
        return -1
    return 2 ** 64 if arg in ("order_id", "t") else 2 ** 32


def first_diff(a, b, path=""):
    if isinstance(a, dict) and isinstance(b, dict):
        for k in a:
            if k not in b:
                return "%s.%s: missing in what Python shows" % (path, k)
            d = first_diff(a[k], b[k], "%s.%s" % (path, k))
            if d:
                return d
        for k in b:
            if k not in a:
                return "%s.%s: not in the specification's view" % (path, k)
        return None
    if isinstance(a, list) and isinstance(b, list):
        if len(a) != len(b):
            return "%s: length %d (specification) vs %d (Python)" % (path, len(a), len(b))
        for i, (x, y) in enumerate(zip(a, b)):
            d = first_diff(x, y, "%s[%d]" % (path, i))
            if d:
                return d
        return None
    if type(a) is bool or type(b) is bool:
        return None if (type(a) is type(b) and a == b) else "%s: %r (specification) vs %r (Python)" % (path, a, b)
    return None if a == b else "%s: %r (specification) vs %r (Python)" % (path, a, b)


def frame(df):
    cols = list(df.columns)
    return {"columns": cols, "data": {c: tr(df[c].tolist()) for c in cols}}


# ---------------------------------------------------------------- OrderBook
def ordered(thunks, order):
    """Evaluate the getters in the given order (0 = as listed, 1 = reversed): what a getter returns must not depend on which
    other getters were called before it."""
    items = list(thunks)
    if order:
        items = items[::-1]
    got = {k: f() for k, f in items}
    return {k: got[k] for k, _ in thunks}


def book_view(b, order=0):
    g = ordered([
        ("orders_raw", lambda: b.get_orders()), ("trades_raw", lambda: b.get_trades()),
        ("bid_ask", lambda: tr(b.bid_ask())), ("bid_vol", lambda: tr(b.bid_vol())), ("ask_vol", lambda: tr(b.ask_vol())),
        ("best_bid_vol", lambda: tr(b.best_bid_vol())), ("best_ask_vol", lambda: tr(b.best_ask_vol())),
        ("best_bid_vol_and_orders", lambda: tr(b.best_bid_vol_and_orders())),
        ("best_ask_vol_and_orders", lambda: tr(b.best_ask_vol_and_orders()))], order)
    orders, trades = g.pop("orders_raw"), g.pop("trades_raw")
    return {
        "scalars": g,
        "statuses": [tr(b.order_status(i)) for i in range(len(orders))],
        "orders": tr(orders), "trades": tr(trades),
        "order_frame": frame(dp.orders_to_dataframe(orders)),
        "trade_frame": frame(dp.trades_to_dataframe(trades)),
    }


def call_expect(fn, want_exc):
    """Run fn(); returns (value, problem)."""
    try:
        v = fn()
    except BaseException as e:       # PanicException derives from BaseException
        name = type(e).__name__
        if name == want_exc:
            return None, None
        return None, "raised %s (%s) but the specification says %s" % (name, str(e)[:120], want_exc if want_exc != "none" else "it returns normally")
    if want_exc != "none":
        return v, "returned %r but the specification says it raises %s" % (v, want_exc)
    return v, None


def bad_call_book(b, l):
    v = badval(l["arg"], l["val"])
    c, a = l["call"], l["arg"]
    if c == "place_order":
        kw = {"bid": True, "vol": 1, "trader_id": 1, "price": None}
        kw[a] = v
        return lambda: b.place_order(kw["bid"], kw["vol"], kw["trader_id"], price=kw["price"])
    if c == "cancel_order":
        return lambda: b.cancel_order(v)
    if c == "modify_order":
        kw = {"order_id": 0, "new_price": None, "new_vol": None}
        kw[a] = v
        return lambda: b.modify_order(kw["order_id"], new_price=kw["new_price"], new_vol=kw["new_vol"])
    if c == "set_time":
        return lambda: b.set_time(v)
    raise RuntimeError("harness: unknown bad call %r" % (l,))


class BookRun:
    """One path through bourse.core.OrderBook (original + copies reloaded from snapshots)."""

    def __init__(self, cfg):
        self.cfg = cfg
        self.now = cfg["t0"]
        self.books = [core.OrderBook(cfg["t0"], cfg["tick"], cfg["trading"])]
        self.twins = []       # (book loaded a second time from the same snapshot and never driven, what it showed when loaded)

    def apply(self, l, want_exc, scratch):
        op = l["op"]
        dt = l.get("dt", 0)
        if dt:
            self.now += dt
            for b in self.books:
                b.set_time(self.now)
        if op == "reload":
            p = os.path.join(scratch, "pysnap_%d.json" % os.getpid())
            pretty = l.get("mode") in ("sp", "fp")
            self.books[0].save_json_snapshot(p, not pretty)     # saving over an existing snapshot replaces it
            self.books[0].save_json_snapshot(p, pretty)
            nb = core.order_book_from_json(p)
            if not self.twins:
                # the same unmodified file loaded once more: two loads give two independent books
                tw = core.order_book_from_json(p)
                self.twins.append((tw, book_view(tw)))
            os.remove(p)
            if len(self.books) < 3:
                self.books.append(nb)
            else:
                self.books[2] = nb
            return None
        ret0 = None
        for bi, b in enumerate(self.books):
            if op == "cap":
                fn = lambda: b.place_order(l["side"] == "B", l["vol"], l["tr"], price=opt(l["price"]))
            elif op == "cancel":
                fn = lambda: b.cancel_order(l["id"])
            elif op == "modify":
                fn = lambda: b.modify_order(l["id"], new_price=opt(l["p"]), new_vol=opt(l["v"]))
            elif op == "settime":
                fn = lambda: b.set_time(l["t"])
            elif op == "enable":
                fn = b.enable_trading
            elif op == "disable":
                fn = b.disable_trading
            elif op == "bad":
                fn = bad_call_book(b, l)
            else:
                raise RuntimeError("harness: the Python OrderBook has no call for label %r" % (l,))
            v, prob = call_expect(fn, want_exc)
            if prob:
                return "copy %d: %s" % (bi, prob)
            if op == "cap" and want_exc == "none":
                if bi == 0:
                    ret0 = v
                if v != l.get("ret"):
                    return "place_order returned id %r but the specification says %r" % (v, l.get("ret"))
        if op == "settime":
            self.now = l["t"]
        return None


def feats_of(path, excs, exp, F):
    def f(k):
        F[k] = F.get(k, 0) + 1
    if exp is not None:
        books = exp if isinstance(exp, list) else [exp]
        if any(bk.get("trades") for bk in books):
            f("has_trade")
        for bk in books:
            v = bk.get("views", {})
            if v.get("bvol", 0) > 0 and v.get("avol", 0) > 0:
                f("two_sided")
                if (v["bvol"], v["bbest"]) != (v["avol"], v["abest"]):
                    f("asymmetric")
                break
    if "ValueError" in excs:
        f("value_error")
    if "OverflowError" in excs:
        f("overflow_error")
    for o in set(l["op"] for l in path):
        f("op_" + o)
    if any(l.get("k") == "cancel" for l in path):
        f("has_cancel")
    if any(l.get("k") == "modify" for l in path):
        f("has_modify")


def replay_book_line(cfg, idx, v, S):
    path, exp, want, excs = v["path"], v["exp"], v["py"], v["excs"]
    S["lines"] += 1
    feats_of(path, excs, exp, S["features"])
    run = BookRun(cfg)
    problem = None
    for k, l in enumerate(path):
        S["ops"] += 1
        try:
            p = run.apply(l, excs[k], cfg["scratch"])
        except BaseException as e:
            p = "harness/extension error %s: %s" % (type(e).__name__, e)
        if p:
            problem = "step %d (%s): %s" % (k, l["op"], p)
            break
        if k + 1 < len(path):
            try:
                for b in run.books:
                    book_view(b, (k + idx) % 2)     # reads between the calls must be harmless
            except BaseException as e:
                problem = "reading after step %d raised %s: %s" % (k, type(e).__name__, str(e)[:200])
                break
    got = None
    if problem is None:
        for bi, b in enumerate(run.books):
            try:
                got = book_view(b, (len(path) + idx) % 2)
            except BaseException as e:
                problem = "reading copy %d raised %s: %s" % (bi, type(e).__name__, str(e)[:200])
                break
            d = first_diff(want, got, "py")
            if d:
                problem = "what Python shows for copy %d (0 = original, >0 = reloaded from a snapshot) differs from PyView at %s" % (bi, d)
                break
    if problem is None:
        for tw, seen in run.twins:
            d = first_diff(seen, book_view(tw), "twin")
            if d:
                problem = ("a second book loaded from the same snapshot file changed although only the first one was driven "
                           "(two loads of a file must give two independent books): %s" % d)
                break
    if problem is None and v.get("drain") and not (cfg.get("xdir") and cfg.get("xevery") and idx % cfg["xevery"] == 0):
        # drain probe: market orders for the whole resting volume spell out the queue order
        dr = v["drain"]
        S["drains"] = S.get("drains", 0) + 1
        for bi, b in enumerate(run.books):
            try:
                b.enable_trading()
                b.set_time(run.now + 1)
                if dr["bvol"] > 0:
                    b.place_order(False, dr["bvol"], 0, price=None)
                if dr["avol"] > 0:
                    b.place_order(True, dr["avol"], 0, price=None)
                d = first_diff(dr["py"], book_view(b), "py")
            except BaseException as e:
                d = "raised %s: %s" % (type(e).__name__, str(e)[:200])
            if d:
                problem = "after the drain probe (market orders for the whole resting volume) copy %d differs from PyView at %s" % (bi, d)
                break
    if problem is None and cfg.get("xdir") and cfg.get("xevery") and idx % cfg["xevery"] == 0 and S["xcases"] < cfg.get("xmax", 400):
        # snapshot interchange: Python writes, Rust loads (and writes back for Python to load)
        n = "%d_%d" % (os.getpid(), S["xcases"])
        snap = os.path.join(cfg["xdir"], "py_%s.json" % n)
        run.books[0].save_json_snapshot(snap, bool(idx % 2))
        with open(os.path.join(cfg["xdir"], "case_%s.json" % n), "w") as f:
            json.dump({"snapshot": snap, "rs_snapshot": os.path.join(cfg["xdir"], "rs_%s.json" % n), "exp": exp, "py": want,
                       "path": path, "cfg": {k: cfg[k] for k in ("tick", "trading", "t0")}}, f)
        S["xcases"] += 1
    if problem:
        S["n_mismatch"] += 1
        if len(S["mismatches"]) < 8:
            S["mismatches"].append({"what": problem, "path": path, "exp_py": want, "got_py": got, "excs": excs,
                                    "cfg": {k: cfg[k] for k in ("mode", "tick", "trading", "t0")}})
    elif len(S["samples"]) < 1 and len(path) >= 3 and exp.get("trades"):
        S["samples"].append({"path": path, "python_must_show": {"orders": want["orders"], "trades": want["trades"], "scalars": want["scalars"]}})


# ---------------------------------------------------------------- StepEnv / StepEnvNumpy
def env_view(e, order=0):
    g = ordered([
        ("orders_raw", lambda: e.get_orders()), ("trades_raw", lambda: e.get_trades()), ("md_raw", lambda: e.get_market_data()),
        ("time", lambda: tr(e.time)), ("bid_ask", lambda: tr(e.bid_ask)), ("bid_vol", lambda: tr(e.bid_vol)), ("ask_vol", lambda: tr(e.ask_vol)),
        ("best_bid_vol", lambda: tr(e.best_bid_vol)), ("best_ask_vol", lambda: tr(e.best_ask_vol)),
        ("best_bid_vol_and_orders", lambda: tr(e.best_bid_vol_and_orders)), ("best_ask_vol_and_orders", lambda: tr(e.best_ask_vol_and_orders)),
        ("trade_vol", lambda: tr(e.trade_vol)),
        ("prices", lambda: tr(e.get_prices())), ("volumes", lambda: tr(e.get_volumes())),
        ("touch_volumes", lambda: tr(e.get_touch_volumes())), ("touch_order_counts", lambda: tr(e.get_touch_order_counts())),
        ("trade_volumes", lambda: tr(e.get_trade_volumes())),
        ("l1_array", lambda: tr(e.level_1_data_array())), ("l2_array", lambda: tr(e.level_2_data_array()))], order)
    orders, trades, md = g.pop("orders_raw"), g.pop("trades_raw"), g.pop("md_raw")
    g.update({
        "statuses": [tr(e.order_status(i)) for i in range(len(orders))],
        "orders": tr(orders), "trades": tr(trades),
        "market_data": {k: tr(a) for k, a in md.items()},
        "order_frame": frame(dp.orders_to_dataframe(orders)),
        "trade_frame": frame(dp.trades_to_dataframe(trades)),
    })
    return g


NUMPY_KEYS = ("orders", "trades", "l1_array", "l2_array", "market_data", "order_frame", "trade_frame")


def numpy_view(e, order=0):
    g = ordered([
        ("orders_raw", lambda: e.get_orders()), ("trades_raw", lambda: e.get_trades()),
        ("l1_array", lambda: tr(e.level_1_data())), ("l2_array", lambda: tr(e.level_2_data())),
        ("market_data", lambda: {k: tr(a) for k, a in e.get_market_data().items()})], order)
    orders, trades = g.pop("orders_raw"), g.pop("trades_raw")
    g.update({"orders": tr(orders), "trades": tr(trades),
              "order_frame": frame(dp.orders_to_dataframe(orders)), "trade_frame": frame(dp.trades_to_dataframe(trades))})
    return g


def bad_call_env(e, l):
    v = badval(l["arg"], l["val"])
    c, a = l["call"], l["arg"]
    if c == "place_order":
        kw = {"vol": 1, "trader_id": 1, "price": None}
        kw[a] = v
        return lambda: e.place_order(True, kw["vol"], kw["trader_id"], price=kw["price"])
    if c == "cancel_order":
        return lambda: e.cancel_order(v)
    if c == "modify_order":
        kw = {"new_price": None, "new_vol": None}
        kw[a] = v
        return lambda: e.modify_order(0, new_price=kw["new_price"], new_vol=kw["new_vol"])
    raise RuntimeError("harness: unknown bad call %r" % (l,))


def run_env(cfg, path, excs, seed):
    """-> (view, problem)"""
    e = core.StepEnv(seed, cfg.get("t0", 0), cfg["tick"], cfg["step"], cfg["trading"])
    for k, l in enumerate(path):
        op = l["op"]
        if op == "submit":
            if l["k"] == "new":
                fn = lambda: e.place_order(l["side"] == "B", l["vol"], l["tr"], price=opt(l["price"]))
            elif l["k"] == "cancel":
                fn = lambda: e.cancel_order(l["id"])
            else:
                fn = lambda: e.modify_order(l["id"], new_price=opt(l["p"]), new_vol=opt(l["v"]))
        elif op == "step":
            fn = e.step
        elif op == "enable":
            fn = e.enable_trading
        elif op == "disable":
            fn = e.disable_trading
        elif op == "bad":
            fn = bad_call_env(e, l)
        else:
            raise RuntimeError("harness: StepEnv has no call for label %r" % (l,))
        v, prob = call_expect(fn, excs[k])
        if prob:
            return None, "step %d (%s): %s" % (k, op, prob)
        if op == "submit" and l["k"] == "new" and excs[k] == "none" and v != l.get("ret"):
            return None, "step %d: place_order returned id %r but the specification says %r" % (k, v, l.get("ret"))
        # every getter is also read between the calls, in alternating order (the values are compared on the line of that prefix;
        # here the reads only have to be harmless: a getter may not change what later calls show)
        if k + 1 < len(path):
            env_view(e, (k + seed) % 2)
    return env_view(e, len(path) % 2), None


def run_numpy(cfg, path, excs, seed, batched):
    """The same path through StepEnvNumpy.  batched: all submissions between two steps go into ONE
    submit_instructions call (with no-op rows mixed in); otherwise one call per submission through
    submit_limit_orders / submit_cancellations."""
    e = core.StepEnvNumpy(seed, cfg.get("t0", 0), cfg["tick"], cfg["step"], cfg["trading"])
    u32, u64 = np.uint32, np.uint64

    def flush(rows):
        if not rows:
            return None
        # a no-op row in front and behind; the fields an instruction does not use are documented as ignored, so they hold
        # arbitrary values (an off-grid price, a huge id, ...) and not zeros
        junk_p = cfg["tick"] + 1 if cfg["tick"] > 1 else 7
        rows = [(0, True, 5, 9, junk_p, (1 << 64) - 2, None)] + [r if r[0] == 1 else (r[0], True, 3, 8, junk_p, r[5], r[6]) for r in rows] + [(3, False, 2, 1, U32 - 1, 4, None)]
        ids = e.submit_instructions((np.array([r[0] for r in rows], dtype=u32), np.array([r[1] for r in rows], dtype=bool),
                                     np.array([r[2] for r in rows], dtype=u32), np.array([r[3] for r in rows], dtype=u32),
                                     np.array([r[4] for r in rows], dtype=u32), np.array([r[5] for r in rows], dtype=u64)))
        ids = ids.tolist()
        if len(ids) != len(rows):
            return "submit_instructions returned %d ids for %d rows" % (len(ids), len(rows))
        for r, i in zip(rows, ids):
            want = r[6] if r[6] is not None else U64
            if i != want:
                return "submit_instructions returned id %r for a row where %r is specified (2^64-1 = no order)" % (i, want)
        return None

    def flush_run(run):
        if not run:
            return None
        if run[0][0] == 1:
            ids = e.submit_limit_orders((np.array([r[1] for r in run], dtype=bool), np.array([r[2] for r in run], dtype=u32),
                                         np.array([r[3] for r in run], dtype=u32), np.array([r[4] for r in run], dtype=u32))).tolist()
            if ids != [r[6] for r in run]:
                return "submit_limit_orders returned %r but the specification says %r" % (ids, [r[6] for r in run])
        else:
            e.submit_cancellations(np.array([r[5] for r in run], dtype=u64))
        return None

    rows = []
    run = []
    for k, l in enumerate(path):
        op = l["op"]
        if not (op == "submit" and excs[k] == "none") and run:
            p = flush_run(run)
            run = []
            if p:
                return None, "step %d: %s" % (k, p)
        if op == "submit" and excs[k] == "none":
            if l["k"] == "new":
                row = (1, l["side"] == "B", l["vol"], l["tr"], opt(l["price"]), 0, l["ret"])
            else:
                row = (2, False, 0, 0, 0, l["id"], None)
            if batched == 2:
                # consecutive submissions of one kind go into ONE submit_limit_orders / submit_cancellations call
                if run and (run[0][0] != row[0]):
                    p = flush_run(run)
                    run = []
                    if p:
                        return None, "step %d: %s" % (k, p)
                run.append(row)
            elif batched:
                rows.append(row)
            elif l["k"] == "new":
                ids = e.submit_limit_orders((np.array([row[1]], dtype=bool), np.array([row[2]], dtype=u32),
                                             np.array([row[3]], dtype=u32), np.array([row[4]], dtype=u32))).tolist()
                if ids != [l["ret"]]:
                    return None, "step %d: submit_limit_orders returned %r but the specification says [%r]" % (k, ids, l["ret"])
            else:
                e.submit_cancellations(np.array([l["id"]], dtype=u64))
        elif op == "submit":
            # an off-grid limit price: ValueError, nothing queued
            p = flush(rows)
            rows = []
            if p:
                return None, "step %d: %s" % (k, p)
            _, prob = call_expect(lambda: e.submit_limit_orders((np.array([l["side"] == "B"], dtype=bool), np.array([l["vol"]], dtype=u32),
                                                                 np.array([l["tr"]], dtype=u32), np.array([opt(l["price"])], dtype=u32))), excs[k])
            if prob:
                return None, "step %d (submit_limit_orders): %s" % (k, prob)
        else:
            p = flush(rows)
            rows = []
            if p:
                return None, "step %d: %s" % (k, p)
            if op == "step":
                numpy_view(e, k % 2)      # reads before the step must be harmless
                e.step()
            elif op == "enable":
                e.enable_trading()
            elif op == "disable":
                e.disable_trading()
            else:
                raise RuntimeError("harness: StepEnvNumpy has no call for label %r" % (l,))
    p = flush(rows) or flush_run(run)
    if p:
        return None, "final flush: %s" % p
    return numpy_view(e, len(path) % 2), None


def replay_env_line(cfg, idx, v, S):
    path, excs, outs = v["path"], v["excs"], v["outs"]
    S["lines"] += 1
    S["allowed"] += len(outs)
    nsteps = sum(1 for l in path if l["op"] == "step")
    feats_of(path, excs, [b for o in outs for b in o["exp"]["books"]], S["features"])
    F = S["features"]
    if nsteps > 1:
        F["multi_step"] = F.get("multi_step", 0) + 1
    if len(outs) > 1:
        F["schedule_matters"] = F.get("schedule_matters", 0) + 1
    numpy_mode = cfg["mode"] == "numpy"
    if numpy_mode and any(l["op"] == "bad" or l.get("k") == "modify" or (l.get("k") == "new" and l.get("price") == -1) for l in path):
        raise RuntimeError("harness: numpy configs must not contain modify / market / bad labels")
    nseeds = cfg["seeds"] if nsteps else 1
    seen = set()
    for k in range(nseeds):
        # seeds over the whole unsigned 64-bit range the core accepts, the boundary values among them
        seed = (cfg["base_seed"] * 0x9E3779B97F4A7C15 + idx * 7919 + k * 0x632BE59BD9B4E019) % (1 << 64)
        if (idx + k) % 4 == 0:
            seed = BOUNDARY_SEEDS[(idx // 4 + k) % len(BOUNDARY_SEEDS)]
        S["seeds_run"] += 1
        S["ops"] += len(path)
        try:
            if numpy_mode:
                got, prob = run_numpy(cfg, path, excs, seed, batched=(idx + k) % 3)
            else:
                got, prob = run_env(cfg, path, excs, seed)
        except BaseException as e:
            got, prob = None, "raised %s: %s" % (type(e).__name__, str(e)[:300])
        if prob is None:
            keys = NUMPY_KEYS if numpy_mode else None
            members = []
            for i, o in enumerate(outs):
                w = o["py"] if keys is None else {kk: o["py"][kk] for kk in keys}
                if first_diff(w, got, "") is None:
                    members.append(i)
            if not members:
                # report against the allowed outcome that agrees on the order and trade records, if there is one
                near = [o for o in outs if o["py"]["orders"] == got["orders"] and o["py"]["trades"] == got["trades"]] or outs[:1]
                w = near[0]["py"] if keys is None else {kk: near[0]["py"][kk] for kk in keys}
                prob = ("under seed %d what Python shows is not among the %d outcomes PyView allows for this path; against the allowed outcome with %s it differs at %s"
                        % (seed, len(outs), "the same order and trade records" if near[0]["py"]["orders"] == got["orders"] else "the first schedule",
                           first_diff(w, got, "py")))
            else:
                seen.update(members)
                if k == 0 and nsteps and numpy_mode:
                    # deterministic in the seed: the same seed and the same calls again give the same values
                    again, p2 = run_numpy(cfg, path, excs, seed, batched=(idx + k) % 3)
                    if p2 or first_diff(got, again, ""):
                        prob = "seed %d run twice gives different values: %s" % (seed, p2 or first_diff(got, again, "run1 vs run2"))
                if k == 0 and nsteps and not numpy_mode:
                    # deterministic in the seed: the same seed again gives the same values
                    again, p2 = run_env(cfg, path, excs, seed)
                    if p2 or first_diff(got, again, ""):
                        prob = "seed %d run twice gives different values: %s" % (seed, p2 or first_diff(got, again, "run1 vs run2"))
                    elif cfg.get("xfile") and idx % max(cfg.get("xevery", 1), 1) == 0 and S["xcases"] < cfg.get("xmax", 400):
                        with open(cfg["xfile"] + ".%d" % os.getpid(), "a") as f:
                            f.write(json.dumps({"path": path, "seed": seed, "cands": [outs[i]["sched"] for i in members],
                                                "cfg": {"kind": "env", "levels": 10, "ticks": [cfg["tick"]], "step": cfg["step"], "trading": cfg["trading"], "t0": cfg.get("t0", 0)}}) + "\n")
                        S["xcases"] += 1
        if prob:
            S["n_mismatch"] += 1
            if len(S["mismatches"]) < 8:
                S["mismatches"].append({"what": prob, "path": path, "seed": seed, "got_py": got, "n_allowed": len(outs), "excs": excs,
                                        "allowed_first_py": outs[0]["py"],
                                        "cfg": {kk: cfg[kk] for kk in ("mode", "tick", "step", "trading")}})
            break
    S["seen"] += len(seen)
    if len(S["samples"]) < 1 and nsteps and len(outs) > 1 and not S["n_mismatch"]:
        S["samples"].append({"path": path, "allowed_outcomes": len(outs), "python_must_show_l1_array": outs[0]["py"]["l1_array"],
                             "python_must_show_l2_array_head": outs[0]["py"]["l2_array"][:13]})


BOUNDARY_SEEDS = [0, 1 << 63, (1 << 64) - 1, (1 << 63) + 12345, 1 << 32, 1]


def ctor_checks(T):
    """Constructor arguments (C18: an out-of-range integer raises OverflowError): seeds and times are unsigned 64-bit,
    tick sizes unsigned 32-bit; every in-range value, the boundary ones included, is accepted."""
    def expect(what, fn, exc):
        try:
            fn()
            got = "none"
        except BaseException as e:
            got = type(e).__name__
        T["lines"] += 1
        if got != exc:
            T["n_mismatch"] += 1
            if len(T["mismatches"]) < 10:
                T["mismatches"].append({"what": "%s: expected %s, got %s" % (what, "no exception" if exc == "none" else exc, "no exception" if got == "none" else got)})
    for name, cls in (("StepEnv", core.StepEnv), ("StepEnvNumpy", core.StepEnvNumpy)):
        for sd in BOUNDARY_SEEDS:
            expect("%s(seed=%d, 0, 1, 10)" % (name, sd), lambda: cls(sd, 0, 1, 10), "none")
        for bad in (-1, -(1 << 63), 1 << 64):
            expect("%s(seed=%d, 0, 1, 10)" % (name, bad), lambda: cls(bad, 0, 1, 10), "OverflowError")
            expect("%s(1, start_time=%d, 1, 10)" % (name, bad), lambda: cls(1, bad, 1, 10), "OverflowError")
            expect("%s(1, 0, 1, step_size=%d)" % (name, bad), lambda: cls(1, 0, 1, bad), "OverflowError")
        for bad in (-1, 1 << 32):
            expect("%s(1, 0, tick_size=%d, 10)" % (name, bad), lambda: cls(1, 0, bad, 10), "OverflowError")
        expect("%s(1, start_time=2^64-1001, 1, 10)" % name, lambda: cls(1, (1 << 64) - 1001, 1, 10), "none")
    for bad in (-1, 1 << 64):
        expect("OrderBook(start_time=%d, 1)" % bad, lambda: core.OrderBook(bad, 1), "OverflowError")
    for bad in (-1, 1 << 32):
        expect("OrderBook(0, tick_size=%d)" % bad, lambda: core.OrderBook(0, bad), "OverflowError")
    expect("OrderBook(2^64-1001, 2^32-1)", lambda: core.OrderBook((1 << 64) - 1001, (1 << 32) - 1), "none")


# ---------------------------------------------------------------- driver
def new_stats():
    return {"lines": 0, "ops": 0, "n_mismatch": 0, "mismatches": [], "features": {}, "samples": [], "xcases": 0,
            "allowed": 0, "seen": 0, "seeds_run": 0}


def parse_gen(line):
    # <<"GEN", "....">>
    lit = line[len('<<"GEN", '):-2]
    return json.loads(json.loads(lit))


def work(args):
    cfg, chunk = args
    if core is None:
        load_modules()
    S = new_stats()
    for idx, line in chunk:
        try:
            v = parse_gen(line)
            if cfg["mode"] == "book":
                replay_book_line(cfg, idx, v, S)
            else:
                replay_env_line(cfg, idx, v, S)
        except BaseException as e:
            S["n_mismatch"] += 1
            S["mismatches"].append({"what": "harness: %s: %s" % (type(e).__name__, traceback.format_exc()[-600:]), "harness_error": True})
    return S


def merge(T, S):
    for k in ("lines", "ops", "n_mismatch", "xcases", "allowed", "seen", "seeds_run"):
        T[k] += S[k]
    for m in S["mismatches"]:
        if len(T["mismatches"]) < 10:
            T["mismatches"].append(m)
    for k, v in S["features"].items():
        T["features"][k] = T["features"].get(k, 0) + v
    for s in S["samples"]:
        if len(T["samples"]) < 2:
            T["samples"].append(s)


def chunks(cfg, tail):
    chunk, idx = [], 0
    for line in sys.stdin:
        line = line.rstrip("\n")
        if line.startswith('<<"GEN"'):
            chunk.append((idx, line))
            idx += 1
            if len(chunk) >= 64:
                yield (cfg, chunk)
                chunk = []
        elif not line.startswith(("Parsing file", "Semantic processing", "Linting of")):
            tail.append(line)
            if len(tail) > 600:
                del tail[100:300]
    if chunk:
        yield (cfg, chunk)


def replay_case(cfg, case):
    load_modules()
    S = new_stats()
    v = json.load(open(case))
    cfg.update(v.get("cfg", {}))
    if cfg["mode"] == "book":
        replay_book_line(cfg, 1, {"path": v["path"], "exp": {}, "py": v["exp_py"], "excs": v["excs"]}, S)
    else:
        cfg["seeds"] = 1
        e = v
        got, prob = (run_numpy(cfg, e["path"], e["excs"], e["seed"], True) if cfg["mode"] == "numpy" else run_env(cfg, e["path"], e["excs"], e["seed"]))
        same = prob is not None or got == e.get("got_py")
        S["lines"], S["n_mismatch"] = 1, (1 if same else 0)
        S["mismatches"] = [{"what": prob or "the real environment still shows the recorded (disallowed) values"}] if same else []
    print(json.dumps({"lines": 1, "n_mismatch": S["n_mismatch"], "mismatches": S["mismatches"]}))


def xload(xdir):
    """Second half of the snapshot interchange: the snapshots the Rust core wrote must load in Python
    to the book PyView expects."""
    load_modules()
    n, bad = 0, []
    for f in sorted(os.listdir(xdir)):
        if not f.startswith("case_"):
            continue
        v = json.load(open(os.path.join(xdir, f)))
        n += 1
        try:
            b = core.order_book_from_json(v["rs_snapshot"])
            d = first_diff(v["py"], book_view(b), "py")
            prob = ("the snapshot written by the Rust core loads in Python to a different book: %s" % d) if d else None
        except BaseException as e:
            prob = "the snapshot written by the Rust core does not load in Python: %s: %s" % (type(e).__name__, str(e)[:200])
        if prob and len(bad) < 8:
            bad.append({"what": prob, "path": v["path"], "cfg": v["cfg"]})
    print(json.dumps({"lines": n, "n_mismatch": len(bad), "mismatches": bad}))


def main():
    ap = argparse.ArgumentParser()
    ap.add_argument("--mode", choices=["book", "env", "numpy", "xload"], required=True)
    ap.add_argument("--tick", type=int, default=1)
    ap.add_argument("--trading", default="true")
    ap.add_argument("--t0", type=int, default=0)
    ap.add_argument("--step", type=int, default=10)
    ap.add_argument("--seeds", type=int, default=4)
    ap.add_argument("--base-seed", type=int, default=1)
    ap.add_argument("--xdir")
    ap.add_argument("--xfile")
    ap.add_argument("--xevery", type=int, default=0)
    ap.add_argument("--procs", type=int, default=8)
    ap.add_argument("--case")
    a = ap.parse_args()
    scratch = os.path.join(os.environ.get("VERIF_WORK", "/verif/work"), "scratch")
    os.makedirs(scratch, exist_ok=True)
    cfg = {"mode": a.mode, "tick": a.tick, "trading": a.trading == "true", "t0": a.t0, "step": a.step, "seeds": a.seeds,
           "base_seed": a.base_seed, "xdir": a.xdir, "xfile": a.xfile, "xevery": a.xevery, "scratch": scratch}
    if a.mode == "xload":
        return xload(a.xdir)
    if a.case:
        return replay_case(cfg, a.case)
    if a.xdir:
        os.makedirs(a.xdir, exist_ok=True)
    T = new_stats()
    tail = []
    load_modules()
    ctor_checks(T)
    with mp.Pool(a.procs, initializer=load_modules) as pool:
        for S in pool.imap_unordered(work, chunks(cfg, tail), chunksize=1):
            merge(T, S)
    T["tlc_output"] = tail
    T["outcome_sets"] = T["lines"] if a.mode != "book" else 0
    T["distinct_outcomes_seen"] = T["seen"]
    print(json.dumps(T))


if __name__ == "__main__":
    main()
