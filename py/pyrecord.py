#!/usr/bin/env python3-vt
"""record-validate, recording half, through the real compiled extension module.

Drives bourse.core.OrderBook (mode book), StepEnv (mode env) or StepEnvNumpy (mode numpy) with
seeded random call sequences over wide alphabets and logs one ndjson event per call: the call,
its arguments, what it returned / raised, and what the object shows afterwards (raw getter
values; only the two sentinels 2^32-1 and 2^64-1 are translated, by value).  TLC validates the
file: book traces against BookTrace.tla (Python clauses), environment traces against PyTrace.tla.

usage: pyrecord.py --mode M --out FILE --seed N --runs R --ops K [--profile JSON]
Prints one JSON summary line on stdout.
"""
import argparse, json, os, random, sys

U32 = 2 ** 32 - 1
U64 = 2 ** 64 - 1
SPEC_MAX = 1 << 30


def tr(x):
    if isinstance(x, (bool, str)) or x is None:
        return x
    if isinstance(x, (list, tuple)):
        return [tr(v) for v in x]
    if isinstance(x, dict):
        return {k: tr(v) for k, v in x.items()}
    if hasattr(x, "tolist"):
        return tr(x.tolist())
    if hasattr(x, "item"):
        return tr(x.item())
    if isinstance(x, int):
        return SPEC_MAX if x == U32 else (-1 if x == U64 else x)
    return x


def frame(df):
    cols = list(df.columns)
    return {"columns": cols, "data": {c: tr(df[c].tolist()) for c in cols}}


def exc_name(fn):
    try:
        return fn(), "none"
    except BaseException as e:
        return None, type(e).__name__


# ------------------------------------------------------------------ OrderBook
def book_scalars(b):
    return {"bid_ask": tr(b.bid_ask()), "bid_vol": b.bid_vol(), "ask_vol": b.ask_vol(),
            "best_bid_vol": b.best_bid_vol(), "best_ask_vol": b.best_ask_vol(),
            "best_bid_vol_and_orders": tr(b.best_bid_vol_and_orders()),
            "best_ask_vol_and_orders": tr(b.best_ask_vol_and_orders())}


def record_book(core, dp, rnd, f, run, ops, feats, panics, samples):
    tick = rnd.choice([1, 1, 2, 3, 5, 10])
    trading = rnd.random() < 0.85
    t0 = rnd.randrange(0, 1000)
    b = core.OrderBook(t0, tick, trading)
    base = rnd.randrange(1, 200)
    nprices = rnd.choice([4, 8, 20])
    now = t0
    back = False
    prev_orders, n_trades = [], 0
    n = 0
    ev = {"op": "reset", "py": True, "run": run, "t0": t0, "tick": tick, "trading": trading, "levels": 10, "pv": book_scalars(b),
          "no": 0, "nt": 0, "do": [], "newtr": [], "dt": 0, "audit": False, "exc": "none"}
    f.write(json.dumps(ev) + "\n")
    n += 1
    hist = [{"op": "reset", "t0": t0, "tick": tick, "trading": trading}]
    n_ops = rnd.randrange(ops // 2, ops + 1)
    for k in range(n_ops):
        r = rnd.random()
        statuses = [o[1] for o in prev_orders]
        active = [i for i, s in enumerate(statuses) if s == 1]
        dt = rnd.randrange(1, 4)
        lbl = None
        if r < 0.45 or not prev_orders:
            mkt = rnd.random() < 0.15
            p = -1 if mkt else (base + rnd.randrange(nprices)) * tick
            if not mkt and tick > 1 and rnd.random() < 0.15:
                p += rnd.randrange(1, tick)
            lbl = {"op": "cap", "dt": dt, "side": rnd.choice(["B", "A"]), "vol": rnd.randrange(1, 40), "tr": rnd.randrange(0, 20), "price": p}
        elif r < 0.62:
            i = rnd.choice(active) if active and rnd.random() < 0.85 else rnd.randrange(len(prev_orders))
            lbl = {"op": "cancel", "dt": dt, "id": i}
        elif r < 0.82:
            i = rnd.choice(active) if active and rnd.random() < 0.85 else rnd.randrange(len(prev_orders))
            cur = max(prev_orders[i][4], 1)
            np_ = -1 if rnd.random() < 0.5 else (base + rnd.randrange(nprices)) * tick
            nv = rnd.choice([-1, max(cur - rnd.randrange(1, 5), 1), cur, cur + rnd.randrange(1, 30)])
            lbl = {"op": "modify", "dt": dt, "id": i, "p": np_, "v": nv}
        elif r < 0.87:
            # set_time is a plain assignment: also to earlier times (C18 quantifies over every call sequence)
            lbl = {"op": "settime", "t": max(0, now + rnd.randrange(-3, 5))}
            if lbl["t"] < now:
                back = True
                feats["clock_moved_back"] = feats.get("clock_moved_back", 0) + 1
        elif r < 0.92:
            trading = not trading
            lbl = {"op": "enable" if trading else "disable"}
        elif r < 0.96:
            lbl = {"op": "reload", "mode": rnd.choice(["fc", "fp"])}
        else:
            c = rnd.choice([("place_order", "vol"), ("place_order", "trader_id"), ("place_order", "price"), ("cancel_order", "order_id"),
                            ("modify_order", "new_price"), ("modify_order", "new_vol"), ("modify_order", "order_id"), ("set_time", "t")])
            lbl = {"op": "bad", "call": c[0], "arg": c[1], "val": rnd.choice(["NEG", "OVER"])}
        hist.append(dict(lbl))
        op = lbl["op"]
        if "dt" in lbl:
            now += lbl["dt"]
            b.set_time(now)

        def opt(v):
            return None if v == -1 else v
        if op == "cap":
            ret, exc = exc_name(lambda: b.place_order(lbl["side"] == "B", lbl["vol"], lbl["tr"], price=opt(lbl["price"])))
            lbl["ret"] = ret if exc == "none" else -1
        elif op == "cancel":
            ret, exc = exc_name(lambda: b.cancel_order(lbl["id"]))
        elif op == "modify":
            ret, exc = exc_name(lambda: b.modify_order(lbl["id"], new_price=opt(lbl["p"]), new_vol=opt(lbl["v"])))
        elif op == "settime":
            ret, exc = exc_name(lambda: b.set_time(lbl["t"]))
            now = lbl["t"]
        elif op == "enable":
            ret, exc = exc_name(b.enable_trading)
        elif op == "disable":
            ret, exc = exc_name(b.disable_trading)
        elif op == "reload":
            path = os.path.join(os.environ.get("VERIF_WORK", "/verif/work"), "scratch", "pyrec_%d.json" % os.getpid())

            def rl():
                b.save_json_snapshot(path, lbl["mode"] != "fp")     # saving over an existing snapshot replaces it
                b.save_json_snapshot(path, lbl["mode"] == "fp")
                return core.order_book_from_json(path)
            nb, exc = exc_name(rl)
            if exc == "none":
                b = nb
                os.remove(path)
        else:
            v = -1 if lbl["val"] == "NEG" else (2 ** 64 if lbl["arg"] in ("order_id", "t") else 2 ** 32)
            c, a = lbl["call"], lbl["arg"]
            if c == "place_order":
                kw = {"vol": 1, "trader_id": 1, "price": None}
                kw[a] = v
                ret, exc = exc_name(lambda: b.place_order(True, kw["vol"], kw["trader_id"], price=kw["price"]))
            elif c == "cancel_order":
                ret, exc = exc_name(lambda: b.cancel_order(v))
            elif c == "modify_order":
                kw = {"order_id": 0, "new_price": None, "new_vol": None}
                kw[a] = v
                ret, exc = exc_name(lambda: b.modify_order(kw["order_id"], new_price=kw["new_price"], new_vol=kw["new_vol"]))
            else:
                ret, exc = exc_name(lambda: b.set_time(v))
        if exc not in ("none", "ValueError", "OverflowError"):
            panics.append({"run": run, "what": "%s raised %s" % (op, exc), "history": hist, "cfg": {"tick": tick, "t0": t0}})
            break
        try:
            orders = tr(b.get_orders())
            trades = tr(b.get_trades())
            pv = book_scalars(b)
        except BaseException as e:
            panics.append({"run": run, "what": "reading after %s raised %s: %s" % (op, type(e).__name__, str(e)[:200]), "history": hist,
                           "cfg": {"tick": tick, "t0": t0}})
            break
        d_o = [[i, o] for i, o in enumerate(orders) if i >= len(prev_orders) or prev_orders[i] != o]
        d_t = trades[min(n_trades, len(trades)):]
        ev = dict(lbl)
        ev.update({"py": True, "exc": exc, "pv": pv, "no": len(orders), "nt": len(trades), "do": d_o, "newtr": d_t,
                   "audit": (k + 1) % 25 == 0 or k + 1 == n_ops})
        if back:
            ev["clock_was_moved_back"] = True
        ev.setdefault("dt", 0)
        f.write(json.dumps(ev) + "\n")
        n += 1
        feats["op_" + op] = feats.get("op_" + op, 0) + 1
        if d_t:
            feats["events_with_trades"] = feats.get("events_with_trades", 0) + 1
            if len(samples) < 1:
                samples.append(ev)
        if exc != "none":
            feats["exc_" + exc] = feats.get("exc_" + exc, 0) + 1
        prev_orders, n_trades = orders, len(trades)
    return n


# ------------------------------------------------------------------ StepEnv / StepEnvNumpy
def env_obs(e, mode, dp, np, final):
    orders = e.get_orders()
    trades = e.get_trades()
    md = e.get_market_data()
    o = {"orders": tr(orders), "trades": tr(trades),
         "l1": tr(e.level_1_data_array() if mode == "env" else e.level_1_data()),
         "l2": tr(e.level_2_data_array() if mode == "env" else e.level_2_data()),
         "md_len": {k: len(a) for k, a in md.items()},
         "md_last": {k: (tr(a[-1]) if len(a) else -1) for k, a in md.items()},
         "order_frame": frame(dp.orders_to_dataframe(orders)), "trade_frame": frame(dp.trades_to_dataframe(trades))}
    if final:
        o["md_full"] = {k: tr(a) for k, a in md.items()}
    if mode == "env":
        o["env"] = {"time": e.time, "bid_ask": tr(e.bid_ask), "bid_vol": e.bid_vol, "ask_vol": e.ask_vol,
                    "best_bid_vol": e.best_bid_vol, "best_ask_vol": e.best_ask_vol,
                    "best_bid_vol_and_orders": tr(e.best_bid_vol_and_orders), "best_ask_vol_and_orders": tr(e.best_ask_vol_and_orders),
                    "trade_vol": e.trade_vol, "statuses": [e.order_status(i) for i in range(len(orders))],
                    "prices": tr(e.get_prices()), "volumes": tr(e.get_volumes()), "touch_volumes": tr(e.get_touch_volumes()),
                    "touch_order_counts": tr(e.get_touch_order_counts()), "trade_volumes": tr(e.get_trade_volumes())}
    return o


def record_env(core, dp, np, mode, rnd, f, run, ops, feats, panics, samples):
    tick = rnd.choice([1, 1, 2, 5])
    step = rnd.choice([3, 10, 100, 1000])
    trading = rnd.random() < 0.9
    seed = rnd.randrange(0, 1 << 40)
    e = (core.StepEnv if mode == "env" else core.StepEnvNumpy)(seed, 0, tick, step, trading)
    base = rnd.randrange(5, 100)
    nprices = rnd.choice([3, 6, 14, 30])
    n = 0
    ev = {"op": "reset", "mode": mode, "run": run, "seed": seed, "tick": tick, "step": step, "trading": trading}
    ev.update(env_obs(e, mode, dp, np, False))
    f.write(json.dumps(ev) + "\n")
    n += 1
    hist = [{"op": "reset", "mode": mode, "seed": seed, "tick": tick, "step": step, "trading": trading}]
    n_orders = 0
    batch = 0
    n_ops = rnd.randrange(max(ops // 2, 4), ops + 1)
    u32, u64 = np.uint32, np.uint64
    for k in range(n_ops):
        r = rnd.random()
        final = k + 1 == n_ops
        if final or (r < 0.25 and batch > 0) or batch >= min(step, 12):
            lbl = {"op": "step"}
        elif r < 0.75 or n_orders == 0:
            rows = []
            for _ in range(rnd.choice([1, 1, 2, 4]) if mode == "numpy" else 1):
                mkt = mode == "env" and rnd.random() < 0.12
                p = -1 if mkt else (base + rnd.randrange(nprices)) * tick
                rows.append({"side": rnd.choice(["B", "A"]), "vol": rnd.randrange(1, 30), "tr": rnd.randrange(0, 9), "price": p})
            lbl = {"op": "submit", "k": "new", "rows": rows}
        elif r < 0.9:
            lbl = {"op": "submit", "k": "cancel", "ids": [rnd.randrange(n_orders) for _ in range(rnd.choice([1, 2]) if mode == "numpy" else 1)]}
        elif mode == "env" and r < 0.97:
            lbl = {"op": "submit", "k": "modify", "id": rnd.randrange(n_orders), "p": rnd.choice([-1, (base + rnd.randrange(nprices)) * tick]),
                   "v": rnd.choice([-1, rnd.randrange(1, 30)])}
            if lbl["p"] == -1 and lbl["v"] == -1:
                lbl["v"] = 1
        else:
            trading = not trading
            lbl = {"op": "enable" if trading else "disable"}
        hist.append(dict(lbl))
        op = lbl["op"]
        try:
            if op == "step":
                e.step()
                batch = 0
            elif op in ("enable", "disable"):
                (e.enable_trading if op == "enable" else e.disable_trading)()
            elif lbl["k"] == "new":
                rows = lbl["rows"]
                if mode == "env":
                    x = rows[0]
                    ids = [e.place_order(x["side"] == "B", x["vol"], x["tr"], price=None if x["price"] == -1 else x["price"])]
                elif rnd.random() < 0.5:
                    ids = e.submit_limit_orders((np.array([x["side"] == "B" for x in rows], dtype=bool), np.array([x["vol"] for x in rows], dtype=u32),
                                                 np.array([x["tr"] for x in rows], dtype=u32), np.array([x["price"] for x in rows], dtype=u32))).tolist()
                    lbl["via"] = "submit_limit_orders"
                else:
                    ids = e.submit_instructions((np.array([1] * len(rows), dtype=u32), np.array([x["side"] == "B" for x in rows], dtype=bool),
                                                 np.array([x["vol"] for x in rows], dtype=u32), np.array([x["tr"] for x in rows], dtype=u32),
                                                 np.array([x["price"] for x in rows], dtype=u32), np.array([0] * len(rows), dtype=u64))).tolist()
                    lbl["via"] = "submit_instructions"
                lbl["ret"] = tr(ids)
                n_orders += len(ids)
                batch += len(ids)
            elif lbl["k"] == "cancel":
                if mode == "env":
                    e.cancel_order(lbl["ids"][0])
                elif rnd.random() < 0.5:
                    e.submit_cancellations(np.array(lbl["ids"], dtype=u64))
                    lbl["via"] = "submit_cancellations"
                else:
                    # a null row in front and behind; unused fields hold arbitrary values (documented as ignored)
                    m = len(lbl["ids"]) + 2
                    junk = tick + 1 if tick > 1 else 7
                    ids = e.submit_instructions((np.array([0] + [2] * (m - 2) + [0], dtype=u32), np.array([True] * m, dtype=bool), np.array([5] * m, dtype=u32),
                                                 np.array([9] * m, dtype=u32), np.array([junk] * m, dtype=u32),
                                                 np.array([(1 << 64) - 2] + lbl["ids"] + [3], dtype=u64))).tolist()
                    lbl["via"] = "submit_instructions"
                    lbl["ret"] = tr(ids)[1:-1]
                    if tr(ids)[0] != -1 or tr(ids)[-1] != -1:
                        lbl["ret"] = tr(ids)
                batch += len(lbl["ids"])
            else:
                e.modify_order(lbl["id"], new_price=None if lbl["p"] == -1 else lbl["p"], new_vol=None if lbl["v"] == -1 else lbl["v"])
                batch += 1
            obs = env_obs(e, mode, dp, np, final)
        except BaseException as ex:
            panics.append({"run": run, "what": "%s raised %s: %s" % (op, type(ex).__name__, str(ex)[:200]), "history": hist,
                           "cfg": {"mode": mode, "tick": tick, "step": step, "seed": seed}})
            break
        ev = dict(lbl)
        ev["final"] = final
        ev.update(obs)
        f.write(json.dumps(ev) + "\n")
        n += 1
        feats["op_" + op] = feats.get("op_" + op, 0) + 1
        if op == "step":
            l1 = obs["l1"]
            if l1[3] > 0 and l1[4] > 0:
                feats["two_sided_steps"] = feats.get("two_sided_steps", 0) + 1
                if (l1[3], l1[5], l1[6]) != (l1[4], l1[7], l1[8]):
                    feats["asymmetric_steps"] = feats.get("asymmetric_steps", 0) + 1
            if l1[0] > 0:
                feats["steps_with_trades"] = feats.get("steps_with_trades", 0) + 1
                if len(samples) < 1:
                    samples.append({k2: ev[k2] for k2 in ("op", "l1", "l2", "md_last")})
    return n


# ------------------------------------------------------------------ bourse.step_sim.run (Python runner)
def record_pysim(core, dp, np, rnd, f, run, ops, feats, panics, samples):
    """One simulation through the real Python runner bourse.step_sim.run with RandomAgent members.  Every
    member is wrapped: the wrapper hands the inner agent a proxy of the environment that logs each
    instruction it submits (as ordinary submit events), brackets the member's update with update_begin /
    update_end events, and the first member logs, at the start of every round but the first, what the
    preceding env.step() did.  PyTrace.tla validates the loop structure, the environment's behaviour and
    the RandomAgent relation."""
    from bourse.step_sim import run as sim_run
    from bourse.step_sim.agents import BaseAgent, RandomAgent
    tick = rnd.choice([1, 2, 5])
    step = rnd.choice([10, 100, 1000])
    seed = rnd.randrange(0, 1 << 40)
    run_seed = rnd.choice([0, 0, 1, rnd.randrange(0, 1 << 30), rnd.randrange(0, 1 << 30), (1 << 63) + 5])
    n_steps = rnd.randrange(2, max(ops, 3))
    na = rnd.randrange(1, 6)
    base = rnd.randrange(5, 60)
    cfgs = []
    for j in range(na):
        lo = base + rnd.randrange(0, 6)
        vlo = rnd.randrange(1, 10)
        cfgs.append({"i": 10 + 3 * j, "rate": rnd.choice([0.0, 0.4, 0.7, 1.0, 1.5]), "tick_lo": lo, "tick_hi": lo + rnd.randrange(1, 8),
                     "vol_lo": vlo, "vol_hi": vlo + rnd.randrange(1, 20)})
    for c in cfgs:
        c["rate_class"] = "zero" if c["rate"] <= 0 else ("one" if c["rate"] >= 1 else "mid")
    env = core.StepEnv(seed, 0, tick, step, True)
    ev = {"op": "reset", "mode": "env", "run": run, "seed": seed, "tick": tick, "step": step, "trading": True, "sim": True,
          "agents": cfgs, "n_steps": n_steps}
    ev.update(env_obs(env, "env", dp, np, False))
    out = [ev]
    state = {"round": 0}

    class Proxy:
        def __init__(self, e):
            self._e = e

        def __getattr__(self, name):
            return getattr(self._e, name)

        def place_order(self, bid, vol, trader_id, price=None):
            oid = self._e.place_order(bid, vol, trader_id, price=price)
            x = {"op": "submit", "k": "new", "rows": [{"side": "B" if bid else "A", "vol": int(vol), "tr": int(trader_id), "price": -1 if price is None else int(price)}],
                 "ret": [oid], "final": False}
            x.update(env_obs(self._e, "env", dp, np, False))
            out.append(x)
            return oid

        def cancel_order(self, order_id):
            self._e.cancel_order(order_id)
            x = {"op": "submit", "k": "cancel", "ids": [int(order_id)], "final": False}
            x.update(env_obs(self._e, "env", dp, np, False))
            out.append(x)

        def modify_order(self, order_id, new_price=None, new_vol=None):
            self._e.modify_order(order_id, new_price=new_price, new_vol=new_vol)
            x = {"op": "submit", "k": "modify", "id": int(order_id), "p": -1 if new_price is None else int(new_price), "v": -1 if new_vol is None else int(new_vol), "final": False}
            x.update(env_obs(self._e, "env", dp, np, False))
            out.append(x)

    class Wrapped(BaseAgent):
        def __init__(self, j, inner):
            self.j, self.inner = j, inner

        def update(self, rng, e):
            if self.j == 0:
                if state["round"] > 0:
                    x = {"op": "step", "final": False}
                    x.update(env_obs(e, "env", dp, np, False))
                    out.append(x)
                state["round"] += 1
            x = {"op": "update_begin", "agent": self.j, "final": False}
            x.update(env_obs(e, "env", dp, np, False))
            out.append(x)
            self.inner.update(rng, Proxy(e))
            x = {"op": "update_end", "agent": self.j, "final": False}
            x.update(env_obs(e, "env", dp, np, False))
            out.append(x)

    agents = [Wrapped(j, RandomAgent(c["i"], c["rate"], (c["tick_lo"], c["tick_hi"]), (c["vol_lo"], c["vol_hi"]), tick)) for j, c in enumerate(cfgs)]
    try:
        ret = sim_run(env, agents, n_steps, run_seed, show_progress=rnd.random() < 0.3, use_numpy=False)
        x = {"op": "step", "final": True}
        x.update(env_obs(env, "env", dp, np, True))
        out.append(x)
        md = env.get_market_data()
        same = set(ret.keys()) == set(md.keys()) and all(list(ret[k]) == list(md[k]) for k in md)
        # the same simulation again (fresh environment and agents, same seeds, no recording): identical orders and trades
        env2 = core.StepEnv(seed, 0, tick, step, True)
        agents2 = [RandomAgent(c["i"], c["rate"], (c["tick_lo"], c["tick_hi"]), (c["vol_lo"], c["vol_hi"]), tick) for c in cfgs]
        sim_run(env2, agents2, n_steps, run_seed, show_progress=False, use_numpy=False)
        again = tr(env2.get_orders()) == tr(env.get_orders()) and tr(env2.get_trades()) == tr(env.get_trades())
        out.append({"op": "sim_end", "returned_market_data": bool(same), "rounds": state["round"], "repeat_identical": bool(again), "run_seed": str(run_seed)})
    except BaseException as ex:
        panics.append({"run": run, "what": "bourse.step_sim.run raised %s: %s" % (type(ex).__name__, str(ex)[:200]), "cfg": {"agents": cfgs, "tick": tick, "step": step}})
    for e in out:
        f.write(json.dumps(e) + "\n")
    feats["python_runner_simulations"] = feats.get("python_runner_simulations", 0) + 1
    feats["python_runner_updates"] = feats.get("python_runner_updates", 0) + sum(1 for e in out if e["op"] == "update_end")
    feats["python_runner_submissions"] = feats.get("python_runner_submissions", 0) + sum(1 for e in out if e["op"] == "submit")
    feats["op_step"] = feats.get("op_step", 0) + sum(1 for e in out if e["op"] == "step")
    if not samples:
        samples.append({k: v for k, v in out[0].items() if k in ("op", "agents", "n_steps", "tick", "step")})
    return len(out)


def main():
    ap = argparse.ArgumentParser()
    ap.add_argument("--mode", choices=["book", "env", "numpy", "sim"], default=None)
    ap.add_argument("--out", required=True)
    ap.add_argument("--seed", type=int, default=1)
    ap.add_argument("--runs", type=int, default=1)
    ap.add_argument("--ops", type=int, default=100)
    ap.add_argument("--profile", default="{}")
    a = ap.parse_args()
    prof = json.loads(a.profile)
    mode = a.mode or prof.get("mode", "book")
    import numpy as np
    from bourse import core, data_processing as dp
    os.makedirs(os.path.join(os.environ.get("VERIF_WORK", "/verif/work"), "scratch"), exist_ok=True)
    rnd = random.Random(a.seed)
    feats, panics, samples = {}, [], []
    n = 0
    with open(a.out, "w") as f:
        for run in range(a.runs):
            if mode == "book":
                n += record_book(core, dp, rnd, f, run, a.ops, feats, panics, samples)
            elif mode == "sim":
                n += record_pysim(core, dp, np, rnd, f, run, a.ops, feats, panics, samples)
            else:
                n += record_env(core, dp, np, mode, rnd, f, run, a.ops, feats, panics, samples)
    print(json.dumps({"events": n, "runs": a.runs, "features": feats, "panics": panics, "samples": samples}))


if __name__ == "__main__":
    main()
