"""Stand-in for pandas (not installed in this sandbox): just enough of DataFrame for
bourse.data_processing, recording which column name is bound to which tuple position."""


class Series:
    def __init__(self, values=None, dtype=None, name=None, index=None):
        self.values = list(values) if values is not None else []
        self.dtype = dtype
        self.name = name

    def astype(self, dtype):
        return Series(self.values, dtype=dtype, name=self.name)

    def copy(self):
        return Series(self.values, dtype=self.dtype, name=self.name)

    def apply(self, f):
        return Series([f(v) for v in self.values])

    def replace(self, m):
        return Series([m.get(v, v) for v in self.values])

    def map(self, m):
        if callable(m):
            return Series([m(v) for v in self.values])
        return Series([m.get(v) for v in self.values])

    def tolist(self):
        return list(self.values)

    to_list = tolist

    def __iter__(self):
        return iter(self.values)

    def __getitem__(self, i):
        return self.values[i]

    def __len__(self):
        return len(self.values)


class DataFrame:
    def __init__(self, data=None, columns=None):
        if isinstance(data, DataFrame):
            columns = list(columns or data.columns)
            data = {c: data[c].values for c in columns}
        if isinstance(data, dict) and columns is None:
            columns = list(data.keys())
        if isinstance(data, (list, tuple)) and data and not isinstance(data, dict):
            df = DataFrame.from_records(data, columns=columns)
            self.columns, self._data = df.columns, df._data
            return
        self.columns = list(columns or [])
        self._data = {c: Series([]) for c in self.columns}
        if data:
            for c in self.columns:
                self._data[c] = Series(list(data[c]))

    # ---- the part of the pandas API a helper that only arranges columns may reasonably use ----
    def astype(self, dtypes):
        return self.copy()

    def copy(self):
        return DataFrame({c: list(self._data[c].values) for c in self.columns}, columns=list(self.columns))

    def rename(self, columns=None, **kw):
        m = columns or {}
        f = m if callable(m) else (lambda c: m.get(c, c))
        return DataFrame({f(c): list(self._data[c].values) for c in self.columns}, columns=[f(c) for c in self.columns])

    def reindex(self, columns=None, **kw):
        cols = list(columns)
        n = len(self)
        return DataFrame({c: (list(self._data[c].values) if c in self._data else [None] * n) for c in cols}, columns=cols)

    def assign(self, **kw):
        df = self.copy()
        for c, v in kw.items():
            df[c] = v(df) if callable(v) else v
        return df

    def drop(self, columns=None, **kw):
        cols = [c for c in self.columns if c not in ([columns] if isinstance(columns, str) else list(columns or []))]
        return DataFrame({c: list(self._data[c].values) for c in cols}, columns=cols)

    @property
    def empty(self):
        return len(self) == 0

    @property
    def shape(self):
        return (len(self), len(self.columns))

    @classmethod
    def from_records(cls, records, columns=None):
        records = [tuple(r) for r in records]
        columns = list(columns)
        for r in records:
            if len(r) != len(columns):
                raise ValueError("%d columns passed, passed data had %d columns" % (len(columns), len(r)))
        df = cls(columns=columns)
        for k, c in enumerate(columns):
            df._data[c] = Series([r[k] for r in records])
        return df

    def __getitem__(self, c):
        if isinstance(c, (list, tuple)):
            return DataFrame({x: list(self._data[x].values) for x in c}, columns=list(c))
        return self._data[c]

    def __setitem__(self, c, s):
        if c not in self._data:
            self.columns.append(c)
        self._data[c] = s if isinstance(s, Series) else Series(s)

    def __len__(self):
        return len(self._data[self.columns[0]]) if self.columns else 0
