"""Stand-in for pandas (not installed in this sandbox): just enough of DataFrame for
bourse.data_processing, recording which column name is bound to which tuple position."""


class Series:
    def __init__(self, values):
        self.values = list(values)

    def map(self, m):
        if callable(m):
            return Series([m(v) for v in self.values])
        return Series([m.get(v) for v in self.values])

    def tolist(self):
        return list(self.values)

    to_list = tolist

    def __iter__(self):
        return iter(self.values)

    def __getitem__(self, i):
        return self.values[i]

    def __len__(self):
        return len(self.values)


class DataFrame:
    def __init__(self, data=None, columns=None):
        self.columns = list(columns or [])
        self._data = {c: Series([]) for c in self.columns}
        if data:
            for c in self.columns:
                self._data[c] = Series(list(data[c]))

    @classmethod
    def from_records(cls, records, columns=None):
        records = [tuple(r) for r in records]
        columns = list(columns)
        for r in records:
            if len(r) != len(columns):
                raise ValueError("%d columns passed, passed data had %d columns" % (len(columns), len(r)))
        df = cls(columns=columns)
        for k, c in enumerate(columns):
            df._data[c] = Series([r[k] for r in records])
        return df

    def __getitem__(self, c):
        return self._data[c]

    def __setitem__(self, c, s):
        if c not in self._data:
            self.columns.append(c)
        self._data[c] = s if isinstance(s, Series) else Series(s)

    def __len__(self):
        return len(self._data[self.columns[0]]) if self.columns else 0
