"""Stand-in for tqdm (not installed): trange with the `disable` switch.  When the bar is
enabled it writes to stderr like the real one, so the two branches of the runner differ
in the same way (an extra side effect around the loop)."""
import sys


def trange(n, disable=False, **kw):
    for i in range(n):
        if not disable:
            sys.stderr.write("\r%d/%d" % (i + 1, n))
        yield i
    if not disable:
        sys.stderr.write("\n")


def tqdm(it, disable=False, **kw):
    return it
