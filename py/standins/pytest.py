"""Stand-in for pytest (not installed in this sandbox): just enough for the repository's own Python tests to be
imported and called by py/pyscen.py - `raises` as a context manager, `fixture` / `mark` as transparent decorators."""


class _Raises:
    def __init__(self, exc):
        self.exc = exc
        self.value = None

    def __enter__(self):
        return self

    def __exit__(self, et, ev, tb):
        if et is None:
            raise AssertionError("DID NOT RAISE %r" % (self.exc,))
        self.value = ev
        return issubclass(et, self.exc)


def raises(exc, *a, **kw):
    return _Raises(exc)


def fixture(*a, **kw):
    def deco(f):
        f._is_fixture = True
        return f
    if len(a) == 1 and callable(a[0]) and not kw:
        return deco(a[0])
    return deco


class _Mark:
    def __getattr__(self, name):
        def m(*a, **kw):
            if len(a) == 1 and callable(a[0]) and not kw:
                return a[0]
            return lambda f: f
        return m


mark = _Mark()


def approx(x, *a, **kw):
    return x
