#!/usr/bin/env python3-vt
"""record-validate on the repository's OWN Python scenarios: its Python tests (tests/test_order_book.py,
tests/test_step_sim/*.py), the code blocks of its documentation pages and docstrings (`.. testcode::` /
`.. code-block:: python`) and its example script, run unmodified against the real compiled extension.

bourse.core.OrderBook / StepEnv / StepEnvNumpy / order_book_from_json are replaced by recording proxies that
forward every call to the real object and log one event per state-changing call, in exactly the formats of
py/pyrecord.py (book events -> BookTrace.tla, environment events -> PyTrace.tla / PyEnvTrace.tla).  Getters
pass through untouched.  The scenarios assert little (a handful of aggregates); TLC validates every event.

usage: pyscen.py --repo DIR --out-book FILE --out-env FILE
Prints one JSON summary line on stdout.
"""
import argparse, importlib, inspect, json, os, re, sys, tempfile, textwrap, traceback

sys.path.insert(0, os.path.dirname(os.path.abspath(__file__)))
import pyrecord as R      # tr / book_scalars / env_obs / frame: the same observation functions

BOOKS, ENVS = [], []       # every proxy ever created, in creation order
SAVED = {}                 # snapshot path -> (proxy, number of its events when it was saved, pretty)
FEATS = {}
MAX_EVENTS_PER_OBJECT = 400
MAX_ORDERS_PER_OBJECT = 300


def feat(k, n=1):
    FEATS[k] = FEATS.get(k, 0) + n


def opt(v):
    return -1 if v is None else int(v)


def make_proxies(core, dp, np):
    RealBook, RealEnv, RealNumpy, real_from_json = core.OrderBook, core.StepEnv, core.StepEnvNumpy, core.order_book_from_json

    class RecBook:
        def __init__(self, start_time, tick_size, trading=True):
            self._b = RealBook(start_time, tick_size, trading)
            self._cfg = {"t0": int(start_time), "tick": int(tick_size), "trading": bool(trading)}
            self._prev, self._nt, self._live = [], 0, True
            self._ev = [{"op": "reset", "py": True, "run": 0, "t0": int(start_time), "tick": int(tick_size), "trading": bool(trading), "levels": 10,
                         "pv": R.book_scalars(self._b), "no": 0, "nt": 0, "do": [], "newtr": [], "dt": 0, "audit": False, "exc": "none"}]
            BOOKS.append(self)

        def __getattr__(self, name):
            return getattr(self._b, name)

        def _log(self, lbl, exc):
            if not self._live:
                return
            orders = R.tr(self._b.get_orders())
            trades = R.tr(self._b.get_trades())
            prev, nt0 = self._prev, self._nt
            ev = dict(lbl)
            ev.update({"py": True, "exc": exc, "pv": R.book_scalars(self._b), "no": len(orders), "nt": len(trades),
                       "do": [[i, o] for i, o in enumerate(orders) if i >= len(prev) or prev[i] != o],
                       "newtr": trades[min(nt0, len(trades)):], "audit": True})
            ev.setdefault("dt", 0)
            if getattr(self, "_back", False):
                ev["clock_was_moved_back"] = True
            self._ev.append(ev)
            self._prev, self._nt = orders, len(trades)
            feat("book_op_" + lbl["op"])
            if ev["newtr"]:
                feat("book_events_with_trades")
            if len(self._ev) > MAX_EVENTS_PER_OBJECT or len(orders) > MAX_ORDERS_PER_OBJECT:
                self._live = False

        def _call(self, lbl, fn):
            try:
                r = fn()
            except (ValueError, OverflowError) as e:
                self._log(lbl, type(e).__name__)
                raise
            self._log(lbl, "none")
            return r

        def place_order(self, bid, vol, trader_id, price=None):
            lbl = {"op": "cap", "dt": 0, "side": "B" if bid else "A", "vol": int(vol), "tr": int(trader_id), "price": opt(price), "ret": -1}
            try:
                r = self._b.place_order(bid, vol, trader_id, price=price)
            except (ValueError, OverflowError) as e:
                if isinstance(e, OverflowError):
                    self._live = False           # out-of-range arguments are the generator's "bad" labels; not reproduced here
                self._log(lbl, type(e).__name__)
                raise
            lbl["ret"] = int(r)
            self._log(lbl, "none")
            return r

        def cancel_order(self, order_id):
            return self._call({"op": "cancel", "dt": 0, "id": int(order_id)}, lambda: self._b.cancel_order(order_id))

        def modify_order(self, order_id, new_price=None, new_vol=None):
            return self._call({"op": "modify", "dt": 0, "id": int(order_id), "p": opt(new_price), "v": opt(new_vol)},
                              lambda: self._b.modify_order(order_id, new_price=new_price, new_vol=new_vol))

        def set_time(self, t):
            self._now = getattr(self, "_now", self._cfg["t0"])
            if int(t) < self._now:
                self._back = True
            self._now = int(t)
            return self._call({"op": "settime", "t": int(t)}, lambda: self._b.set_time(t))

        def enable_trading(self):
            return self._call({"op": "enable"}, self._b.enable_trading)

        def disable_trading(self):
            return self._call({"op": "disable"}, self._b.disable_trading)

        def save_json_snapshot(self, path, pretty=False):
            r = self._b.save_json_snapshot(path, pretty)
            SAVED[os.path.abspath(path)] = (self, len(self._ev), bool(pretty), (list(self._prev), self._nt))
            feat("book_snapshots_saved")
            return r

    def from_json(path):
        real = real_from_json(path)
        k = os.path.abspath(path)
        if k not in SAVED:
            feat("book_snapshots_loaded_untraced")
            return real
        src, n, pretty, at = SAVED[k]
        p = RecBook.__new__(RecBook)
        p._b = real
        p._ev = [dict(e) for e in src._ev[:n]]
        p._cfg = dict(src._cfg)
        p._live = src._live
        p._prev, p._nt = at
        BOOKS.append(p)
        p._log({"op": "reload", "mode": "fp" if pretty else "fc", "dt": 0}, "none")
        feat("book_snapshots_loaded")
        return p

    def make_env(mode):
        Real = RealEnv if mode == "env" else RealNumpy

        class RecEnv:
            def __init__(self, seed, start_time, tick_size, step_size, trading=True):
                self._e = Real(seed, start_time, tick_size, step_size, trading)
                self._mode, self._tick, self._live = mode, int(tick_size), True
                ev = {"op": "reset", "mode": mode, "run": 0, "seed": int(seed), "tick": int(tick_size), "step": int(step_size),
                      "trading": bool(trading), "t0": int(start_time)}
                ev.update(R.env_obs(self._e, mode, dp, np, False))
                self._ev = [ev]
                self._batch = 0
                ENVS.append(self)

            def __getattr__(self, name):
                return getattr(self._e, name)

            def _log(self, lbl):
                if not self._live:
                    return
                ev = dict(lbl)
                ev["final"] = False
                ev.update(R.env_obs(self._e, self._mode, dp, np, False))
                self._ev.append(ev)
                feat("env_op_" + lbl["op"] + ("_" + lbl["k"] if "k" in lbl else ""))
                if len(self._ev) > MAX_EVENTS_PER_OBJECT or len(ev["orders"]) > MAX_ORDERS_PER_OBJECT:
                    self._live = False

            def step(self):
                self._e.step()
                if self._batch >= 4:
                    feat("env_steps_with_batch_of_4_or_more")
                self._batch = 0
                self._log({"op": "step"})

            def enable_trading(self):
                self._e.enable_trading()
                self._log({"op": "enable"})

            def disable_trading(self):
                self._e.disable_trading()
                self._log({"op": "disable"})

            # ---- StepEnv
            def place_order(self, bid, vol, trader_id, price=None):
                row = {"side": "B" if bid else "A", "vol": int(vol), "tr": int(trader_id), "price": opt(price)}
                try:
                    oid = self._e.place_order(bid, vol, trader_id, price=price)
                except ValueError:
                    self._log({"op": "submit", "k": "mixed", "ins": [], "exc": "ValueError"})
                    feat("env_value_errors")
                    raise
                self._batch += 1
                self._log({"op": "submit", "k": "new", "rows": [row], "ret": [int(oid)]})
                return oid

            def cancel_order(self, order_id):
                self._e.cancel_order(order_id)
                self._batch += 1
                self._log({"op": "submit", "k": "cancel", "ids": [int(order_id)]})

            def modify_order(self, order_id, new_price=None, new_vol=None):
                self._e.modify_order(order_id, new_price=new_price, new_vol=new_vol)
                self._batch += 1
                self._log({"op": "submit", "k": "modify", "id": int(order_id), "p": opt(new_price), "v": opt(new_vol)})

            # ---- StepEnvNumpy
            def _batch_call(self, ins, fn):
                try:
                    r = fn()
                except ValueError:
                    # rows are queued one by one until the first off-grid price raises
                    k = next((i for i, x in enumerate(ins) if x["k"] == "new" and x["price"] % self._tick != 0), len(ins))
                    self._batch += sum(1 for x in ins[:k] if x["k"] != "noop")
                    self._log({"op": "submit", "k": "mixed", "ins": ins[:k], "exc": "ValueError"})
                    feat("env_value_errors")
                    raise
                self._batch += sum(1 for x in ins if x["k"] != "noop")
                self._log({"op": "submit", "k": "mixed", "ins": ins, "ret": R.tr(r) if r is not None else [-1] * len(ins)})
                return r

            def submit_limit_orders(self, orders):
                s, v, t, p = [np.asarray(a) for a in orders]
                ins = [{"k": "new", "side": "B" if bool(s[i]) else "A", "vol": int(v[i]), "tr": int(t[i]), "price": int(p[i])} for i in range(len(s))]
                return self._batch_call(ins, lambda: self._e.submit_limit_orders(orders))

            def submit_cancellations(self, order_ids):
                ids = [int(x) for x in np.asarray(order_ids)]
                self._e.submit_cancellations(order_ids)
                self._batch += len(ids)
                self._log({"op": "submit", "k": "cancel", "ids": ids})

            def submit_instructions(self, instructions):
                a, s, v, t, p, o = [np.asarray(x) for x in instructions]
                ins = []
                for i in range(len(a)):
                    if int(a[i]) == 1:
                        ins.append({"k": "new", "side": "B" if bool(s[i]) else "A", "vol": int(v[i]), "tr": int(t[i]), "price": int(p[i])})
                    elif int(a[i]) == 2:
                        ins.append({"k": "cancel", "id": int(o[i])})
                    else:
                        ins.append({"k": "noop"})
                return self._batch_call(ins, lambda: self._e.submit_instructions(instructions))

        RecEnv.__name__ = Real.__name__
        return RecEnv

    core.OrderBook = RecBook
    core.StepEnv = make_env("env")
    core.StepEnvNumpy = make_env("numpy")
    core.order_book_from_json = from_json
    return RealBook, RealEnv, RealNumpy, real_from_json


# ------------------------------------------------------------------ scenario sources
def rst_blocks(text):
    """(group, code) for every `.. testcode:: [group]`, `.. testsetup:: [group]` and `.. code-block:: python` of a reST text."""
    out = []
    lines = text.splitlines()
    i = 0
    while i < len(lines):
        m = re.match(r"^(\s*)(?:///|//!)?\s*\.\. (testcode|testsetup|code-block)::\s*(\S*)\s*$", lines[i])
        if not m or (m.group(2) == "code-block" and m.group(3) != "python"):
            i += 1
            continue
        grp = m.group(3) if m.group(2) != "code-block" else "_"
        i += 1
        body = []
        pre = None
        while i < len(lines):
            ln = re.sub(r"^\s*(///|//!) ?", "", lines[i]) if re.match(r"^\s*(///|//!)", lines[i]) else lines[i]
            if ln.strip() == "":
                body.append("")
                i += 1
                continue
            ind = len(ln) - len(ln.lstrip())
            if pre is None:
                if re.match(r"^\s*:\w+:", ln):      # directive option
                    i += 1
                    continue
                pre = ind
            if ind < pre or (pre is not None and ind <= len(m.group(1)) and not ln.startswith(" " * pre)):
                break
            body.append(ln)
            i += 1
        code = textwrap.dedent("\n".join(body)).strip("\n")
        if code:
            out.append((grp, code))
    return out


def run_scenario(name, fn, results):
    n_b, n_e = len(BOOKS), len(ENVS)
    try:
        fn()
        ok, why = True, ""
    except BaseException as e:       # an assertion of the scenario itself, a missing optional package, ...
        ok, why = False, "%s: %s" % (type(e).__name__, str(e)[:200])
    for p in BOOKS[n_b:]:
        p._scenario = name
    for p in ENVS[n_e:]:
        p._scenario = name
    results.append({"scenario": name, "completed": ok, "why": why, "books": len(BOOKS) - n_b, "envs": len(ENVS) - n_e})
    feat("scenarios_run")
    feat("scenarios_completed" if ok else "scenarios_stopped_early")


def resolve_args(mod, fn, tmpdir, depth=0):
    kw = {}
    for pname in inspect.signature(fn).parameters:
        if pname == "tmp_path":
            import pathlib
            kw[pname] = pathlib.Path(tmpdir)
        elif pname == "benchmark":
            kw[pname] = lambda f, *a, **k: f(*a, **k)
        elif hasattr(mod, pname) and getattr(getattr(mod, pname), "_is_fixture", False) and depth < 4:
            fx = getattr(mod, pname)
            kw[pname] = fx(**resolve_args(mod, fx, tmpdir, depth + 1))
        else:
            raise LookupError("no fixture " + pname)
    return kw


def main():
    ap = argparse.ArgumentParser()
    ap.add_argument("--repo", required=True)
    ap.add_argument("--out-book", required=True)
    ap.add_argument("--out-env", required=True)
    ap.add_argument("--skip", default="benchmark")
    a = ap.parse_args()
    import numpy as np
    import bourse
    from bourse import core, data_processing as dp
    make_proxies(core, dp, np)
    results = []
    work = os.path.join(os.environ.get("VERIF_WORK", "/verif/work"), "scratch", "pyscen_%d" % os.getpid())
    os.makedirs(work, exist_ok=True)
    cwd = os.getcwd()
    os.chdir(work)                       # the documentation writes foo.json into the working directory
    # 1. the repository's Python tests
    sys.path.insert(0, a.repo)
    for modname in ("tests.test_order_book", "tests.test_step_sim.test_env", "tests.test_step_sim.test_numpy_api", "tests.test_step_sim.test_agents",
                    "tests.test_step_sim.test_benchmarks"):
        try:
            mod = importlib.import_module(modname)
        except BaseException as e:
            results.append({"scenario": modname, "completed": False, "why": "import: %s" % e, "books": 0, "envs": 0})
            continue
        for nm, fn in sorted(vars(mod).items()):
            if not nm.startswith("test_") or not callable(fn) or re.search(a.skip, nm):
                continue
            try:
                kw = resolve_args(mod, fn, tempfile.mkdtemp(dir=work))
            except LookupError as e:
                results.append({"scenario": modname + "." + nm, "completed": False, "why": str(e), "books": 0, "envs": 0})
                continue
            run_scenario("%s.%s" % (modname, nm), lambda: fn(**kw), results)
    # 2. documentation pages and docstrings: the code blocks of one group share a namespace, in order
    srcs = []
    for root in ("docs/source/pages", "rust/src", "src/bourse"):
        for dpath, _, files in os.walk(os.path.join(a.repo, root)):
            for f in sorted(files):
                if f.endswith((".rst", ".rs", ".py")):
                    srcs.append(os.path.join(dpath, f))
    for path in sorted(srcs):
        codes = [code for grp, code in rst_blocks(open(path).read())]
        if codes:
            ns = {"__name__": "__doc_example__"}

            def go():
                for c in codes:       # the blocks of one page / docstring file build on each other: one namespace, in order
                    exec(compile(c, os.path.relpath(path, a.repo), "exec"), ns)
            run_scenario("doc:%s (%d code blocks)" % (os.path.relpath(path, a.repo), len(codes)), go, results)
    # 3. the example script, at a reduced size (the script's own parameters give thousands of orders)
    ex = os.path.join(a.repo, "examples", "random_trades.py")
    if os.path.exists(ex):
        ns = {"__name__": "__example__"}
        exec(compile(open(ex).read(), "examples/random_trades.py", "exec"), ns)
        for seed, n_steps, n_agents in ((101, 12, 6), (7, 6, 14)):
            run_scenario("example:random_trades.run(%d, %d, %d)" % (seed, n_steps, n_agents), lambda: ns["run"](seed, n_steps, n_agents), results)
    os.chdir(cwd)
    # ---- write the traces: one run per object
    nb = ne = 0
    with open(a.out_book, "w") as f:
        run = 0
        for p in BOOKS:
            if len(p._ev) < 2:
                continue
            p._ev[0]["run"] = run
            p._ev[-1]["audit"] = True
            for e in p._ev:
                f.write(json.dumps(e) + "\n")
            nb += len(p._ev)
            run += 1
        n_book_runs = run
    with open(a.out_env, "w") as f:
        run = 0
        for p in ENVS:
            if len(p._ev) < 2:
                continue
            p._ev[0]["run"] = run
            last = p._ev[-1]
            last["final"] = True
            if p._live:
                try:
                    md = p._e.get_market_data()
                    last["md_full"] = {k: R.tr(v) for k, v in md.items()}
                except BaseException:
                    pass
            for e in p._ev:
                f.write(json.dumps(e) + "\n")
            ne += len(p._ev)
            run += 1
        n_env_runs = run
    FEATS["book_runs"] = n_book_runs
    FEATS["env_runs"] = n_env_runs
    print(json.dumps({"events": nb + ne, "book_events": nb, "env_events": ne, "runs": n_book_runs + n_env_runs, "features": FEATS,
                      "scenarios": results, "panics": [], "samples": []}))


if __name__ == "__main__":
    main()
